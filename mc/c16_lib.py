"""Private helpers of C16: relabelling of templates / roots by a permutation of the mode labels and pull-back of the
observables of a relabelled state to the original labelling.

Convention: a permutation is a tuple pi with pi[m] = NEW label of the mode that the original program calls m.
The relabelled program addresses pi[m] wherever the original addresses m; its final state rho' must satisfy
    rho'(quantity of new mode pi[m]) = rho(quantity of old mode m),
so `view(state', pi)` (observables pulled back through pi) must equal `view(state, identity)`.
"""

import functools
import itertools

import numpy as np


def perms(d):
    return list(itertools.permutations(range(d)))


def relabel(t, pi):
    """template with every mode index m replaced by pi[m]; '()' (all modes) becomes the explicit tuple (pi[0], ..., pi[d-1])"""
    cls, modes, params = t
    d = len(pi)
    modes = tuple(modes) if len(modes) else tuple(range(d))
    return (cls, tuple(int(pi[m]) for m in modes), params)


def permute_tuple(x, pi):
    """occupation-like tuple of the relabelled program: entry of old mode m moves to position pi[m]"""
    out = [0] * len(x)
    for m, v in enumerate(x):
        out[pi[m]] = v
    return out


def relabel_root(templates, pi, variant="tuple"):
    """relabel preparation templates.  variant 'tuple': per-mode parameter tuples are permuted and the instruction stays on all modes;
    variant 'modes': the parameters are unchanged and the instruction is put on_modes(pi[0], ..., pi[d-1])."""
    d = len(pi)
    out = []
    for cls, modes, params in templates:
        p = dict(params)
        if variant == "modes" and cls != "Vacuum":
            out.append((cls, tuple(int(pi[m]) for m in range(d)), p))
            continue
        for k in ("occupation_numbers", "ket", "bra", "mean_photon_numbers"):
            if k in p:
                p[k] = permute_tuple(list(p[k]), pi)
        if "mean" in p:  # xpxp ordered
            v = np.asarray(p["mean"], dtype=float).reshape(d, 2)
            w = np.zeros_like(v)
            for m in range(d):
                w[pi[m]] = v[m]
            p["mean"] = w.reshape(-1).tolist()
        if "cov" in p:
            c = np.asarray(p["cov"], dtype=float)
            ix = _xpxp_index(pi)
            w = np.zeros_like(c)
            w[np.ix_(ix, ix)] = c
            p["cov"] = w.tolist()
        out.append((cls, tuple(modes), p))
    return out


def _xpxp_index(pi):
    ix = []
    for m in range(len(pi)):
        ix += [2 * pi[m], 2 * pi[m] + 1]
    return np.array(ix, dtype=int)


@functools.lru_cache(maxsize=512)
def fock_index(d, cutoff, pi):
    """idx with: (amplitude of the relabelled state)[idx[k]] belongs to basis vector k of the original labelling"""
    from mc import lockstep as L

    basis = L.fock_basis(d, cutoff)
    pos = {tuple(int(x) for x in b): k for k, b in enumerate(basis)}
    idx = np.empty(len(basis), dtype=int)
    for k, b in enumerate(basis):
        idx[k] = pos[tuple(permute_tuple([int(x) for x in b], pi))]
    return idx


def view(state, pi, internal=True):
    """observables of `state` pulled back through pi: dict name -> ndarray (or dict for keyed tables).  internal=False leaves out
    representation details that are not observable (the PassiveState transmission matrix: Kerr gates materialise the state vector
    and reset it)"""
    name = type(state).__name__
    mod = type(state).__module__
    pi = tuple(int(x) for x in pi)
    P = np.array(pi, dtype=int)
    out = {}
    if "fermionic" in mod:
        if name == "GaussianState":
            ix = _xpxp_index(pi)
            cov = np.asarray(state.covariance_matrix)
            out["covariance_matrix"] = cov[np.ix_(ix, ix)]
        else:
            fm = state.fock_probabilities_map
            tab = {}
            for k, v in fm.items():
                k = tuple(int(x) for x in k)
                tab[tuple(k[pi[m]] for m in range(len(pi)))] = float(np.real(v))
            out["fock_probabilities_map"] = tab
        return out
    if name == "GaussianState":
        out["mean"] = np.asarray(state._m)[P]
        out["C"] = np.asarray(state._C)[np.ix_(P, P)]
        out["G"] = np.asarray(state._G)[np.ix_(P, P)]
        return out
    d = state.d
    cutoff = int(state._config.cutoff)
    if name == "PureFockState":
        sv = np.asarray(state.state_vector)
        out["state_vector"] = sv[fock_index(d, cutoff, pi)] if d >= 1 else sv
        return out
    if name == "FockState":
        dm = np.asarray(state.density_matrix)
        ix = fock_index(d, cutoff, pi) if d >= 1 else np.arange(len(dm))
        out["density_matrix"] = dm[np.ix_(ix, ix)]
        return out
    if name == "PassiveState":
        from piquasso.api.exceptions import PiquassoException

        if internal and not state._postselections:
            out["interferometer"] = np.asarray(state.interferometer)[np.ix_(P, P)]
        try:
            fm = state.fock_probabilities_map
            tab = {}
            for k, v in fm.items():
                k = tuple(int(x) for x in k)
                tab[tuple(k[pi[m]] for m in range(len(pi)))] = float(np.real(v))
            out["fock_probabilities_map"] = tab
        except (PiquassoException, NotImplementedError):
            pass
        try:
            sv = np.asarray(state.state_vector)
            if d >= 1 and len(sv) == len(fock_index(d, cutoff, pi)):
                out["state_vector"] = sv[fock_index(d, cutoff, pi)]
        except (PiquassoException, NotImplementedError):
            pass
        return out
    raise TypeError("c16_lib.view: unknown state class %s.%s" % (mod, name))


def compare_views(a, b, tol=1e-9, mask=None):
    """-> (observable, deviation) of the first observable that differs beyond tol (abs + rel), else None.  mask: boolean array over the
    Fock basis restricting state_vector / density_matrix comparisons (exact sectors)."""
    for k in a:
        if k not in b:
            continue
        x, y = a[k], b[k]
        if isinstance(x, dict):
            keys = set(x) | set(y)
            dev = max((abs(x.get(q, 0.0) - y.get(q, 0.0)) for q in keys), default=0.0)
            if dev > tol:
                return k, dev
            continue
        x, y = np.asarray(x), np.asarray(y)
        if x.shape != y.shape:
            return k, float("inf")
        if mask is not None and k in ("state_vector", "density_matrix"):
            if not mask.any():
                continue
            ix = np.nonzero(mask)[0]
            x, y = (x[np.ix_(ix, ix)], y[np.ix_(ix, ix)]) if x.ndim == 2 else (x[ix], y[ix])
        if x.size == 0:
            continue
        diff = np.abs(x - y)
        if not np.all(np.isfinite(diff)):
            return k, float("inf")
        excess = diff - tol * np.maximum(1.0, np.maximum(np.abs(x), np.abs(y)))
        if excess.max() > 0:
            return k, float(diff.max())
    return None


def support(t, d):
    modes = t[1] if isinstance(t, tuple) else t["modes"]
    return frozenset(modes) if len(modes) else frozenset(range(d))


def reduced_perm(pi, measured):
    """the permutation induced on the modes that remain after measuring `measured` (original labels): position i of the remaining
    original modes (ascending) -> position of its new label among the remaining new labels (ascending)"""
    d = len(pi)
    rest = [m for m in range(d) if m not in measured]
    new_rest = sorted(pi[m] for m in rest)
    return tuple(new_rest.index(pi[m]) for m in rest)
