"""Populate the numba on-disk cache (NUMBA_CACHE_DIR) once, in a single process, so that
16 freshly spawned workers do not all JIT-compile the same functions at the same time.
Best effort: any exception is swallowed (a cold cache only costs time)."""

import sys
import traceback


def main():
    import numpy as np
    import piquasso as pq

    def run(sim, prog, **kw):
        try:
            return sim.execute(prog, **kw)
        except Exception:
            traceback.print_exc(limit=1)

    for cutoff in (2, 4):
        with pq.Program() as p:
            pq.Q() | pq.StateVector([1, 1, 0])
            pq.Q(0, 1) | pq.Beamsplitter(theta=0.3, phi=0.2)
            pq.Q(2, 0) | pq.Beamsplitter5050()
            pq.Q(1) | pq.Phaseshifter(phi=0.3)
            pq.Q(0) | pq.Squeezing(r=0.1, phi=0.2)
            pq.Q(1) | pq.Displacement(r=0.1, phi=0.3)
            pq.Q(0, 2) | pq.Squeezing2(r=0.1, phi=0.3)
            pq.Q(1) | pq.Kerr(xi=0.1)
            pq.Q(0, 1) | pq.CrossKerr(xi=0.1)
            pq.Q(2) | pq.ParticleNumberMeasurement()
        r = run(pq.PureFockSimulator(d=3, config=pq.Config(cutoff=max(cutoff, 3), seed_sequence=1)), p, shots=2)
        run(pq.PureFockSimulator(d=3, config=pq.Config(cutoff=max(cutoff, 3))), p, shots=None)
    with pq.Program() as p:
        pq.Q() | pq.Vacuum()
        pq.Q(0) | pq.Squeezing(r=0.1, phi=0.2)
        pq.Q(0, 1) | pq.Beamsplitter(theta=0.3, phi=0.2)
        pq.Q(1) | pq.Displacement(r=0.1, phi=0.3)
        pq.Q(0) | pq.Attenuator(theta=0.2)
    r = run(pq.FockSimulator(d=2, config=pq.Config(cutoff=4)), p)
    r = run(pq.GaussianSimulator(d=2, config=pq.Config(cutoff=4)), p)
    try:
        st = r.state
        st.fock_probabilities
        st.get_particle_detection_probability((1, 0))
        st.get_threshold_detection_probability((1, 0))
    except Exception:
        traceback.print_exc(limit=1)
    for meas in (pq.ParticleNumberMeasurement(), pq.ThresholdMeasurement(), pq.HomodyneMeasurement(), pq.HeterodyneMeasurement()):
        with pq.Program() as p:
            pq.Q() | pq.Vacuum()
            pq.Q(0) | pq.Squeezing(r=0.1, phi=0.2)
            pq.Q(0, 1) | pq.Beamsplitter(theta=0.3, phi=0.2)
            pq.Q(0, 1) | meas
        run(pq.GaussianSimulator(d=2, config=pq.Config(cutoff=4, seed_sequence=3)), p, shots=2)
    with pq.Program() as p:
        pq.Q() | pq.NumberState([1, 1, 0])
        pq.Q(0, 1) | pq.Beamsplitter(theta=0.3, phi=0.2)
        pq.Q(1, 2) | pq.Beamsplitter(theta=0.5, phi=0.1)
        pq.Q() | pq.ParticleNumberMeasurement()
    r = run(pq.PassiveSimulator(d=3, config=pq.Config(seed_sequence=3)), p, shots=3)
    try:
        with pq.Program() as p0:  # no measurement: Result.state is defined only for a single branch
            pq.Q() | pq.NumberState([1, 1, 0])
            pq.Q(0, 1) | pq.Beamsplitter(theta=0.3, phi=0.2)
        st = pq.PassiveSimulator(d=3, config=pq.Config(seed_sequence=3)).execute(p0).state
        st.fock_probabilities
        st.get_particle_detection_probability((1, 1, 0))
    except Exception:
        traceback.print_exc(limit=1)
    try:
        from piquasso._math import fock, indices, combinatorics
        from piquasso.fermionic import _utils as fu

        fock.nb_get_fock_space_basis(2, 3)
        indices.get_index_in_fock_space((1, 1))
        indices.get_index_in_fock_space_array(np.array([[1, 1]]))
        indices.get_index_in_fock_subspace(np.array([1, 1]))
        indices.get_index_in_fock_subspace_array(np.array([[1, 1]]))
        combinatorics.partitions_bounded_k(2, 2, [0], [1], 1)
        fu.get_fock_space_basis(3, 4)
        fu.binary_to_fock_indices(3)
    except Exception:
        traceback.print_exc(limit=1)


if __name__ == "__main__":
    try:
        main()
    except Exception:
        traceback.print_exc()
    sys.exit(0)
