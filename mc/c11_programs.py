"""Catalogue of sampling programs of the C11 check (private helper of mc/checks/c11.py).

Every entry is addressed by NAME; ``make(name, vseed)`` returns a ``Spec`` whose members are
plain callables, so that a case ``{"program": name, "seed": s, "shots": k, ...}`` is JSON-able
and can be replayed.  ``vseed`` (VERIF_SEED) only changes the generic interferometers / angles.

A Spec has
    family      "fock" | "passive" | "gaussian" | "fermionic"
    sampler     short name of the sampling routine that is exercised (signature attribute)
    d           number of modes
    config      keyword arguments of pq.Config (without seed_sequence / use_dask)
    program()   builds a NEW pq.Program every time it is called
    simulator(config) -> a new simulator
    dask        True if the sampler has a use_dask branch (per-shot tasks)
    entropy     None | callable () -> upper bound of the largest outcome probability of ONE shot
                of the exact law (independent reference; used for "different seeds differ")

piquasso is imported lazily (the module itself must be importable without it).
"""

import math


def generic_unitary(d, vseed, idx):
    import numpy as np
    from scipy.linalg import expm

    H = np.zeros((d, d), dtype=complex)
    for j in range(d):
        for k in range(d):
            x = 0.9 + 0.41 * vseed + 1.27 * j + 2.03 * k + 0.77 * idx
            H[j, k] = math.sin(x) + 1j * math.cos(1.9 * x + 0.2)
    H = (H + H.conj().T) / 2
    return expm(1j * H)


class Spec:
    def __init__(self, name, family, sampler, d, config, program, simulator, dask=False, entropy=None, shots=None):
        self.name = name
        self.family = family
        self.sampler = sampler
        self.d = d
        self.config = dict(config)
        self.program = program
        self.simulator = simulator
        self.dask = dask
        self.entropy = entropy
        self.shots = shots  # preferred shot count of the histories part (None = default)


_REG = {}


def _reg(name):
    def deco(fn):
        _REG[name] = fn
        return fn

    return deco


def names():
    return sorted(_REG)


def make(name, vseed=0):
    return _REG[name](name, vseed)


# ---------------------------------------------------------------------------------------
# Fock-space simulators (categorical sampling from Config._random)


@_reg("purefock_pnm")
def _purefock_pnm(name, vseed):
    import piquasso as pq

    U = generic_unitary(3, vseed, 1)

    def program():
        with pq.Program() as p:
            pq.Q(all) | pq.StateVector([1, 1, 0])
            pq.Q(all) | pq.Interferometer(U)
            pq.Q(all) | pq.ParticleNumberMeasurement()
        return p

    def law_max():
        from mc.refmodel import bornlaw

        return max(bornlaw.indistinguishable_law(U, [1, 1, 0]).values())

    return Spec(name, "fock", "fock.pure.particle_number_measurement", 3, {"cutoff": 3}, program,
                lambda c: pq.PureFockSimulator(d=3, config=c), entropy=law_max)


@_reg("purefock_pnm_partial")
def _purefock_pnm_partial(name, vseed):
    import piquasso as pq

    U = generic_unitary(3, vseed, 2)

    def program():
        with pq.Program() as p:
            pq.Q(all) | pq.StateVector([1, 0, 1])
            pq.Q(all) | pq.Interferometer(U)
            pq.Q(2, 0) | pq.ParticleNumberMeasurement()
        return p

    return Spec(name, "fock", "fock.pure.particle_number_measurement", 3, {"cutoff": 3}, program,
                lambda c: pq.PureFockSimulator(d=3, config=c))


@_reg("purefock_midcircuit")
def _purefock_midcircuit(name, vseed):
    import piquasso as pq

    U = generic_unitary(3, vseed, 3)

    def program():
        with pq.Program() as p:
            pq.Q(all) | pq.StateVector([1, 1, 0])
            pq.Q(all) | pq.Interferometer(U)
            pq.Q(0) | pq.ParticleNumberMeasurement()
            pq.Q(1, 2) | pq.Beamsplitter(theta=0.7, phi=0.3).when("x[0] == 1")
            pq.Q(1) | pq.Phaseshifter(phi=0.4).when(lambda x: x[0] == 0)
            pq.Q(1, 2) | pq.ParticleNumberMeasurement()
        return p

    return Spec(name, "fock", "fock.pure.midcircuit", 3, {"cutoff": 3}, program,
                lambda c: pq.PureFockSimulator(d=3, config=c))


@_reg("purefock_homodyne")
def _purefock_homodyne(name, vseed):
    import numpy as np
    import piquasso as pq

    def program():
        with pq.Program() as p:
            pq.Q(all) | pq.StateVector([0, 1]) * np.sqrt(0.5)
            pq.Q(all) | pq.StateVector([1, 0]) * np.sqrt(0.5)
            pq.Q(0, 1) | pq.Beamsplitter(theta=0.6 + 0.1 * vseed, phi=0.2)
            pq.Q(0) | pq.HomodyneMeasurement()
        return p

    return Spec(name, "fock", "fock.pure.homodyne_measurement", 2, {"cutoff": 3}, program,
                lambda c: pq.PureFockSimulator(d=2, config=c), shots=3)


@_reg("purefock_imperfect_pnm")
def _purefock_imperfect(name, vseed):
    import numpy as np
    import piquasso as pq

    U = generic_unitary(2, vseed, 4)
    P = np.array([[1.0, 0.2, 0.1], [0.0, 0.8, 0.3], [0.0, 0.0, 0.6]])

    def program():
        with pq.Program() as p:
            pq.Q(all) | pq.StateVector([1, 1])
            pq.Q(all) | pq.Interferometer(U)
            pq.Q(all) | pq.ImperfectParticleNumberMeasurement(P)
        return p

    return Spec(name, "fock", "imperfect_particle_number_measurement", 2, {"cutoff": 3}, program,
                lambda c: pq.PureFockSimulator(d=2, config=c))


@_reg("fock_pnm")
def _fock_pnm(name, vseed):
    import piquasso as pq

    def program():
        with pq.Program() as p:
            pq.Q(all) | pq.Vacuum()
            pq.Q(0) | pq.Squeezing(r=0.4, phi=0.3)
            pq.Q(1) | pq.Displacement(r=0.5, phi=0.1 + 0.2 * vseed)
            pq.Q(0, 1) | pq.Beamsplitter(theta=0.8, phi=0.5)
            pq.Q(all) | pq.ParticleNumberMeasurement()
        return p

    return Spec(name, "fock", "fock.general.particle_number_measurement", 2, {"cutoff": 4}, program,
                lambda c: pq.FockSimulator(d=2, config=c))


@_reg("fermionic_fock_pnm")
def _fermionic_fock(name, vseed):
    import piquasso as pq

    U = generic_unitary(3, vseed, 5)

    def program():
        with pq.Program() as p:
            pq.Q(all) | pq.NumberState([1, 1, 0])
            pq.Q(all) | pq.Interferometer(U)
            pq.Q(all) | pq.ParticleNumberMeasurement()
        return p

    return Spec(name, "fermionic", "fermionic.fock.particle_number_measurement", 3, {"cutoff": 4}, program,
                lambda c: pq.fermionic.PureFockSimulator(d=3, config=c))


@_reg("fermionic_gaussian_pnm")
def _fermionic_gaussian(name, vseed):
    import piquasso as pq

    U = generic_unitary(3, vseed, 6)

    def program():
        with pq.Program() as p:
            pq.Q(all) | pq.NumberState([1, 0, 1])
            pq.Q(all) | pq.Interferometer(U)
            pq.Q(all) | pq.ParticleNumberMeasurement()
        return p

    return Spec(name, "fermionic", "fermionic.gaussian.particle_number_measurement", 3, {}, program,
                lambda c: pq.fermionic.GaussianSimulator(d=3, config=c))


# ---------------------------------------------------------------------------------------
# PassiveSimulator (boson sampling): per-shot generators default_rng(seed + idx), dask branch


def _passive(name, vseed, sampler, inp, idx, pre=None, post=None, measured=None, dask=True, prep=None, entropy_unitary=False,
             config=None):
    import piquasso as pq

    d = len(inp)
    U = generic_unitary(d, vseed, idx)

    def program():
        with pq.Program() as p:
            if prep is None:
                pq.Q(all) | pq.NumberState(list(inp))
            else:
                prep(pq)
            pq.Q(all) | pq.Interferometer(U)
            if pre is not None:
                pre(pq)
            if measured is None:
                pq.Q(all) | pq.ParticleNumberMeasurement()
            else:
                pq.Q(*measured) | pq.ParticleNumberMeasurement()
            if post is not None:
                post(pq)
        return p

    ent = None
    if entropy_unitary:

        def ent():
            from mc.refmodel import bornlaw

            return max(bornlaw.indistinguishable_law(U, list(inp)).values())

    return Spec(name, "passive", sampler, d, config or {}, program, lambda c: pq.PassiveSimulator(d=d, config=c), dask=dask, entropy=ent)


@_reg("passive_lossless")
def _passive_lossless(name, vseed):
    return _passive(name, vseed, "passive_lossless", [1, 1, 1], 10, entropy_unitary=True)


@_reg("passive_lossless_multi")
def _passive_lossless_multi(name, vseed):
    return _passive(name, vseed, "passive_lossless", [2, 1, 0], 11)


@_reg("passive_marginal")
def _passive_marginal(name, vseed):
    # measuring a subset of the modes: generate_marginal_samples draws from the SHARED Config.rng (no dask branch)
    return _passive(name, vseed, "passive_marginal", [1, 1, 1], 12, measured=(2, 0), dask=False)


@_reg("passive_uniform_loss")
def _passive_uniform_loss(name, vseed):
    def pre(pq):
        pq.Q(all) | pq.UniformLoss(0.8)

    return _passive(name, vseed, "passive_uniform_loss", [1, 1, 1], 13, pre=pre)


@_reg("passive_nonuniform_loss")
def _passive_nonuniform_loss(name, vseed):
    def pre(pq):
        pq.Q(0) | pq.Loss(0.7)
        pq.Q(2) | pq.Loss(0.9)

    return _passive(name, vseed, "passive_nonuniform_loss", [1, 1, 0], 14, pre=pre)


@_reg("passive_postselect")
def _passive_postselect(name, vseed):
    def pre(pq):
        pq.Q(1) | pq.PostSelectPhotons(photon_counts=(1,))

    return _passive(name, vseed, "passive_postselect", [1, 1, 1], 15, pre=pre, measured=(0, 2))


@_reg("passive_postselect_uniform_loss")
def _passive_postselect_uniform_loss(name, vseed):
    def pre(pq):
        pq.Q(all) | pq.UniformLoss(0.85)
        pq.Q(1) | pq.PostSelectPhotons(photon_counts=(1,))

    return _passive(name, vseed, "passive_postselect_uniform_loss", [1, 1, 1], 16, pre=pre, measured=(0, 2))


@_reg("passive_distinguishable")
def _passive_distinguishable(name, vseed):
    def prep(pq):
        pq.Q(all) | pq.DistinguishableNumberState([1, 1, 1], particle_overlap=0.6)

    return _passive(name, vseed, "passive_distinguishable_uniform", [1, 1, 1], 17, prep=prep)


@_reg("passive_distinguishable_uniform_loss")
def _passive_distinguishable_uniform_loss(name, vseed):
    def prep(pq):
        pq.Q(all) | pq.DistinguishableNumberState([1, 1, 1], particle_overlap=0.5)

    def pre(pq):
        pq.Q(all) | pq.UniformLoss(0.8)

    return _passive(name, vseed, "passive_distinguishable_uniform_loss", [1, 1, 1], 18, prep=prep, pre=pre)


@_reg("passive_distinguishable_postselect")
def _passive_distinguishable_postselect(name, vseed):
    def prep(pq):
        pq.Q(all) | pq.DistinguishableNumberState([1, 1, 1], particle_overlap=0.6)

    def pre(pq):
        # (with a lossless interferometer the sampler's loss weight 1 - sum|U|^2 can be -1e-16 and numpy refuses the
        # weights -- not a C11 matter; a uniform loss keeps the weight positive)
        pq.Q(all) | pq.UniformLoss(0.7)
        pq.Q(1) | pq.PostSelectPhotons(photon_counts=(1,))

    return _passive(name, vseed, "passive_distinguishable_postselect", [1, 1, 1], 19, prep=prep, pre=pre, measured=(0, 2))


@_reg("passive_distinguishable_matrix")
def _passive_distinguishable_matrix(name, vseed):
    import numpy as np

    v = np.array([[1.0, 0.0], [0.6, 0.8], [0.8, 0.6]])
    G = v @ v.T

    def prep(pq):
        pq.Q(all) | pq.DistinguishableNumberState([1, 1, 1], particle_overlap=G)

    def pre(pq):
        # (without loss the probabilities of the loss sectors come out as -1e-17 and numpy refuses them -- not a C11 matter)
        pq.Q(0) | pq.Loss(0.8)
        pq.Q(1) | pq.Loss(0.9)

    # general Gram matrix: the naive sampler draws all shots from Config.rng.choice (no dask branch)
    return _passive(name, vseed, "passive_distinguishable_matrix", [1, 1, 1], 20, prep=prep, pre=pre, dask=False)


@_reg("passive_imperfect_pnm")
def _passive_imperfect(name, vseed):
    import numpy as np
    import piquasso as pq

    U = generic_unitary(2, vseed, 21)
    P = np.array([[1.0, 0.2, 0.1], [0.0, 0.8, 0.3], [0.0, 0.0, 0.6]])

    def program():
        with pq.Program() as p:
            pq.Q(all) | pq.NumberState([1, 1])
            pq.Q(all) | pq.Interferometer(U)
            pq.Q(all) | pq.ImperfectParticleNumberMeasurement(P)
        return p

    return Spec(name, "passive", "passive_imperfect_pnm", 2, {}, program, lambda c: pq.PassiveSimulator(d=2, config=c), dask=True)


@_reg("passive_midcircuit")
def _passive_midcircuit(name, vseed):
    import piquasso as pq

    U = generic_unitary(3, vseed, 22)

    def program():
        with pq.Program() as p:
            pq.Q(all) | pq.NumberState([1, 1, 0])
            pq.Q(all) | pq.Interferometer(U)
            pq.Q(0) | pq.ParticleNumberMeasurement()
            pq.Q(1, 2) | pq.Beamsplitter(theta=0.9, phi=0.2).when("x[0] == 1")
            pq.Q(1, 2) | pq.ParticleNumberMeasurement()
        return p

    return Spec(name, "passive", "passive_midcircuit", 3, {}, program, lambda c: pq.PassiveSimulator(d=3, config=c), dask=True)


# ---------------------------------------------------------------------------------------
# GaussianSimulator


def _gauss_prog(pq, vseed, d, displaced):
    pq.Q(all) | pq.Vacuum()
    for m in range(d):
        pq.Q(m) | pq.Squeezing(r=0.35 + 0.1 * m, phi=0.2 * m + 0.1 * vseed)
    if displaced:
        pq.Q(0) | pq.Displacement(r=0.4, phi=0.3)
    pq.Q(0, 1) | pq.Beamsplitter(theta=0.7, phi=0.25)
    if d > 2:
        pq.Q(1, 2) | pq.Beamsplitter(theta=0.5, phi=0.1)


def _gauss(name, vseed, sampler, meas, d=2, displaced=True, config=None, dask=False, shots=None):
    import piquasso as pq

    def program():
        with pq.Program() as p:
            _gauss_prog(pq, vseed, d, displaced)
            meas(pq)
        return p

    return Spec(name, "gaussian", sampler, d, config or {}, program, lambda c: pq.GaussianSimulator(d=d, config=c), dask=dask, shots=shots)


@_reg("gaussian_pnm")
def _gaussian_pnm(name, vseed):
    def meas(pq):
        pq.Q(all) | pq.ParticleNumberMeasurement()

    return _gauss(name, vseed, "gaussian.particle_number_measurement", meas, config={"measurement_cutoff": 4}, dask=True)


@_reg("gaussian_pnm_partial")
def _gaussian_pnm_partial(name, vseed):
    def meas(pq):
        pq.Q(2, 0) | pq.ParticleNumberMeasurement()

    return _gauss(name, vseed, "gaussian.particle_number_measurement", meas, d=3, displaced=False, config={"measurement_cutoff": 3}, dask=True)


@_reg("gaussian_threshold_hafnian")
def _gaussian_threshold_hafnian(name, vseed):
    def meas(pq):
        pq.Q(all) | pq.ThresholdMeasurement()

    return _gauss(name, vseed, "gaussian.threshold_hafnian", meas, config={"use_torontonian": False, "measurement_cutoff": 4}, dask=True)


@_reg("gaussian_threshold_torontonian")
def _gaussian_threshold_torontonian(name, vseed):
    def meas(pq):
        pq.Q(all) | pq.ThresholdMeasurement()

    return _gauss(name, vseed, "gaussian.threshold_torontonian", meas, displaced=False, config={"use_torontonian": True})


@_reg("gaussian_threshold_torontonian_displaced")
def _gaussian_threshold_torontonian_displaced(name, vseed):
    def meas(pq):
        pq.Q(1, 0) | pq.ThresholdMeasurement()

    return _gauss(name, vseed, "gaussian.threshold_torontonian", meas, displaced=True, config={"use_torontonian": True})


@_reg("gaussian_homodyne")
def _gaussian_homodyne(name, vseed):
    def meas(pq):
        pq.Q(0, 1) | pq.HomodyneMeasurement(phi=0.3)

    return _gauss(name, vseed, "gaussian.homodyne", meas)


@_reg("gaussian_heterodyne")
def _gaussian_heterodyne(name, vseed):
    def meas(pq):
        pq.Q(1) | pq.HeterodyneMeasurement()

    return _gauss(name, vseed, "gaussian.heterodyne", meas)


@_reg("gaussian_generaldyne")
def _gaussian_generaldyne(name, vseed):
    import numpy as np

    cov = np.array([[2.0, 0.0], [0.0, 0.5]])

    def meas(pq):
        pq.Q(0) | pq.GeneraldyneMeasurement(detection_covariance=cov)

    return _gauss(name, vseed, "gaussian.generaldyne", meas)


@_reg("gaussian_imperfect_pnm")
def _gaussian_imperfect(name, vseed):
    import numpy as np

    P = np.array([[1.0, 0.2, 0.1, 0.05], [0.0, 0.8, 0.3, 0.15], [0.0, 0.0, 0.6, 0.3], [0.0, 0.0, 0.0, 0.5]])

    def meas(pq):
        pq.Q(all) | pq.ImperfectParticleNumberMeasurement(P)

    return _gauss(name, vseed, "gaussian.imperfect_pnm", meas, config={"measurement_cutoff": 4}, dask=True)


@_reg("gaussian_midcircuit")
def _gaussian_midcircuit(name, vseed):
    def meas(pq):
        pq.Q(0) | pq.HomodyneMeasurement(phi=0.1)
        pq.Q(1) | pq.Displacement(r=0.3, phi=0.2).when("x[0] > 0")
        pq.Q(1) | pq.Phaseshifter(phi=0.5).when(lambda x: x[0] <= 0)
        pq.Q(1) | pq.ParticleNumberMeasurement()

    return _gauss(name, vseed, "gaussian.midcircuit", meas, config={"measurement_cutoff": 4}, dask=True, shots=3)


# ---------------------------------------------------------------------------------------
# programs whose exact single-shot law is known in closed form (part iii: different seeds)


@_reg("entropy_purefock_bs")
def _entropy_purefock_bs(name, vseed):
    import numpy as np
    import piquasso as pq

    def program():
        with pq.Program() as p:
            pq.Q(all) | pq.StateVector([1, 0])
            pq.Q(0, 1) | pq.Beamsplitter(theta=np.pi / 4, phi=0.3 * vseed)
            pq.Q(all) | pq.ParticleNumberMeasurement()
        return p

    # one photon on a balanced beamsplitter: (1,0) and (0,1) with probability cos^2(pi/4) = sin^2(pi/4) = 1/2
    return Spec(name, "fock", "fock.pure.particle_number_measurement", 2, {"cutoff": 2}, program,
                lambda c: pq.PureFockSimulator(d=2, config=c), entropy=lambda: max(math.cos(math.pi / 4) ** 2, math.sin(math.pi / 4) ** 2))


@_reg("entropy_fock_bs")
def _entropy_fock_bs(name, vseed):
    import numpy as np
    import piquasso as pq

    def program():
        with pq.Program() as p:
            pq.Q(all) | pq.Vacuum()
            pq.Q(0) | pq.Create()
            pq.Q(0, 1) | pq.Beamsplitter(theta=np.pi / 4, phi=0.3 * vseed)
            pq.Q(all) | pq.ParticleNumberMeasurement()
        return p

    return Spec(name, "fock", "fock.general.particle_number_measurement", 2, {"cutoff": 2}, program,
                lambda c: pq.FockSimulator(d=2, config=c), entropy=lambda: max(math.cos(math.pi / 4) ** 2, math.sin(math.pi / 4) ** 2))


@_reg("entropy_fermionic_bs")
def _entropy_fermionic_bs(name, vseed):
    import numpy as np
    import piquasso as pq

    U = np.array([[1, -1], [1, 1]]) / np.sqrt(2)

    def program():
        with pq.Program() as p:
            pq.Q(all) | pq.NumberState([1, 0])
            pq.Q(all) | pq.Interferometer(U)
            pq.Q(all) | pq.ParticleNumberMeasurement()
        return p

    # one particle: statistics do not matter, p = |U[m, 0]|^2 = 1/2
    return Spec(name, "fermionic", "fermionic.fock.particle_number_measurement", 2, {"cutoff": 3}, program,
                lambda c: pq.fermionic.PureFockSimulator(d=2, config=c), entropy=lambda: 0.5)


@_reg("entropy_fermionic_gaussian_bs")
def _entropy_fermionic_gaussian_bs(name, vseed):
    import numpy as np
    import piquasso as pq

    U = np.array([[1, -1], [1, 1]]) / np.sqrt(2)

    def program():
        with pq.Program() as p:
            pq.Q(all) | pq.NumberState([1, 0])
            pq.Q(all) | pq.Interferometer(U)
            pq.Q(all) | pq.ParticleNumberMeasurement()
        return p

    return Spec(name, "fermionic", "fermionic.gaussian.particle_number_measurement", 2, {}, program,
                lambda c: pq.fermionic.GaussianSimulator(d=2, config=c), entropy=lambda: 0.5)


@_reg("entropy_gaussian_coherent_pnm")
def _entropy_gaussian_coherent_pnm(name, vseed):
    import piquasso as pq

    cutoff = 12
    nbar = 2.0

    def program():
        with pq.Program() as p:
            pq.Q(all) | pq.Vacuum()
            pq.Q(0) | pq.Displacement(r=math.sqrt(nbar), phi=0.2 * vseed)
            pq.Q(all) | pq.ParticleNumberMeasurement()
        return p

    def law_max():
        # coherent state: Poisson(nbar); the sampler renormalises over n < cutoff
        pois = [math.exp(-nbar) * nbar**n / math.factorial(n) for n in range(cutoff)]
        return max(pois) / sum(pois)

    return Spec(name, "gaussian", "gaussian.particle_number_measurement", 1, {"measurement_cutoff": cutoff}, program,
                lambda c: pq.GaussianSimulator(d=1, config=c), dask=True, entropy=law_max)


@_reg("entropy_gaussian_threshold")
def _entropy_gaussian_threshold(name, vseed):
    import piquasso as pq

    nbar = math.log(2.0)

    def program():
        with pq.Program() as p:
            pq.Q(all) | pq.Vacuum()
            pq.Q(0) | pq.Displacement(r=math.sqrt(nbar), phi=0.2 * vseed)
            pq.Q(all) | pq.ThresholdMeasurement()
        return p

    # coherent state with |alpha|^2 = ln 2: P(no click) = exp(-ln 2) = 1/2 exactly
    return Spec(name, "gaussian", "gaussian.threshold_torontonian", 1, {"use_torontonian": True}, program,
                lambda c: pq.GaussianSimulator(d=1, config=c), entropy=lambda: max(math.exp(-nbar), 1 - math.exp(-nbar)))


@_reg("entropy_gaussian_homodyne")
def _entropy_gaussian_homodyne(name, vseed):
    import piquasso as pq

    def program():
        with pq.Program() as p:
            pq.Q(all) | pq.Vacuum()
            pq.Q(0) | pq.HomodyneMeasurement()
        return p

    # continuous outcome with a bounded density (vacuum: variance hbar/2 per quadrature): the probability of any single
    # float64 value is below 2**-40, far beyond one bit
    return Spec(name, "gaussian", "gaussian.homodyne", 1, {}, program, lambda c: pq.GaussianSimulator(d=1, config=c),
                entropy=lambda: 2.0**-40)


HISTORY_PROGRAMS = [
    "purefock_pnm",
    "purefock_pnm_partial",
    "purefock_midcircuit",
    "purefock_homodyne",
    "purefock_imperfect_pnm",
    "fock_pnm",
    "fermionic_fock_pnm",
    "fermionic_gaussian_pnm",
    "passive_lossless",
    "passive_lossless_multi",
    "passive_marginal",
    "passive_uniform_loss",
    "passive_nonuniform_loss",
    "passive_postselect",
    "passive_postselect_uniform_loss",
    "passive_distinguishable",
    "passive_distinguishable_uniform_loss",
    "passive_distinguishable_postselect",
    "passive_distinguishable_matrix",
    "passive_imperfect_pnm",
    "passive_midcircuit",
    "gaussian_pnm",
    "gaussian_pnm_partial",
    "gaussian_threshold_hafnian",
    "gaussian_threshold_torontonian",
    "gaussian_threshold_torontonian_displaced",
    "gaussian_homodyne",
    "gaussian_heterodyne",
    "gaussian_generaldyne",
    "gaussian_imperfect_pnm",
    "gaussian_midcircuit",
]

DASK_PROGRAMS = [
    "passive_lossless",
    "passive_lossless_multi",
    "passive_uniform_loss",
    "passive_nonuniform_loss",
    "passive_postselect",
    "passive_postselect_uniform_loss",
    "passive_distinguishable",
    "passive_distinguishable_uniform_loss",
    "passive_distinguishable_postselect",
    "passive_imperfect_pnm",
    "passive_midcircuit",
    "gaussian_pnm",
    "gaussian_pnm_partial",
    "gaussian_threshold_hafnian",
    "gaussian_imperfect_pnm",
    "gaussian_midcircuit",
]

ENTROPY_PROGRAMS = [
    "entropy_purefock_bs",
    "entropy_fock_bs",
    "entropy_fermionic_bs",
    "entropy_fermionic_gaussian_bs",
    "entropy_gaussian_coherent_pnm",
    "entropy_gaussian_threshold",
    "entropy_gaussian_homodyne",
    "purefock_pnm",
    "passive_lossless",
]
