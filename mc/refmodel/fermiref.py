"""Jordan-Wigner reference model for d fermionic modes (no piquasso imports).

Everything is a dense 2^d-dimensional matrix / vector.  Conventions (taken from the
documentation of piquasso.fermionic, implemented here from the definitions):

* single-mode space: |0> = (1, 0), |1> = (0, 1); f = [[0, 1], [0, 0]] (f|1> = |0>);
* f_k = Z^{(x)k} (x) f (x) I^{(x)(d-k-1)}  (k = 0..d-1), Kronecker order = mode order, so the
  basis vector |n_0 ... n_{d-1}> has index sum_k n_k 2^(d-1-k) ("binary" / lexicographic
  order) and equals (f_0^+)^{n_0} ... (f_{d-1}^+)^{n_{d-1}} |vac> with sign +1;
* Majorana operators in xpxp order: m_{2k} = f_k + f_k^+, m_{2k+1} = -i (f_k - f_k^+);
* covariance matrix Sigma_ij = -i <[m_i, m_j]> / 2 (real, skew-symmetric, 2d x 2d);
* correlation matrix Gamma = [[<f_i^+ f_j>, <f_i^+ f_j^+>], [<f_i f_j>, <f_i f_j^+>]].

Gates are the exact unitaries exp(i H) of the documented Hamiltonians; H is Hermitian and
is exponentiated through its eigen-decomposition.
"""

import functools
import itertools

import numpy as np

_F = np.array([[0, 1], [0, 0]], dtype=complex)
_Z = np.diag([1.0 + 0j, -1.0])
_I = np.identity(2, dtype=complex)


def _kron(ops):
    out = np.array([[1.0 + 0j]])
    for op in ops:
        out = np.kron(out, op)
    return out


@functools.lru_cache(maxsize=None)
def ladder(d):
    """(fs, fdags): annihilation / creation operators, tuples of 2^d x 2^d matrices."""
    fs = []
    for k in range(d):
        fs.append(_kron([_Z] * k + [_F] + [_I] * (d - k - 1)))
    fdags = [f.conj().T for f in fs]
    return tuple(fs), tuple(fdags)


@functools.lru_cache(maxsize=None)
def majoranas(d):
    fs, fdags = ladder(d)
    ms = []
    for k in range(d):
        ms.append(fs[k] + fdags[k])
        ms.append(-1j * (fs[k] - fdags[k]))
    return tuple(ms)


@functools.lru_cache(maxsize=None)
def _majorana_products(d):
    ms = majoranas(d)
    n = 2 * d
    out = np.empty((n, n, 2**d, 2**d), dtype=complex)
    for i in range(n):
        for j in range(n):
            out[i, j] = ms[i] @ ms[j]
    return out


@functools.lru_cache(maxsize=None)
def occupations(d):
    """All occupation tuples in binary order (index = sum n_k 2^(d-1-k))."""
    return tuple(itertools.product((0, 1), repeat=d))


@functools.lru_cache(maxsize=None)
def fock_order(d):
    """Occupation tuples ordered by particle number, then anti-lexicographically
    (|100>, |010>, |001>, |110>, |101>, |011>, ...): the documented state-vector order
    of the Fock-space simulator."""
    occ = list(occupations(d))
    occ.sort(key=lambda v: (sum(v), tuple(-x for x in v)))
    return tuple(occ)


def index(occ):
    i = 0
    for n in occ:
        i = 2 * i + int(n)
    return i


def basis_state(occ):
    psi = np.zeros(2 ** len(occ), dtype=complex)
    psi[index(occ)] = 1.0
    return psi


# -- exponentials ------------------------------------------------------------------------


def exp_i(H):
    """exp(i H) for Hermitian H."""
    H = np.asarray(H, dtype=complex)
    if not np.allclose(H, H.conj().T, atol=1e-10):
        raise ValueError("Hamiltonian is not Hermitian")
    w, V = np.linalg.eigh((H + H.conj().T) / 2)
    return (V * np.exp(1j * w)) @ V.conj().T


def hermitian_generator(U):
    """A Hermitian A with exp(iA) = U for a unitary U (any branch: the second
    quantisation of U does not depend on it)."""
    import scipy.linalg

    U = np.asarray(U, dtype=complex)
    if not np.allclose(U @ U.conj().T, np.identity(len(U)), atol=1e-10):
        raise ValueError("matrix is not unitary")
    T, Zm = scipy.linalg.schur(U, output="complex")
    # U is normal => T is diagonal up to round-off
    if np.abs(T - np.diag(np.diag(T))).max() > 1e-10:
        raise ValueError("Schur form of a unitary is not diagonal")
    A = (Zm * np.angle(np.diag(T))) @ Zm.conj().T
    A = (A + A.conj().T) / 2
    if np.abs(exp_i(A) - U).max() > 1e-12:
        raise ValueError("generator does not reproduce the unitary")
    return A


# -- documented gates ----------------------------------------------------------------------


def h_passive(d, modes, A):
    r"""\sum_{ab} A_ab f_{m_a}^+ f_{m_b}."""
    fs, fdags = ladder(d)
    H = np.zeros((2**d, 2**d), dtype=complex)
    for a, ma in enumerate(modes):
        for b, mb in enumerate(modes):
            if A[a, b] != 0:
                H += A[a, b] * fdags[ma] @ fs[mb]
    return H


def u_interferometer(d, modes, U):
    """I(U) = exp(i f^+ A f), U = exp(iA): U is the one-particle unitary,
    I(U) f_{m_b}^+ |vac> = sum_a U_ab f_{m_a}^+ |vac>."""
    return exp_i(h_passive(d, modes, hermitian_generator(U)))


def beamsplitter_matrix(theta, phi):
    """Documented transfer matrix [[t, -conj(r)], [r, t]], t = cos(theta), r = e^{i phi} sin(theta)."""
    t = np.cos(theta)
    r = np.exp(1j * phi) * np.sin(theta)
    return np.array([[t, -np.conj(r)], [r, t]], dtype=complex)


def u_beamsplitter(d, modes, theta, phi):
    return u_interferometer(d, modes, beamsplitter_matrix(theta, phi))


def u_beamsplitter_operator_formula(d, modes, theta, phi):
    r"""exp(theta e^{i phi} f_i^+ f_j - theta e^{-i phi} f_j^+ f_i): the operator formula of
    the Beamsplitter docstring, kept for the documentation cross-check only."""
    fs, fdags = ladder(d)
    i, j = modes
    K = theta * np.exp(1j * phi) * fdags[i] @ fs[j] - theta * np.exp(-1j * phi) * fdags[j] @ fs[i]
    return exp_i(-1j * K)


def u_phaseshifter(d, modes, phi):
    r"""R_i(phi) = exp(i phi f_i^+ f_i)."""
    fs, fdags = ladder(d)
    (i,) = modes
    return exp_i(phi * fdags[i] @ fs[i])


def u_squeezing2(d, modes, r, phi):
    r"""S_ij(z) = exp( (conj(z) (f_i^+ f_j^+)^+ - z f_i^+ f_j^+) / 2 ), z = r e^{i phi}.

    This is the documented bosonic formula with the ladder operators exchanged and the
    pair-annihilation term written as the adjoint of the pair-creation term (for fermions
    a_i a_j = -(a_i^+ a_j^+)^+, and only this choice is unitary); it reproduces the documented
    action S_12 |00> = cos(r/2)|00> - e^{i phi} sin(r/2)|11>,
    S_12 |11> = cos(r/2)|11> + e^{-i phi} sin(r/2)|00>  (self-tested)."""
    fs, fdags = ladder(d)
    i, j = modes
    z = r * np.exp(1j * phi)
    pair = fdags[i] @ fdags[j]
    K = (np.conj(z) * pair.conj().T - z * pair) / 2
    return exp_i(-1j * K)


def u_ising_xx(d, modes, phi, reading="majorana"):
    r"""exp(i phi X(x)X).  reading="majorana": X(x)X = -i m_2 m_3 = -i p_i x_j on the two
    addressed modes (the documented Majorana form); reading="qubit": Pauli X_i X_j without
    a Jordan-Wigner string.  They coincide iff j = i + 1."""
    i, j = modes
    if reading == "majorana":
        ms = majoranas(d)
        XX = -1j * ms[2 * i + 1] @ ms[2 * j]
    else:
        X = np.array([[0, 1], [1, 0]], dtype=complex)
        XX = _kron([X if k in (i, j) else _I for k in range(d)])
    return exp_i(phi * XX)


def gaussian_hamiltonian_blocks(A, B):
    """H = [[A, -conj(B)], [B, -conj(A)]] as documented for GaussianHamiltonian."""
    A = np.asarray(A, dtype=complex)
    B = np.asarray(B, dtype=complex)
    return np.block([[A, -B.conj()], [B, -A.conj()]])


def h_quadratic(d, modes, H, ordering="f_fdag"):
    r"""\hat H = \mathbf f H \mathbf f^+ = sum_ij \mathbf f_i H_ij (\mathbf f_j)^+ on the
    given modes.  ordering="f_fdag": \mathbf f = [f_1..f_k, f_1^+..f_k^+] (the convention of
    piquasso.fermionic._utils.get_fermionic_hamiltonian); ordering="fdag_f":
    \mathbf f = [f_1^+..f_k^+, f_1..f_k] (the package docstring).  The two differ by
    H -> X H X with X the block swap."""
    fs, fdags = ladder(d)
    k = len(modes)
    H = np.asarray(H, dtype=complex)
    if H.shape != (2 * k, 2 * k):
        raise ValueError("shape")
    if ordering == "f_fdag":
        vec = [fs[m] for m in modes] + [fdags[m] for m in modes]
    else:
        vec = [fdags[m] for m in modes] + [fs[m] for m in modes]
    out = np.zeros((2**d, 2**d), dtype=complex)
    for i in range(2 * k):
        for j in range(2 * k):
            if H[i, j] != 0:
                out += H[i, j] * vec[i] @ vec[j].conj().T
    return out


def u_gaussian_hamiltonian(d, modes, H, ordering="f_fdag"):
    return exp_i(h_quadratic(d, modes, H, ordering))


# -- observables ---------------------------------------------------------------------------


def covariance(psi):
    d = int(round(np.log2(len(psi))))
    prods = _majorana_products(d)
    n = 2 * d
    cov = np.zeros((n, n))
    v = np.conj(psi)
    for i in range(n):
        for j in range(n):
            if i != j:
                # -i <[m_i, m_j]>/2 = -i <m_i m_j> for i != j
                cov[i, j] = np.real(-1j * (v @ prods[i, j] @ psi))
    return cov


def correlation(psi):
    d = int(round(np.log2(len(psi))))
    fs, fdags = ladder(d)
    v = np.conj(psi)
    G = np.zeros((2 * d, 2 * d), dtype=complex)
    for i in range(d):
        for j in range(d):
            G[i, j] = v @ fdags[i] @ fs[j] @ psi
            G[i, d + j] = v @ fdags[i] @ fdags[j] @ psi
            G[d + i, j] = v @ fs[i] @ fs[j] @ psi
            G[d + i, d + j] = v @ fs[i] @ fdags[j] @ psi
    return G


def probabilities(psi):
    """dict occupation tuple -> probability."""
    d = int(round(np.log2(len(psi))))
    p = np.abs(psi) ** 2
    return {occ: float(p[i]) for i, occ in enumerate(occupations(d))}


def number_distribution(prob_map, d):
    out = [0.0] * (d + 1)
    for occ, p in prob_map.items():
        out[sum(int(x) for x in occ)] += float(p)
    return out


def odd_parity(prob_map):
    return sum(float(p) for occ, p in prob_map.items() if sum(int(x) for x in occ) % 2 == 1)


def marginal(prob_map, modes):
    out = {}
    for occ, p in prob_map.items():
        key = tuple(int(occ[m]) for m in modes)
        out[key] = out.get(key, 0.0) + float(p)
    return out


# -- self test -------------------------------------------------------------------------------


def self_test():
    """Cheap algebraic sanity of the model itself; raises AssertionError."""
    for d in (1, 2, 3):
        fs, fdags = ladder(d)
        ident = np.identity(2**d)
        for i in range(d):
            for j in range(d):
                assert np.allclose(fs[i] @ fdags[j] + fdags[j] @ fs[i], ident * (i == j))
                assert np.allclose(fs[i] @ fs[j] + fs[j] @ fs[i], 0)
        ms = majoranas(d)
        for i in range(2 * d):
            for j in range(2 * d):
                assert np.allclose(ms[i] @ ms[j] + ms[j] @ ms[i], 2 * ident * (i == j))
        for occ in occupations(d):
            psi = np.zeros(2**d, dtype=complex)
            psi[0] = 1
            for k in reversed(range(d)):
                if occ[k]:
                    psi = fdags[k] @ psi
            assert np.allclose(psi, basis_state(occ))
    # documented two-mode squeezing action
    r, phi = 0.7, 0.4
    S = u_squeezing2(2, (0, 1), r, phi)
    v00, v11 = basis_state((0, 0)), basis_state((1, 1))
    assert np.allclose(S @ v00, np.cos(r / 2) * v00 - np.exp(1j * phi) * np.sin(r / 2) * v11)
    assert np.allclose(S @ v11, np.cos(r / 2) * v11 + np.exp(-1j * phi) * np.sin(r / 2) * v00)
    # X(x)X = -i m_2 m_3 on two modes
    X = np.array([[0, 1], [1, 0]], dtype=complex)
    ms = majoranas(2)
    assert np.allclose(np.kron(X, X), -1j * ms[1] @ ms[2])
    assert np.allclose(u_ising_xx(3, (1, 2), 0.3), u_ising_xx(3, (1, 2), 0.3, "qubit"))
    # interferometer = one-particle unitary, independent of the log branch; minors on 2 particles
    U = np.array([[0, 1, 0], [0, 0, 1], [1, 0, 0]], dtype=complex) * np.exp(0.3j)
    G = u_interferometer(3, (0, 1, 2), U)
    for b in range(3):
        e = [0, 0, 0]
        e[b] = 1
        out = G @ basis_state(e)
        for a in range(3):
            ea = [0, 0, 0]
            ea[a] = 1
            assert abs(out[index(ea)] - U[a, b]) < 1e-12
    out = G @ basis_state((1, 1, 0))
    for rows in ((0, 1), (0, 2), (1, 2)):
        occ = [0, 0, 0]
        for x in rows:
            occ[x] = 1
        minor = np.linalg.det(U[np.ix_(rows, (0, 1))])
        assert abs(out[index(occ)] - minor) < 1e-12
    # covariance of a basis state: Sigma[2k, 2k+1] = 1 - 2 n_k ... sign fixed by definition
    cov = covariance(basis_state((1, 0)))
    assert np.allclose(cov, -cov.T)
    assert abs(cov[0, 1] - (-1.0)) < 1e-12 and abs(cov[2, 3] - 1.0) < 1e-12
    return True
