"""Dense Fock-space reference simulator (secondary oracle of C01).  Imports nothing from piquasso.

State = amplitude vector on the full tensor-product space of d modes (plus one vacuum ancilla per
Attenuator), every mode truncated at N levels.  A gate is U = exp(i H) with H assembled from
truncated ladder matrices; U|psi> is evaluated with scipy's expm (expm_multiply on the sparse H):

* linear gates: every gate docstring in piquasso/instructions/gates.py specifies the gate by its
  complex symplectic matrix S = [[P, A], [conj A, conj P]] with U^+ xi U = S xi (Eq. "linearity").
  For the quadratic Hamiltonian  Hhat = 1/2 xi^+ Hm xi  one has  U^+ xi U = exp(i K Hm) xi,
  K = diag(1,-1), hence Hm = -i K logm(S), and in normal order
  Hhat = a^+ Aa a + 1/2 (a^+ Ab a^+T + h.c.)  (the c-number is dropped: vacuum phase of passive
  gates is 1, as for an interferometer).  The documented S matrices are transcribed in `symplectic`.
  (The docstring *Hamiltonians* of Beamsplitter, Squeezing2 and ControlledZ contradict their own
  docstring matrices by (theta, phi) -> (-theta, -phi), r -> -r/2 and s -> -s respectively; the simulators implement
  the matrices, so the matrices are the specification used here.)
* Displacement D(alpha) = exp(alpha a^+ - conj(alpha) a)  (xi -> xi + alpha), Position/Momentum: phi=0, pi/2;
  Kerr exp(i xi n^2); CrossKerr exp(i xi n_i n_j); Attenuator(theta): beamsplitter of transmission
  cos(theta) with a vacuum ancilla that is traced out (docstring: X = cos(theta) I, Y = sin(theta)^2 I).

Number-conserving gates are exact for total photon number < N; active gates carry a truncation
error, which callers bound by running two values of N (`converged`).
"""

import itertools
import numpy as np
import scipy.linalg
import scipy.sparse as sp
from scipy.sparse.linalg import expm_multiply


def symplectic(cls, p):
    """documented (P, A) blocks of the linear gates; matrices are passed in p directly"""
    c, s, e = np.cos, np.sin, np.exp
    Z1, Z2 = np.zeros((1, 1)), np.zeros((2, 2))
    if cls == "Interferometer":
        return np.asarray(p["matrix"], complex), np.zeros_like(p["matrix"], dtype=complex)
    if cls == "GaussianTransform":
        return np.asarray(p["passive"], complex), np.asarray(p["active"], complex)
    if cls == "Phaseshifter":
        return np.array([[e(1j * p["phi"])]]), Z1
    if cls == "Fourier":
        return np.array([[1j]]), Z1
    if cls == "Beamsplitter":
        t, r = c(p["theta"]), e(1j * p["phi"]) * s(p["theta"])
        return np.array([[t, -np.conj(r)], [r, t]]), Z2
    if cls == "Beamsplitter5050":
        return np.array([[1, -1], [1, 1]]) / np.sqrt(2), Z2
    if cls == "MachZehnder":
        i_, x = e(1j * p["int_"]), e(1j * p["ext"])
        return np.array([[x * (i_ - 1), 1j * (i_ + 1)], [1j * x * (i_ + 1), 1 - i_]]) / 2, Z2
    if cls == "Squeezing":
        return np.array([[np.cosh(p["r"])]]), np.array([[-e(1j * p["phi"]) * np.sinh(p["r"])]])
    if cls == "QuadraticPhase":
        return np.array([[1 + 0.5j * p["s"]]]), np.array([[0.5j * p["s"]]])
    if cls == "Squeezing2":
        ch, sh = np.cosh(p["r"]), e(1j * p["phi"]) * np.sinh(p["r"])
        return np.array([[ch, 0], [0, ch]]), np.array([[0, sh], [sh, 0]])
    if cls == "ControlledX":
        h = p["s"] / 2
        return np.array([[1, -h], [h, 1]]), np.array([[0, h], [h, 0]])
    if cls == "ControlledZ":
        h = 0.5j * p["s"]
        return np.array([[1, h], [h, 1]]), np.array([[0, h], [h, 0]])
    return None


NUMBER_CONSERVING = {"Interferometer", "Phaseshifter", "Fourier", "Beamsplitter", "Beamsplitter5050", "MachZehnder",
                     "Kerr", "CrossKerr", "Attenuator"}


class DenseFock:
    def __init__(self, d, N, occupation):
        self.d, self.N, self.anc = d, N, 0
        self.psi = np.zeros(N**d, complex)
        self.psi[int(np.ravel_multi_index(tuple(occupation), (N,) * d))] = 1.0

    def _a(self, mode):
        n = self.d + self.anc
        ops = [sp.identity(self.N, format="csr")] * n
        ops[mode] = sp.diags(np.sqrt(np.arange(1, self.N)), 1, format="csr")
        out = ops[0]
        for o in ops[1:]:
            out = sp.kron(out, o, format="csr")
        return out

    def apply(self, cls, modes, params):
        """modes: ORDERED tuple; () means all modes in ascending order"""
        modes = tuple(modes) if len(modes) else tuple(range(self.d))
        if cls == "GaussianTransform" and "factors" in params:  # (U1, r, U2): S = S(U1) S(squeezers r) S(U2)
            U1, r, U2 = params["factors"]
            self.apply("Interferometer", modes, {"matrix": U2})
            for m, rj in zip(modes, r):
                self.apply("Squeezing", (m,), {"r": float(rj), "phi": 0.0})
            return self.apply("Interferometer", modes, {"matrix": U1})
        if cls == "Attenuator":  # append a vacuum ancilla, mix with transmission cos(theta)
            self.psi = np.kron(self.psi, np.eye(self.N)[0])
            self.anc += 1
            a, b = self._a(modes[0]), self._a(self.d + self.anc - 1)
            G = params["theta"] * (a.getH() @ b - b.getH() @ a)
        elif cls in ("Displacement", "PositionDisplacement", "MomentumDisplacement"):
            alpha = {"Displacement": lambda: params["r"] * np.exp(1j * params.get("phi", 0.0)),
                     "PositionDisplacement": lambda: params["x"] + 0j,
                     "MomentumDisplacement": lambda: 1j * params["p"]}[cls]()
            a = self._a(modes[0])
            G = alpha * a.getH() - np.conj(alpha) * a
        elif cls == "Kerr":
            n = self._a(modes[0]).getH() @ self._a(modes[0])
            G = 1j * params["xi"] * (n @ n)
        elif cls == "CrossKerr":
            G = 1j * params["xi"] * (self._a(modes[0]).getH() @ self._a(modes[0])) @ (self._a(modes[1]).getH() @ self._a(modes[1]))
        else:
            P, A = symplectic(cls, params)
            k = len(modes)
            S = np.block([[P, A], [A.conj(), P.conj()]])
            K = np.diag([1.0] * k + [-1.0] * k)
            Hm = -1j * K @ scipy.linalg.logm(S)
            if np.max(np.abs(Hm - Hm.conj().T)) > 1e-9:  # e.g. -squeeze: no Hamiltonian logarithm
                raise ValueError("symplectic matrix of %s has no principal Hamiltonian logarithm; factorise it" % cls)
            Aa, Ab = Hm[:k, :k], Hm[:k, k:]
            a = [self._a(m) for m in modes]
            H = sum(Aa[i, j] * (a[i].getH() @ a[j]) for i in range(k) for j in range(k))
            pair = sum(Ab[i, j] * (a[i].getH() @ a[j].getH()) for i in range(k) for j in range(k))
            H = H + 0.5 * (pair + pair.getH())
            G = 1j * H
        self.psi = expm_multiply(sp.csc_matrix(G), self.psi)
        return self

    def _tensor(self):
        return self.psi.reshape((self.N,) * self.d + (-1,))  # last axis: all ancillas

    def amplitudes(self, basis):
        """amplitudes on the given occupation vectors (pure states only)"""
        assert self.anc == 0
        t = self._tensor()
        return np.array([t[tuple(b)][0] for b in basis])

    def density_matrix(self, basis):
        t = self._tensor()
        rows = np.array([t[tuple(b)] for b in basis])
        return rows @ rows.conj().T

    def probabilities(self, basis):
        t = self._tensor()
        return np.array([float(np.sum(np.abs(t[tuple(b)]) ** 2)) for b in basis])


def basis(d, cutoff):
    """occupation vectors with total < cutoff, total ascending then anti-lexicographic (the order of
    mc/refmodel/fockref.basis, written out again to keep this module self-contained)"""
    out = []
    for n in range(cutoff):
        out += sorted((v for v in itertools.product(range(n + 1), repeat=d) if sum(v) == n), reverse=True)
    return out
