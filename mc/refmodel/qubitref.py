"""Boring qubit state-vector reference for C19 (no piquasso imports).

Circuit = {"n": <qubits>, "ops": [op, ...]} with op one of
    ["h"|"x"|"y"|"z", q]            ["rx"|"ry"|"rz"|"p", q, theta]      ["u", q, theta, phi, lam]
    ["cz"|"cx", a, b]  (cx: a = control, b = target)
    ["measure", q, c]               (projective, qubit q -> classical bit c, qubit keeps its collapsed state;
                                     a classical bit may be written any number of times, also by measurements of
                                     different qubits: every write OVERWRITES the bit -- Qiskit / OpenQASM semantics)
    ["if", c, v, [op, ...]]         (ops applied iff classical bit c currently holds v, i.e. the value written by the
                                     LATEST preceding measurement into c; an unwritten bit reads 0)
    ["ifelse", c, v, [op...], [op...]]
Qubit q is bit q of the basis-state index (Qiskit's little-endian convention), so the
matrices can be compared entry by entry with qiskit.quantum_info.Operator.

`joint_law(circ)` returns the exact law of (classical bits, computational-basis outcome of the
qubits in `final`), `clbit_law(circ)` the law of the classical bits alone.
"""

import cmath
import math

import numpy as np


def gate1(name, *a):
    """2x2 matrix of a single-qubit gate (Qiskit's definitions, written out)."""
    if name == "h":
        return np.array([[1, 1], [1, -1]], dtype=complex) / math.sqrt(2)
    if name == "x":
        return np.array([[0, 1], [1, 0]], dtype=complex)
    if name == "y":
        return np.array([[0, -1j], [1j, 0]], dtype=complex)
    if name == "z":
        return np.array([[1, 0], [0, -1]], dtype=complex)
    if name == "p":
        return np.array([[1, 0], [0, cmath.exp(1j * a[0])]], dtype=complex)
    if name == "rz":
        return np.array([[cmath.exp(-0.5j * a[0]), 0], [0, cmath.exp(0.5j * a[0])]], dtype=complex)
    c, s = math.cos(a[0] / 2), math.sin(a[0] / 2)
    if name == "rx":
        return np.array([[c, -1j * s], [-1j * s, c]], dtype=complex)
    if name == "ry":
        return np.array([[c, -s], [s, c]], dtype=complex)
    if name == "u":
        _, phi, lam = a
        return np.array(
            [[c, -cmath.exp(1j * lam) * s], [cmath.exp(1j * phi) * s, cmath.exp(1j * (phi + lam)) * c]], dtype=complex
        )
    raise ValueError("unknown gate %r" % (name,))


def apply_op(psi, n, op):
    """Apply a unitary op to the state vector psi (length 2**n); returns a new vector."""
    name = op[0]
    idx = np.arange(1 << n)
    if name in ("cz", "cx"):
        a, b = op[1], op[2]
        both = ((idx >> a) & 1) & ((idx >> b) & 1)
        if name == "cz":
            return np.where(both == 1, -psi, psi)
        ctrl = (idx >> a) & 1
        return np.where(ctrl == 1, psi[idx ^ (1 << b)], psi)
    q = op[1]
    m = gate1(name, *op[2:])
    bit = (idx >> q) & 1
    partner = psi[idx ^ (1 << q)]
    # new[i] = m[bit, bit] * psi[i] + m[bit, 1-bit] * psi[i with bit q flipped]
    return m[bit, bit] * psi + m[bit, 1 - bit] * partner


def unitary(n, op):
    """Full 2**n x 2**n matrix of one op (for the self-test against Qiskit)."""
    dim = 1 << n
    return np.array([apply_op(np.eye(dim, dtype=complex)[:, k], n, op) for k in range(dim)]).T


def run(circ):
    """All classical histories: list of (clbits tuple with None for unwritten, unnormalised psi)."""
    n = circ["n"]
    psi0 = np.zeros(1 << n, dtype=complex)
    psi0[0] = 1.0
    branches = [((None,) * circ.get("nc", n), psi0)]

    def step(branches, op):
        out = []
        for bits, psi in branches:
            if op[0] == "measure":
                q, c = op[1], op[2]
                sel = (np.arange(1 << n) >> q) & 1
                for v in (0, 1):
                    proj = np.where(sel == v, psi, 0)
                    if np.vdot(proj, proj).real > 0:
                        out.append((bits[:c] + (v,) + bits[c + 1:], proj))
            elif op[0] in ("if", "ifelse"):
                held = bits[op[1]] or 0
                body = op[3] if held == op[2] else (op[4] if op[0] == "ifelse" else [])
                sub = [(bits, psi)]
                for inner in body:
                    sub = step(sub, inner)
                out.extend(sub)
            else:
                out.append((bits, apply_op(psi, n, op)))
        return out

    for op in circ["ops"]:
        branches = step(branches, op)
    return branches


def clbit_law(circ):
    law = {}
    for bits, psi in run(circ):
        law[bits] = law.get(bits, 0.0) + float(np.vdot(psi, psi).real)
    return law


def joint_law(circ, final):
    """Law of (classical bits, outcomes of a final computational-basis measurement of the qubits
    listed in `final`, in that order)."""
    law = {}
    for bits, psi in run(circ):
        p = (psi.conj() * psi).real
        for i in np.nonzero(p)[0]:
            key = (bits, tuple((int(i) >> q) & 1 for q in final))
            law[key] = law.get(key, 0.0) + float(p[i])
    return law


def to_qiskit(circ):
    """The same circuit as a qiskit.QuantumCircuit (harness side; qiskit imported lazily)."""
    from qiskit import QuantumCircuit

    qc = QuantumCircuit(circ["n"], circ.get("nc", circ["n"]))

    def emit(op):
        name = op[0]
        if name == "measure":
            qc.measure(op[1], op[2])
        elif name == "if":
            with qc.if_test((qc.clbits[op[1]], op[2])):
                for inner in op[3]:
                    emit(inner)
        elif name == "ifelse":
            with qc.if_test((qc.clbits[op[1]], op[2])) as else_:
                for inner in op[3]:
                    emit(inner)
            with else_:
                for inner in op[4]:
                    emit(inner)
        elif name in ("cz", "cx"):
            getattr(qc, name)(op[1], op[2])
        else:
            getattr(qc, name)(*op[2:], op[1])

    for op in circ["ops"]:
        emit(op)
    return qc


def selftest(angles=(math.pi / 2, 0.37, -1.1)):
    """Every gate matrix on every (ordered) qubit placement of a 3-qubit register equals
    qiskit.quantum_info.Operator of the one-gate circuit; measurement/conditional semantics equal
    qiskit's Statevector evolution on a few hand-written circuits.  Returns the number of comparisons."""
    from qiskit.quantum_info import Operator

    n, count = 3, 0
    ops = []
    for q in range(n):
        ops += [[g, q] for g in "hxyz"]
        ops += [[g, q, t] for g in ("rx", "ry", "rz", "p") for t in angles]
        ops += [["u", q, angles[0], angles[1], angles[2]], ["u", q, angles[2], angles[0], angles[1]]]
    for a in range(n):
        for b in range(n):
            if a != b:
                ops += [["cz", a, b], ["cx", a, b]]
    for op in ops:
        ref = Operator(to_qiskit({"n": n, "ops": [op]})).data
        got = unitary(n, op)
        if not np.allclose(got, ref, atol=1e-12, rtol=0):
            raise AssertionError("qubitref gate %r differs from qiskit Operator" % (op,))
        count += 1
    # measurement + conditional semantics, by hand
    c = {"n": 2, "ops": [["h", 0], ["measure", 0, 0], ["if", 0, 1, [["x", 1]]], ["ry", 1, 0.37]]}
    law = joint_law(c, [1])
    s2 = math.sin(0.37 / 2) ** 2
    exp = {((0, None), (0,)): 0.5 * (1 - s2), ((0, None), (1,)): 0.5 * s2, ((1, None), (0,)): 0.5 * s2, ((1, None), (1,)): 0.5 * (1 - s2)}
    if set(law) != set(exp) or any(abs(law[k] - exp[k]) > 1e-14 for k in exp):
        raise AssertionError("qubitref conditional semantics: %r" % (law,))
    c = {"n": 2, "ops": [["h", 0], ["cx", 0, 1], ["measure", 1, 1], ["ifelse", 1, 0, [["x", 0]], [["h", 0]]]]}
    law = joint_law(c, [0])
    exp = {((None, 0), (1,)): 0.5, ((None, 1), (0,)): 0.25, ((None, 1), (1,)): 0.25}
    if set(law) != set(exp) or any(abs(law[k] - exp[k]) > 1e-14 for k in exp):
        raise AssertionError("qubitref if/else semantics: %r" % (law,))
    # a classical bit written twice holds the LATEST value (a later measurement overwrites it), at the time the
    # condition is evaluated: q0 = |0>, q1 = |1>, q2 = |0>
    for first, second, expect_bit in ((0, 1, 1), (1, 0, 0)):
        c = {"n": 3, "ops": [["x", 1], ["measure", first, 0], ["measure", second, 0], ["if", 0, 1, [["x", 2]]]]}
        law = joint_law(c, [2])
        exp = {((expect_bit, None, None), (expect_bit,)): 1.0}
        if set(law) != set(exp) or any(abs(law[k] - exp[k]) > 1e-14 for k in exp):
            raise AssertionError("qubitref overwritten classical bit: %r" % (law,))
    # ... and a condition BETWEEN the two writes sees the first value (1: x fires), the one after them the second (0: h does not)
    c = {"n": 3, "ops": [["x", 0], ["measure", 0, 0], ["if", 0, 1, [["x", 2]]], ["measure", 1, 0], ["if", 0, 1, [["h", 2]]]]}
    law = joint_law(c, [2])
    exp = {((0, None, None), (1,)): 1.0}
    if set(law) != set(exp) or any(abs(law[k] - exp[k]) > 1e-14 for k in exp):
        raise AssertionError("qubitref condition between two writes of a classical bit: %r" % (law,))
    # the overwrite itself against Qiskit's own BasicSimulator (it has no if_else, so measurements only): deterministic
    # circuits, every preparation of (q0, q1) in {0,1}^2, both orders of the two writes into every classical bit
    from qiskit.providers.basic_provider import BasicSimulator

    sim = BasicSimulator()
    extra = 0
    for b0 in (0, 1):
        for b1 in (0, 1):
            for first, second in ((0, 1), (1, 0)):
                for cl in range(3):
                    c = {"n": 3, "ops": [["x", q] for q, b in ((0, b0), (1, b1)) if b] + [["measure", first, cl], ["measure", second, cl]]}
                    counts = sim.run(to_qiskit(c), shots=3).result().get_counts()
                    law = clbit_law(c)
                    if len(counts) != 1 or len(law) != 1:
                        raise AssertionError("qubitref overwrite self-test: non-deterministic %r %r" % (counts, law))
                    (bits,) = law
                    got = "".join(str(b or 0) for b in reversed(bits))  # qiskit prints clbit 0 rightmost
                    if got != list(counts)[0].replace(" ", ""):
                        raise AssertionError("qubitref overwritten classical bit differs from qiskit BasicSimulator: %r vs %r for %r" % (got, counts, c))
                    extra += 1
    return count + 5 + extra


if __name__ == "__main__":
    print("qubitref selftest ok:", selftest(), "comparisons")
