"""Reference model of measurement for C03: projection <n_M|psi> on the remaining modes, marginal /
joint outcome laws, the tree of an adaptive program, and exact shot accounting.

Imports nothing from piquasso.  Everything is written from the definitions:

* a pure state on the ordered *labelled* modes `modes` (labels are the mode numbers of the original
  program; they stay attached to a mode when other modes are measured away) is a dict
  {occupation tuple (aligned with `modes`): amplitude};  |n> = prod_i (a_i^+)^{n_i} / sqrt(n_i!) |0>
  for bosons, |n> = (f_{q1}^+)(f_{q2}^+)...|0> with q1 < q2 < ... the occupied labels for fermions;
* a mixed state is a dict {(ket occupation, bra occupation): matrix element};
* the state-vector order of the library (documented in PassiveState.state_vector: "increasing
  particle numbers, anti-lexicographic in each particle-number subspace") is re-implemented here with
  its own combinatorial-number-system ranking (`b_rank`, `f_rank`) -- nothing is shared with
  piquasso._math.indices / fock;
* a passive linear gate with k x k matrix U on the ordered labelled modes g acts as
  a_{g_i}^+ -> sum_j U[j, i] a_{g_j}^+ (the convention of every gate docstring: the matrix maps the
  vector of ladder operators, columns = inputs), expanded as a polynomial in the creation operators
  (bosons: commuting variables; fermions: anticommuting, normal-ordered with the sign of the sort);
* measurement of the ordered labelled modes M with outcome n: the amplitudes with occupation n on M,
  re-expressed on the remaining modes, divided by sqrt(p(n)).  For fermions the measured creation
  operators are anticommuted to the LEFT of the string ("left" convention), or to the right
  ("right"), or not at all ("naive"); "left" and "right" differ by the parity operator of the
  remaining modes when an odd number of particles was measured, which no physical (even) operator on
  the remaining modes can see.
"""

import itertools
import math
from fractions import Fraction
from math import comb

import numpy as np

# ---------------------------------------------------------------------------------------
# Fock index arithmetic (own implementation)


def b_dim(d, cutoff):
    """number of occupation vectors on d bosonic modes with total < cutoff"""
    if cutoff <= 0:
        return 0
    if d == 0:
        return 1
    return comb(d + cutoff - 1, d)


def b_sector(d, n):
    """compositions of n into d parts, first entry descending (anti-lexicographic)"""
    if d == 0:
        return [()] if n == 0 else []
    if d == 1:
        return [(n,)]
    out = []
    for head in range(n, -1, -1):
        for tail in b_sector(d - 1, n - head):
            out.append((head,) + tail)
    return out


def b_basis(d, cutoff):
    out = []
    for n in range(max(cutoff, 0)):
        out.extend(b_sector(d, n))
    return out


def b_rank(occ):
    """index of the occupation vector in b_basis(d, anything > sum(occ)) by counting, with big integers:
    all vectors of smaller total, then inside the sector all vectors whose first differing entry is larger."""
    d = len(occ)
    n = int(sum(occ))
    if d == 0:
        return 0
    r = b_dim(d, n)
    rem = n
    for i, x in enumerate(occ[:-1]):
        left = d - i - 1  # modes after position i
        for bigger in range(int(x) + 1, rem + 1):
            # vectors with entry `bigger` here: compositions of rem - bigger into `left` parts
            r += comb(rem - bigger + left - 1, left - 1) if left >= 1 else 0
        rem -= int(x)
    return r


def f_dim(d, cutoff):
    return sum(comb(d, k) for k in range(min(max(cutoff, 0), d + 1)))


def f_sector(d, n):
    return [v for v in b_sector(d, n) if max(v, default=0) <= 1]


def f_basis(d, cutoff):
    out = []
    for n in range(min(max(cutoff, 0), d + 1)):
        out.extend(f_sector(d, n))
    return out


def f_rank(occ):
    d = len(occ)
    n = int(sum(occ))
    r = f_dim(d, n)
    rem = n
    for i, x in enumerate(occ):
        left = d - i - 1
        if x == 0 and rem > 0:
            # vectors with a 1 here come first: choose the other rem-1 particles among `left` modes
            r += comb(left, rem - 1)
        rem -= int(x)
    return r


def index_self_test(dmax=4, cmax=5):
    for d in range(0, dmax + 1):
        for c in range(1, cmax + 1):
            bs = b_basis(d, c)
            if len(bs) != b_dim(d, c) or any(b_rank(v) != i for i, v in enumerate(bs)):
                return "bosonic rank/basis mismatch at d=%d cutoff=%d" % (d, c)
            fs = f_basis(d, c)
            if len(fs) != f_dim(d, c) or any(f_rank(v) != i for i, v in enumerate(fs)):
                return "fermionic rank/basis mismatch at d=%d cutoff=%d" % (d, c)
    return None


# ---------------------------------------------------------------------------------------
# states


class Pure:
    """pure state on ordered labelled modes; amps {occupation: amplitude}"""

    def __init__(self, modes, amps, fermionic=False):
        self.modes = tuple(int(m) for m in modes)
        self.amps = {tuple(int(x) for x in k): complex(v) for k, v in amps.items() if v != 0}
        self.fermionic = bool(fermionic)

    mixed = False

    def copy(self):
        return Pure(self.modes, dict(self.amps), self.fermionic)

    def norm2(self):
        return float(sum(abs(v) ** 2 for v in self.amps.values()))

    def scaled(self, c):
        return Pure(self.modes, {k: v * c for k, v in self.amps.items()}, self.fermionic)

    def max_total(self):
        return max((sum(k) for k, v in self.amps.items() if abs(v) > 1e-13), default=0)

    def to_vector(self, cutoff):
        d = len(self.modes)
        n = f_dim(d, cutoff) if self.fermionic else b_dim(d, cutoff)
        rank = f_rank if self.fermionic else b_rank
        vec = np.zeros(n, dtype=complex)
        lost = 0.0
        for occ, a in self.amps.items():
            if sum(occ) >= cutoff:
                lost += abs(a) ** 2
                continue
            vec[rank(occ)] = a
        return vec, lost

    @staticmethod
    def from_vector(vec, modes, cutoff, fermionic=False):
        d = len(modes)
        basis = f_basis(d, cutoff) if fermionic else b_basis(d, cutoff)
        vec = np.asarray(vec).reshape(-1)
        if len(basis) != vec.shape[0]:
            raise ValueError("vector of length %d on d=%d cutoff=%d (expected %d)" % (vec.shape[0], d, cutoff, len(basis)))
        return Pure(modes, {occ: complex(vec[i]) for i, occ in enumerate(basis) if vec[i] != 0}, fermionic)


class Mixed:
    """density operator on ordered labelled bosonic modes; rho {(ket, bra): element}"""

    mixed = True
    fermionic = False

    def __init__(self, modes, rho):
        self.modes = tuple(int(m) for m in modes)
        self.rho = {(tuple(int(x) for x in k), tuple(int(x) for x in b)): complex(v) for (k, b), v in rho.items() if v != 0}

    def copy(self):
        return Mixed(self.modes, dict(self.rho))

    def norm2(self):
        """trace"""
        return float(sum(v.real for (k, b), v in self.rho.items() if k == b))

    def scaled(self, c):
        return Mixed(self.modes, {k: v * c for k, v in self.rho.items()})

    def max_total(self):
        return max((max(sum(k), sum(b)) for (k, b), v in self.rho.items() if abs(v) > 1e-13), default=0)

    def to_matrix(self, cutoff):
        d = len(self.modes)
        n = b_dim(d, cutoff)
        mat = np.zeros((n, n), dtype=complex)
        lost = 0.0
        for (k, b), v in self.rho.items():
            if sum(k) >= cutoff or sum(b) >= cutoff:
                lost += abs(v)
                continue
            mat[b_rank(k), b_rank(b)] = v
        return mat, lost

    @staticmethod
    def from_pure(p):
        return Mixed(p.modes, {(k, b): v * np.conj(w) for k, v in p.amps.items() for b, w in p.amps.items()})

    @staticmethod
    def mixture(parts):
        """parts: [(probability, Pure)]"""
        rho = {}
        modes = parts[0][1].modes
        for w, p in parts:
            for key, v in Mixed.from_pure(p).rho.items():
                rho[key] = rho.get(key, 0.0) + w * v
        return Mixed(modes, rho)


# ---------------------------------------------------------------------------------------
# gates


def gate_matrix(cls, params):
    """documented matrices of the passive gates used by C03 (columns = input modes)"""
    if cls == "Phaseshifter":
        return np.array([[np.exp(1j * params["phi"])]])
    if cls == "Beamsplitter":
        theta, phi = params.get("theta", 0.0), params.get("phi", np.pi / 4)
        t, r = np.cos(theta), np.exp(1j * phi) * np.sin(theta)
        return np.array([[t, -np.conj(r)], [r, t]])
    if cls == "Interferometer":
        return np.asarray(params["matrix"], dtype=complex)
    raise KeyError(cls)


def _positions(state_modes, modes):
    return [state_modes.index(m) for m in modes]


def _boson_single_map(U, occ_in, cache):
    """|occ_in> on the k gate modes -> {occ_out: amplitude} for a_i^+ -> sum_j U[j,i] a_j^+"""
    key = occ_in
    if key in cache:
        return cache[key]
    k = len(occ_in)
    poly = {(0,) * k: 1.0 + 0j}  # polynomial in x_1..x_k: exponent tuple -> coefficient
    for i, n in enumerate(occ_in):
        for _ in range(n):
            new = {}
            for e, c in poly.items():
                for j in range(k):
                    u = U[j, i]
                    if u == 0:
                        continue
                    e2 = e[:j] + (e[j] + 1,) + e[j + 1:]
                    new[e2] = new.get(e2, 0.0) + c * u
            poly = new
    nin = 1.0
    for n in occ_in:
        nin *= math.factorial(n)
    out = {}
    for e, c in poly.items():
        nout = 1.0
        for m in e:
            nout *= math.factorial(m)
        out[e] = c * math.sqrt(nout / nin)
    cache[key] = out
    return out


def _fermion_string_map(U, gate_labels, string):
    """normal-ordered string of occupied labels -> {sorted string: amplitude} under
    f_{g_i}^+ -> sum_j U[j,i] f_{g_j}^+"""
    terms = {(): 1.0 + 0j}
    for lab in string:
        if lab in gate_labels:
            i = gate_labels.index(lab)
            options = [(U[j, i], gate_labels[j]) for j in range(len(gate_labels)) if U[j, i] != 0]
        else:
            options = [(1.0, lab)]
        new = {}
        for s, c in terms.items():
            for u, l2 in options:
                if l2 in s:
                    continue  # (f^+)^2 = 0
                s2 = s + (l2,)
                new[s2] = new.get(s2, 0.0) + c * u
        terms = new
    out = {}
    for s, c in terms.items():
        # sign of the permutation that sorts the string
        inv = sum(1 for a in range(len(s)) for b in range(a + 1, len(s)) if s[a] > s[b])
        key = tuple(sorted(s))
        out[key] = out.get(key, 0.0) + (-c if inv % 2 else c)
    return out


def _transform_amps(amps, state_modes, modes, U, fermionic, conj=False):
    U = np.asarray(U, dtype=complex)
    if conj:
        U = U.conj()
    pos = _positions(state_modes, modes)
    out = {}
    if not fermionic:
        cache = {}
        for occ, a in amps.items():
            sub = tuple(occ[p] for p in pos)
            for e, c in _boson_single_map(U, sub, cache).items():
                o2 = list(occ)
                for p, m in zip(pos, e):
                    o2[p] = m
                o2 = tuple(o2)
                out[o2] = out.get(o2, 0.0) + a * c
    else:
        gl = tuple(modes)
        for occ, a in amps.items():
            string = tuple(m for m, n in zip(state_modes, occ) if n)
            for s2, c in _fermion_string_map(U, gl, string).items():
                o2 = tuple(1 if m in s2 else 0 for m in state_modes)
                out[o2] = out.get(o2, 0.0) + a * c
    return out


def apply_linear(state, modes, U):
    """passive linear gate with matrix U on the ordered labelled modes"""
    if state.mixed:
        # rho -> T rho T^+ : transform the ket index, then the bra index with the conjugate matrix
        by_bra = {}
        for (k, b), v in state.rho.items():
            by_bra.setdefault(b, {})[k] = v
        step = {}
        for b, kets in by_bra.items():
            for k2, v in _transform_amps(kets, state.modes, modes, U, False).items():
                step[(k2, b)] = step.get((k2, b), 0.0) + v
        by_ket = {}
        for (k, b), v in step.items():
            by_ket.setdefault(k, {})[b] = v
        rho = {}
        for k, bras in by_ket.items():
            for b2, v in _transform_amps(bras, state.modes, modes, U, False, conj=True).items():
                rho[(k, b2)] = rho.get((k, b2), 0.0) + v
        return Mixed(state.modes, rho)
    return Pure(state.modes, _transform_amps(state.amps, state.modes, modes, U, state.fermionic), state.fermionic)


def apply_phase(state, modes, fn):
    """diagonal gate: amplitude of |n> multiplied by exp(i fn(n on the ordered modes))"""
    pos = _positions(state.modes, modes)
    if state.mixed:
        return Mixed(
            state.modes,
            {
                (k, b): v * np.exp(1j * (fn(tuple(k[p] for p in pos)) - fn(tuple(b[p] for p in pos))))
                for (k, b), v in state.rho.items()
            },
        )
    return Pure(
        state.modes, {occ: a * np.exp(1j * fn(tuple(occ[p] for p in pos))) for occ, a in state.amps.items()}, state.fermionic
    )


def apply_gate(state, cls, modes, params):
    if cls == "Kerr":
        return apply_phase(state, modes, lambda n: params["xi"] * n[0] ** 2)
    if cls == "CrossKerr":
        return apply_phase(state, modes, lambda n: params["xi"] * n[0] * n[1])
    if cls == "ControlledPhase":  # fermionic: exp(i phi n_i n_j)
        return apply_phase(state, modes, lambda n: params["phi"] * n[0] * n[1])
    return apply_linear(state, modes, gate_matrix(cls, params))


# ---------------------------------------------------------------------------------------
# measurement


def marginal_law(state, modes):
    """{outcome on the ordered labelled modes: probability}; NOT divided by the norm of the state, so the
    values sum to <psi|psi> (trace of rho)"""
    pos = _positions(state.modes, modes)
    law = {}
    if state.mixed:
        for (k, b), v in state.rho.items():
            if k == b:
                key = tuple(k[p] for p in pos)
                law[key] = law.get(key, 0.0) + v.real
    else:
        for occ, a in state.amps.items():
            key = tuple(occ[p] for p in pos)
            law[key] = law.get(key, 0.0) + abs(a) ** 2
    return law


def project(state, modes, outcome, normalise=True, fermion_sign="left"):
    """<outcome_M| state on the remaining labelled modes (order of the remaining modes kept)"""
    pos = _positions(state.modes, modes)
    outcome = tuple(int(x) for x in outcome)
    keep = [i for i in range(len(state.modes)) if i not in pos]
    rem_modes = tuple(state.modes[i] for i in keep)

    def matches(occ):
        return all(occ[p] == o for p, o in zip(pos, outcome))

    if state.mixed:
        rho = {}
        for (k, b), v in state.rho.items():
            if matches(k) and matches(b):
                rho[(tuple(k[i] for i in keep), tuple(b[i] for i in keep))] = v
        new = Mixed(rem_modes, rho)
        p = new.norm2()
        if normalise and p > 0:
            new = new.scaled(1.0 / p)
        return new, p
    amps = {}
    for occ, a in state.amps.items():
        if not matches(occ):
            continue
        sign = 1.0
        if state.fermionic and fermion_sign != "naive":
            measured_occ = [state.modes[p] for p, o in zip(pos, outcome) if o]
            rem_occ = [state.modes[i] for i in keep if occ[i]]
            hops = 0
            for m in measured_occ:
                if fermion_sign == "left":
                    hops += sum(1 for q in rem_occ if q < m)
                else:
                    hops += sum(1 for q in rem_occ if q > m)
            sign = -1.0 if hops % 2 else 1.0
        amps[tuple(occ[i] for i in keep)] = sign * a
    new = Pure(rem_modes, amps, state.fermionic)
    p = new.norm2()
    if normalise and p > 0:
        new = new.scaled(1.0 / math.sqrt(p))
    return new, p


def ordered_subsets(items):
    """every non-empty ordered subset (arrangement) of `items`"""
    out = []
    for k in range(1, len(items) + 1):
        out.extend(itertools.permutations(items, k))
    return out


def ordered_set_partitions(seq):
    """every way to write a mode set as successive measurements: every arrangement of the set, cut into
    consecutive non-empty blocks.  Returns (blocks, concatenated order); the blocks of one measurement are
    ordered tuples."""
    out = []
    n = len(seq)
    for perm in itertools.permutations(seq):
        for cuts in range(2 ** (n - 1)):
            blocks, cur = [], [perm[0]]
            for i in range(1, n):
                if cuts >> (i - 1) & 1:
                    blocks.append(tuple(cur))
                    cur = []
                cur.append(perm[i])
            blocks.append(tuple(cur))
            out.append((tuple(blocks), tuple(perm)))
    return out


# ---------------------------------------------------------------------------------------
# the tree of an adaptive program (shots=None semantics)

DROP = 1e-8  # the library drops outcomes with numpy.isclose(p, 0) (absolute 1e-8) from exact trees


class Leaf:
    __slots__ = ("outcome", "weight", "state", "history", "actual")

    def __init__(self, outcome, weight, state, history, actual=None):
        self.outcome = outcome
        self.weight = weight
        self.state = state  # normalised after measurements; post-selection leaves it un-normalised
        self.history = history  # tuple of per-measurement (reported) outcome tuples
        # tuple of per-measurement ACTUAL photon numbers (differs from `history` behind an imperfect detector)
        self.actual = history if actual is None else actual


def detector_law(P, actual):
    """classical detector channel of an imperfect photon-number measurement: P[n][m] = p(detected n | actual m),
    independently per measured mode.  -> {detected tuple: probability} (zero-probability tuples omitted)"""
    nrows = len(P)
    for m in actual:
        if m >= len(P[0]):
            raise ValueError("detector matrix has no column for the photon number %d" % m)
    law = {}
    for det in itertools.product(range(nrows), repeat=len(actual)):
        q = 1.0
        for n, m in zip(det, actual):
            q *= float(P[n][m])
        if q > 0.0:
            law[det] = q
    return law


def run_tree(state, ops, fermion_sign="left", on_measure=None, renormalise=True):
    """ops: list of dicts
         {"k": "gate", "cls", "modes", "params": fn(outcome)->dict, "cond": fn(outcome)->bool or None}
         {"k": "pnm", "modes"}     {"k": "ps", "modes", "counts"}
         {"k": "ipnm", "modes", "P"}   imperfect detector: one leaf per (actual, detected) pair with weight
             weight * p(actual) * P(detected | actual), reported outcome = detected, state = the normalised projection
             on the ACTUAL outcome (its own copy); the leaves of one detected outcome together are the mixture
             sum_actual P(detected|actual) p(actual) rho_actual / weight(detected)
    Returns the leaves.  A PNM multiplies the weight by the (un-normalised) marginal probability of the state it
    measures and leaves a NORMALISED state; a post-selection leaves the weight alone and the state un-normalised.
    Hence the weights are the joint probabilities of (all post-selections so far succeed, outcomes) and sum to the
    norm of the measured state.
    renormalise=False is NOT the specification: it is the model of a known defect (the branch state is left
    un-normalised by a measurement, so that the next measurement multiplies the probability of the history in once
    more), used only to tell that defect from other deviations."""
    leaves = [Leaf((), 1.0, state, (), ())]
    first_measurement = True
    for idx, op in enumerate(ops):
        new = []
        for lf in leaves:
            if op["k"] == "gate":
                if lf.state is None or (op.get("cond") is not None and not op["cond"](lf.outcome)):
                    new.append(lf)
                    continue
                new.append(Leaf(lf.outcome, lf.weight, apply_gate(lf.state, op["cls"], op["modes"], op["params"](lf.outcome)), lf.history, lf.actual))
            elif op["k"] == "ps":
                st, p = project(lf.state, op["modes"], op["counts"], normalise=False, fermion_sign=fermion_sign)
                new.append(Leaf(lf.outcome, lf.weight, st if st.modes else None, lf.history, lf.actual))
            elif op["k"] in ("pnm", "ipnm"):
                law = marginal_law(lf.state, op["modes"])
                if on_measure is not None:
                    on_measure(idx, lf, law)
                for outcome in sorted(law):
                    p = law[outcome]
                    if p <= 0.0:
                        continue
                    st, p2 = project(lf.state, op["modes"], outcome, normalise=renormalise, fermion_sign=fermion_sign)
                    if op["k"] == "pnm":
                        new.append(Leaf(lf.outcome + outcome, lf.weight * p, st if st.modes else None, lf.history + (outcome,), lf.actual + (outcome,)))
                        continue
                    for det, q in sorted(detector_law(op["P"], outcome).items()):
                        new.append(
                            Leaf(lf.outcome + det, lf.weight * p * q, st.copy() if st.modes else None, lf.history + (det,), lf.actual + (outcome,))
                        )
            else:
                raise KeyError(op["k"])
        leaves = new
    return leaves


# ---------------------------------------------------------------------------------------
# exact shot accounting (shots = N semantics): pure bookkeeping with Fractions


def account(n_shots, measurement_answers):
    """measurement_answers: for every measurement of the program, in program order, a function
    answer(history outcome tuple, budget) -> list of `budget` outcome tuples (what the sampler returned for the
    branch with that history).  Returns the ordered list of (outcome, count) of the final branches and the
    list of budgets requested, following the definition: every branch hands its own count to the sampler of the
    next measurement; outcomes are concatenated in program order; equal outcomes of one call are binned in order
    of first appearance."""
    branches = [((), n_shots)]
    budgets = []
    for answer in measurement_answers:
        new = []
        for outcome, count in branches:
            got = answer(outcome, count)
            budgets.append(count)
            if len(got) != count:
                raise ValueError("sampler returned %d outcomes for a budget of %d" % (len(got), count))
            binned = {}
            for s in got:
                s = tuple(s)
                binned[s] = binned.get(s, 0) + 1
            for s, c in binned.items():
                new.append((outcome + s, c))
        branches = new
    return branches, budgets


def frequencies(branches, n_shots):
    return [(o, Fraction(c, n_shots)) for o, c in branches]
