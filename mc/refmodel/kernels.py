"""Reference values of the matrix functions of property C04, straight from their
combinatorial definitions.  No piquasso imports.

Exact arithmetic.  A matrix is given as ``(num, den)``: ``num`` is a list of rows of
Gaussian integers ``(re, im)`` (Python ints) and ``den`` a positive int, the common
denominator; entry = (re + i*im)/den.  All sums are done on Gaussian *integers*
(pairs of Python ints, class-free, so that nothing can round) and divided by
``den**degree`` at the very end; the conversion to a Python ``complex`` is the correctly
rounded ``Fraction -> float`` of the real and imaginary parts.

Everything here is deliberately different from what the library does:

* permanent with multiplicities: sum over contingency tables (row-by-row distribution
  of the row multiplicity over the columns, multinomial weights) instead of the
  Glynn/BBFG formula on a Gray code; a second, independent route (explicit expansion of
  the matrix + Ryser's inclusion-exclusion) is used as a self-test of the first;
* hafnian / loop hafnian: recursive sum over (loop-)perfect matchings of the expanded
  matrix instead of power traces;
* torontonian / loop torontonian: the signed sum over mode subsets with a fresh
  determinant / linear solve per subset instead of the recursive Cholesky reuse (exact
  rational determinant and quadratic form, one float sqrt / exp per term);
* Pfaffian: signed sum over perfect matchings (expansion along the first row) instead of
  Parlett-Reid elimination.
"""

import itertools
import math
from fractions import Fraction

# ---------------------------------------------------------------------------------------
# Gaussian integers as pairs


def g_mul(a, b):
    return (a[0] * b[0] - a[1] * b[1], a[0] * b[1] + a[1] * b[0])


def g_add(a, b):
    return (a[0] + b[0], a[1] + b[1])


def g_scale(a, k):
    return (a[0] * k, a[1] * k)


G_ZERO = (0, 0)
G_ONE = (1, 0)


def g_pow(a, n):
    r = G_ONE
    for _ in range(n):
        r = g_mul(r, a)
    return r


def g_to_complex(g, den_pow=1):
    """Correctly rounded conversion of g/den_pow to a Python complex."""
    if den_pow == 1:
        return complex(_int_to_float(g[0]), _int_to_float(g[1]))
    return complex(float(Fraction(g[0], den_pow)), float(Fraction(g[1], den_pow)))


def _int_to_float(n):
    try:
        return float(n)
    except OverflowError:
        return math.inf if n > 0 else -math.inf


def matrix_to_complex(mat):
    num, den = mat
    return [[complex(Fraction(e[0], den), Fraction(e[1], den)) for e in row] for row in num]


def matrix_abs_float(mat):
    num, den = mat
    return [[math.hypot(e[0], e[1]) / den for e in row] for row in num]


# ---------------------------------------------------------------------------------------
# permanent with row and column multiplicities: contingency tables


def compositions_bounded(total, bounds):
    """All tuples t with sum(t) == total and 0 <= t[j] <= bounds[j] (lexicographic)."""
    n = len(bounds)
    if n == 0:
        if total == 0:
            yield ()
        return
    suffix = [0] * (n + 1)
    for j in range(n - 1, -1, -1):
        suffix[j] = suffix[j + 1] + bounds[j]

    def rec(j, left):
        if j == n - 1:
            if left <= bounds[j]:
                yield (left,)
            return
        lo = max(0, left - suffix[j + 1])
        hi = min(bounds[j], left)
        for x in range(lo, hi + 1):
            for rest in rec(j + 1, left - x):
                yield (x,) + rest

    yield from rec(0, total)


def multinomial(parts):
    n = 0
    r = 1
    for p in parts:
        n += p
        r *= math.comb(n, p)
    return r


class PermanentTables:
    """perm(A; rows, cols) = sum over contingency tables T (row sums = rows, column sums =
    cols) of  prod_i rows_i! * prod_j cols_j! / prod_ij T_ij! * prod_ij A_ij**T_ij.

    Organised row by row:  G(i, c) = sum over distributions t of rows_i among the columns
    (t <= c) of multinomial(rows_i; t) * prod_j A_ij**t_j * G(i+1, c - t),  G(k, 0) = 1,
    perm = prod_j cols_j! * G(0, cols).  G is memoised on (i, rows[i:], c) for one fixed
    matrix, so that an exhaustive sweep over (rows, cols) shares the sub-sums.
    Works on Gaussian integers (exact) -- see PermanentTablesFloat for the |A| scale."""

    def __init__(self, num):
        self.num = [[(int(e[0]), int(e[1])) for e in row] for row in num]
        self.k = len(self.num)
        self.l = len(self.num[0]) if self.k else 0
        self._pow = {}
        self._memo = {}

    def _power(self, i, j, t):
        key = (i, j, t)
        p = self._pow.get(key)
        if p is None:
            p = G_ONE if t == 0 else g_mul(self._power(i, j, t - 1), self.num[i][j])
            self._pow[key] = p
        return p

    def _G(self, i, rows_suffix, c):
        if i == self.k:
            return G_ONE  # c is all zero here because the totals agree
        key = (i, rows_suffix, c)
        v = self._memo.get(key)
        if v is not None:
            return v
        acc = G_ZERO
        r = rows_suffix[0]
        for t in compositions_bounded(r, c):
            term = (multinomial(t), 0)
            zero = False
            for j, tj in enumerate(t):
                if tj:
                    p = self._power(i, j, tj)
                    if p == G_ZERO:
                        zero = True
                        break
                    term = g_mul(term, p)
            if zero:
                continue
            rest = self._G(i + 1, rows_suffix[1:], tuple(cj - tj for cj, tj in zip(c, t)))
            if rest == G_ZERO:
                continue
            acc = g_add(acc, g_mul(term, rest))
        self._memo[key] = acc
        return acc

    def value(self, rows, cols):
        """Exact Gaussian integer perm(num; rows, cols) (the caller divides by den**sum)."""
        rows = tuple(int(x) for x in rows)
        cols = tuple(int(x) for x in cols)
        if sum(rows) != sum(cols):
            raise ValueError("totals differ")
        if len(rows) != self.k or (self.k and len(cols) != self.l):
            raise ValueError("shape mismatch")
        if sum(rows) == 0:
            return G_ONE
        g = self._G(0, rows, cols)
        f = 1
        for c in cols:
            f *= math.factorial(c)
        return g_scale(g, f)

    def clear(self):
        self._memo.clear()


class PermanentTablesFloat:
    """Same recursion on a non-negative float matrix (used for perm(|A|), the natural
    scale of the rounding error: all terms are >= 0, so there is no cancellation)."""

    def __init__(self, absmat):
        self.a = [[float(x) for x in row] for row in absmat]
        self.k = len(self.a)
        self.l = len(self.a[0]) if self.k else 0
        self._memo = {}

    def _G(self, i, rows_suffix, c):
        if i == self.k:
            return 1.0
        key = (i, rows_suffix, c)
        v = self._memo.get(key)
        if v is not None:
            return v
        acc = 0.0
        r = rows_suffix[0]
        row = self.a[i]
        for t in compositions_bounded(r, c):
            term = float(multinomial(t))
            for j, tj in enumerate(t):
                if tj:
                    term *= row[j] ** tj
            if term == 0.0:
                continue
            acc += term * self._G(i + 1, rows_suffix[1:], tuple(cj - tj for cj, tj in zip(c, t)))
        self._memo[key] = acc
        return acc

    def value(self, rows, cols):
        rows = tuple(int(x) for x in rows)
        cols = tuple(int(x) for x in cols)
        if sum(rows) == 0:
            return 1.0
        g = self._G(0, rows, cols)
        for c in cols:
            g *= float(math.factorial(c))
        return g

    def clear(self):
        self._memo.clear()


def permanent_exact(mat, rows, cols, tables=None):
    """perm of the Gaussian-rational matrix ``mat`` with multiplicities, as a pair of
    Fractions (re, im)."""
    num, den = mat
    t = tables or PermanentTables(num)
    g = t.value(rows, cols)
    d = den ** sum(rows)
    return (Fraction(g[0], d), Fraction(g[1], d))


def expand(num, rows, cols):
    """The explicitly repeated matrix."""
    ri = [i for i, r in enumerate(rows) for _ in range(r)]
    ci = [j for j, c in enumerate(cols) for _ in range(c)]
    return [[num[i][j] for j in ci] for i in ri]


def permanent_ryser(num):
    """Ryser's formula on a square Gaussian-integer matrix (independent second route)."""
    n = len(num)
    if n == 0:
        return G_ONE
    total = G_ZERO
    for mask in range(1, 1 << n):
        colsel = [j for j in range(n) if mask >> j & 1]
        prod = G_ONE
        for i in range(n):
            s = G_ZERO
            for j in colsel:
                s = g_add(s, num[i][j])
            prod = g_mul(prod, s)
            if prod == G_ZERO:
                break
        sign = -1 if (n - len(colsel)) % 2 else 1
        total = g_add(total, g_scale(prod, sign))
    return total


def permanent_by_permutations(num):
    n = len(num)
    total = G_ZERO
    for p in itertools.permutations(range(n)):
        prod = G_ONE
        for i in range(n):
            prod = g_mul(prod, num[i][p[i]])
        total = g_add(total, prod)
    return total


def permanent_laplace_exact(mat, rows, cols, tables=None):
    """The Laplace-expansion variant as the library's callers use it
    (passive/sampling.py:_calculate_pmf): sum(cols) == sum(rows) + 1 and entry l of the
    result is perm(A; rows, cols - e_l); entries with cols[l] == 0 are undefined (None)."""
    num, den = mat
    t = tables or PermanentTables(num)
    if sum(cols) != sum(rows) + 1:
        raise ValueError("Laplace variant needs sum(cols) == sum(rows) + 1")
    d = den ** sum(rows)
    out = []
    for l, c in enumerate(cols):
        if c == 0:
            out.append(None)
            continue
        cl = list(cols)
        cl[l] -= 1
        g = t.value(rows, cl)
        out.append((Fraction(g[0], d), Fraction(g[1], d)))
    return out


def glynn_scale(cmat, rows, cols):
    """sum over all sign patterns delta in {+1,-1}^n of |prod_j (sum_i delta_i a_ij)^{c_j}|
    / 2^n (patterns grouped by the number k_i of minus signs inside each repeated row, with
    weight prod_i C(r_i, k_i)) -- the sum of the absolute values of the addends of the
    Glynn/BBFG formula, which is what the documentation says is implemented; eps * n * this
    is the a-priori rounding error scale of that formula.  ``cmat``: complex floats.
    Floats (it is a scale, not a value)."""
    n = sum(rows)
    if n == 0:
        return 1.0
    total = 0.0
    for ks in itertools.product(*[range(r + 1) for r in rows]):
        w = 1.0
        for r, k in zip(rows, ks):
            w *= math.comb(r, k)
        p = 1.0
        for j, c in enumerate(cols):
            if c:
                s = 0.0
                for i, (r, k) in enumerate(zip(rows, ks)):
                    s += (r - 2 * k) * cmat[i][j]
                p *= abs(s) ** c
        total += w * p
    return total / 2.0**n


# ---------------------------------------------------------------------------------------
# hafnian and loop hafnian with reductions: (loop-)perfect matchings of the expanded matrix


class Matchings:
    """haf / lhaf of the matrix expanded by ``occ``: a vertex of the expanded graph is a
    copy of an original index; the weight of an edge between copies of i and j is A[i][j]
    (also for i == j: two different copies of the same index), the weight of a loop on a
    copy of i is diag[i].  Recursion on the first remaining vertex; memoised on the multiset
    of remaining labels (copies of one index are interchangeable)."""

    def __init__(self, num, diag=None):
        self.num = [[(int(e[0]), int(e[1])) for e in row] for row in num]
        self.diag = None if diag is None else [(int(e[0]), int(e[1])) for e in diag]
        self._memo = {}

    def _rec(self, labels):
        if not labels:
            return G_ONE
        v = self._memo.get(labels)
        if v is not None:
            return v
        first = labels[0]
        rest = labels[1:]
        acc = G_ZERO
        if self.diag is not None:
            d = self.diag[first]
            if d != G_ZERO:
                acc = g_add(acc, g_mul(d, self._rec(rest)))
        elif len(labels) % 2:
            self._memo[labels] = G_ZERO
            return G_ZERO
        seen = {}
        for u in rest:
            seen[u] = seen.get(u, 0) + 1
        for u, mult in seen.items():
            w = self.num[first][u]
            if w == G_ZERO:
                continue
            idx = rest.index(u)
            sub = self._rec(rest[:idx] + rest[idx + 1 :])
            acc = g_add(acc, g_scale(g_mul(w, sub), mult))
        self._memo[labels] = acc
        return acc

    def value(self, occ):
        labels = tuple(i for i, n in enumerate(occ) for _ in range(int(n)))
        return self._rec(labels)


def hafnian_exact(mat, occ):
    """(re, im) Fractions; degree of homogeneity is sum(occ)/2 for the plain hafnian."""
    num, den = mat
    n = sum(int(x) for x in occ)
    if n % 2:
        return (Fraction(0), Fraction(0))
    g = Matchings(num).value(occ)
    d = den ** (n // 2)
    return (Fraction(g[0], d), Fraction(g[1], d))


def loop_hafnian_exact(mat, diag, occ):
    """lhaf(filldiag(A, diag) reduced by occ) as (re, im) Fractions.  ``mat`` = (num, den),
    ``diag`` = (list of Gaussian ints, den).  The loop hafnian is not homogeneous in one
    denominator, so the recursion runs on Fractions directly."""
    num, den = mat
    dnum, dden = diag
    m = _FracMatchings(
        [[_FG(Fraction(e[0], den), Fraction(e[1], den)) for e in row] for row in num],
        [_FG(Fraction(e[0], dden), Fraction(e[1], dden)) for e in dnum],
    )
    v = m.value(occ)
    return (Fraction(v[0]), Fraction(v[1]))


def _FG(re, im):
    return (re, im)


class _FracMatchings(Matchings):
    def __init__(self, a, diag):
        self.num = a
        self.diag = diag
        self._memo = {}


def matchings_abs_float(absmat, absdiag, occ):
    """Sum over (loop-)matchings of the products of absolute values: natural scale."""

    memo = {}

    def rec(labels):
        if not labels:
            return 1.0
        v = memo.get(labels)
        if v is not None:
            return v
        first, rest = labels[0], labels[1:]
        acc = 0.0
        if absdiag is not None:
            acc += absdiag[first] * rec(rest)
        elif len(labels) % 2:
            memo[labels] = 0.0
            return 0.0
        seen = {}
        for u in rest:
            seen[u] = seen.get(u, 0) + 1
        for u, mult in seen.items():
            w = absmat[first][u]
            if w == 0.0:
                continue
            idx = rest.index(u)
            acc += mult * w * rec(rest[:idx] + rest[idx + 1 :])
        memo[labels] = acc
        return acc

    labels = tuple(i for i, n in enumerate(occ) for _ in range(int(n)))
    return rec(labels)


def hafnian_by_pairings(num):
    """Plain enumeration of all perfect matchings of an explicit (already expanded) matrix:
    second route for the self-test."""
    n = len(num)
    if n % 2:
        return G_ZERO

    def rec(vs):
        if not vs:
            return G_ONE
        a = vs[0]
        acc = G_ZERO
        for k in range(1, len(vs)):
            b = vs[k]
            acc = g_add(acc, g_mul(num[a][b], rec(vs[1:k] + vs[k + 1 :])))
        return acc

    return rec(tuple(range(n)))


# ---------------------------------------------------------------------------------------
# Pfaffian: signed perfect matchings (expansion along the first row), exact Fractions


def pfaffian_exact(rows):
    """rows: square antisymmetric matrix of Fractions / ints.  pf(A) = sum_j (-1)^j a_{0j}
    pf(A without rows/cols 0 and j)  (j = 1..n-1, sign (-1)^(j-1))."""
    n = len(rows)
    if n == 0:
        return Fraction(1)
    if n % 2:
        return Fraction(0)
    memo = {}

    def rec(vs):
        if not vs:
            return Fraction(1)
        v = memo.get(vs)
        if v is not None:
            return v
        a = vs[0]
        acc = Fraction(0)
        for k in range(1, len(vs)):
            w = rows[a][vs[k]]
            if w == 0:
                continue
            sub = rec(vs[1:k] + vs[k + 1 :])
            acc += (-1) ** (k - 1) * Fraction(w) * sub
        memo[vs] = acc
        return acc

    return rec(tuple(range(n)))


def pfaffian_abs_scale(rows):
    """Sum over matchings of |products| (float)."""
    n = len(rows)
    if n == 0:
        return 1.0
    if n % 2:
        return 0.0
    memo = {}

    def rec(vs):
        if not vs:
            return 1.0
        v = memo.get(vs)
        if v is not None:
            return v
        a = vs[0]
        acc = 0.0
        for k in range(1, len(vs)):
            acc += abs(float(rows[a][vs[k]])) * rec(vs[1:k] + vs[k + 1 :])
        memo[vs] = acc
        return acc

    return rec(tuple(range(n)))


# ---------------------------------------------------------------------------------------
# torontonian / loop torontonian (xpxp ordering: mode m <-> indices 2m, 2m+1)


def det_exact(rows):
    """Fraction determinant by fraction-free Gaussian elimination with row swaps."""
    a = [[Fraction(x) for x in r] for r in rows]
    n = len(a)
    det = Fraction(1)
    for c in range(n):
        p = next((r for r in range(c, n) if a[r][c] != 0), None)
        if p is None:
            return Fraction(0)
        if p != c:
            a[c], a[p] = a[p], a[c]
            det = -det
        det *= a[c][c]
        inv = 1 / a[c][c]
        for r in range(c + 1, n):
            f = a[r][c] * inv
            if f:
                for k in range(c, n):
                    a[r][k] -= f * a[c][k]
    return det


def solve_exact(rows, rhs):
    """x with rows @ x = rhs (Fractions, Gauss-Jordan)."""
    n = len(rows)
    a = [[Fraction(x) for x in r] + [Fraction(b)] for r, b in zip(rows, rhs)]
    for c in range(n):
        p = next(r for r in range(c, n) if a[r][c] != 0)
        a[c], a[p] = a[p], a[c]
        inv = 1 / a[c][c]
        a[c] = [x * inv for x in a[c]]
        for r in range(n):
            if r != c and a[r][c]:
                f = a[r][c]
                a[r] = [x - f * y for x, y in zip(a[r], a[c])]
    return [a[i][n] for i in range(n)]


def torontonian_terms(A, y=None):
    """The signed terms of  tor(A) = sum_{Z subset of modes} (-1)^{n-|Z|} / sqrt(det(1-A_Z))
    and, with a displacement vector y,
    ltor(A, y) = sum_Z (-1)^{n-|Z|} exp(y_Z^T (1-A_Z)^{-1} y_Z / 2) / sqrt(det(1-A_Z)).
    A: 2n x 2n list of Fractions (exactly the numbers handed to the kernel), xpxp ordering.
    Determinant and quadratic form are exact; sqrt / exp in floats.  Returns the list of
    signed float terms (the empty set contributes (-1)^n)."""
    dim = len(A)
    n = dim // 2
    terms = []
    for k in range(n + 1):
        for Z in itertools.combinations(range(n), k):
            sign = -1.0 if (n - k) % 2 else 1.0
            if k == 0:
                terms.append(sign)
                continue
            idx = [i for m in Z for i in (2 * m, 2 * m + 1)]
            M = [[(1 if i == j else 0) - Fraction(A[i][j]) for j in idx] for i in idx]
            d = det_exact(M)
            if d <= 0:
                raise ValueError("1 - A_Z is not positive definite for Z=%s (det=%s)" % (Z, d))
            val = 1.0 / math.sqrt(d)
            if y is not None:
                yz = [Fraction(y[i]) for i in idx]
                x = solve_exact(M, yz)
                q = sum(a * b for a, b in zip(yz, x))
                val *= math.exp(float(q) / 2.0)
            terms.append(sign * val)
    return terms


def torontonian_ref(A, y=None):
    """(value, scale): scale = sum of |terms| (the alternating sum cancels)."""
    t = torontonian_terms(A, y)
    return math.fsum(t), math.fsum(abs(x) for x in t)


# ---------------------------------------------------------------------------------------
# self-test of the reference routes against each other (called once per run by the check)


def self_test():
    """Contingency tables == expansion + Ryser == permutations; recursive matchings ==
    plain pairings; Pfaffian^2 == det.  Raises AssertionError on disagreement."""
    mats = [
        [[(1, 0), (0, 1)], [(2, -1), (-3, 2)]],
        [[(1, 1), (0, 0), (2, 0)], [(0, -1), (3, 0), (1, 1)], [(-2, 0), (1, 0), (0, 2)]],
        [[(1, 0), (2, 1), (0, 3)], [(0, 0), (-1, 1), (4, 0)]],  # 2 x 3
    ]
    n_checked = 0
    for num in mats:
        k, l = len(num), len(num[0])
        tab = PermanentTables(num)
        for total in range(0, 6):
            for rows in compositions_bounded(total, (total,) * k):
                for cols in compositions_bounded(total, (total,) * l):
                    e = expand(num, rows, cols)
                    a = tab.value(rows, cols)
                    b = permanent_ryser(e)
                    assert a == b, ("tables vs ryser", num, rows, cols, a, b)
                    if total <= 4:
                        c = permanent_by_permutations(e)
                        assert a == c, ("tables vs permutations", num, rows, cols, a, c)
                    n_checked += 1
    sym = [[(1, 1), (2, 0), (0, -1)], [(2, 0), (0, 3), (1, 1)], [(0, -1), (1, 1), (-2, 0)]]
    m = Matchings(sym)
    for total in range(0, 7):
        for occ in compositions_bounded(total, (total,) * 3):
            e = expand(sym, occ, occ)
            assert m.value(occ) == hafnian_by_pairings(e), ("matchings vs pairings", occ)
            n_checked += 1
    # loop hafnian: loops through an explicit (n+?)-construction: lhaf(A, d) on 2 vertices
    lm = Matchings(sym, diag=[(1, 0), (0, 2), (3, -1)])
    # lhaf on vertices (0,1): a01 + d0*d1
    v = lm.value((1, 1, 0))
    assert v == g_add(sym[0][1], g_mul((1, 0), (0, 2))), v
    # lhaf on (0,0): a00 + d0^2
    v = lm.value((2, 0, 0))
    assert v == g_add(sym[0][0], (1, 0)), v
    # lhaf on (0,0,1): 2*a00... = a00*d1 + 2*a01*d0 + d0*d0*d1
    v = lm.value((2, 1, 0))
    exp = g_add(g_add(g_mul(sym[0][0], (0, 2)), g_scale(g_mul(sym[0][1], (1, 0)), 2)), g_mul(g_mul((1, 0), (1, 0)), (0, 2)))
    assert v == exp, (v, exp)
    anti = [[0, 3, -2, 5], [-3, 0, 7, 1], [2, -7, 0, -4], [-5, -1, 4, 0]]
    pf = pfaffian_exact(anti)
    assert pf * pf == det_exact(anti), (pf, det_exact(anti))
    assert pf == 3 * -4 - (-2) * 1 + 5 * 7
    # torontonian of a one-mode matrix: 1/sqrt(det(1-A)) - 1
    A = [[Fraction(1, 4), Fraction(1, 8)], [Fraction(1, 8), Fraction(1, 2)]]
    val, _ = torontonian_ref(A)
    d = (1 - Fraction(1, 4)) * (1 - Fraction(1, 2)) - Fraction(1, 64)
    assert abs(val - (1 / math.sqrt(d) - 1)) < 1e-15
    return n_checked
