"""Boring big-integer reference for the truncated Fock basis (bosonic and fermionic).
Imports nothing from piquasso."""

import itertools
from math import comb


def dim(d, cutoff):
    """number of occupation vectors on d modes with total < cutoff"""
    if cutoff <= 0:
        return 0
    if d == 0:
        return 1
    return comb(d + cutoff - 1, d)


def sector_dim(d, n):
    if d == 0:
        return 1 if n == 0 else 0
    return comb(d + n - 1, n)


def sector(d, n):
    """all compositions of n into d parts, anti-lexicographic (descending lex) order"""
    if d == 0:
        return [()] if n == 0 else []
    out = []

    def rec(prefix, rem, left):
        if left == 1:
            out.append(tuple(prefix) + (rem,))
            return
        for x in range(rem, -1, -1):
            rec(prefix + [x], rem - x, left - 1)

    rec([], n, d)
    return out


def basis(d, cutoff):
    out = []
    for n in range(cutoff):
        out.extend(sector(d, n))
    return out


def successor(v):
    """next vector in (total ascending, anti-lex within sector) order"""
    v = list(v)
    d = len(v)
    n = sum(v)
    if d == 0:
        return None
    # find rightmost position i < d-1 with v[i] > 0: move one particle right, and
    # collect everything right of i+1 into i+1
    for i in range(d - 2, -1, -1):
        if v[i] > 0:
            tail = sum(v[i + 1:])
            v[i] -= 1
            for j in range(i + 1, d):
                v[j] = 0
            v[i + 1] = tail + 1
            return tuple(v)
    # last of its sector: (0,..,0,n) -> (n+1,0,..,0)
    return tuple([n + 1] + [0] * (d - 1))


def subspace_rank(v):
    """position of v inside its n-particle sector (anti-lex order)"""
    d = len(v)
    rem = sum(v)
    r = 0
    for i in range(d - 1):
        # vectors with same prefix and a larger entry at i come first
        left = d - i - 1
        for x in range(v[i] + 1, rem + 1):
            r += sector_dim(left, rem - x)
        rem -= v[i]
    return r


def rank(v):
    return dim(len(v), sum(v)) + subspace_rank(v)


# fermionic: occupations in {0,1}; order: particle number, then first-quantised
# (sorted tuple of occupied modes) lexicographic ascending.


def f_sector(d, n):
    return [tuple(1 if i in c else 0 for i in range(d)) for c in itertools.combinations(range(d), n)]


def f_basis(d, cutoff):
    out = []
    for n in range(min(cutoff, d + 1)):
        out.extend(f_sector(d, n))
    return out


def f_dim(d, cutoff):
    return sum(comb(d, k) for k in range(min(cutoff, d + 1)))


def f_subspace_rank(v):
    d = len(v)
    occ = [i for i, x in enumerate(v) if x]
    n = len(occ)
    r = 0
    prev = -1
    for j, m in enumerate(occ):
        for x in range(prev + 1, m):
            r += comb(d - x - 1, n - j - 1)
        prev = m
    return r


def f_rank(v):
    return f_dim(len(v), sum(v)) + f_subspace_rank(v)
