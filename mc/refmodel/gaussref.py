"""Boring symplectic reference model for Gaussian states and linear gates.
Imports nothing from piquasso.

Conventions (the ones the library documents; the checks C07/C14 verify that the library
follows them):

* ladder vector           xi = (a_1..a_d, a_1^+..a_d^+)
* xxpp quadrature vector  Y  = (x_1..x_d, p_1..p_d),  x = sqrt(hbar/2)(a + a^+),
                          p = -i sqrt(hbar/2)(a - a^+)     =>   xi = W Y / sqrt(hbar)
* xpxp quadrature vector  R  = (x_1, p_1, .., x_d, p_d)
* covariance              sigma_ij = <Y_i Y_j + Y_j Y_i> - 2<Y_i><Y_j>   (vacuum = hbar * I)
* complex covariance      sigma_c = W sigma_xxpp W^+ / hbar ;  mu_c = W mu_xxpp / sqrt(hbar)
* a linear gate           U^+ xi U = S_c xi + beta,  S_c = [[P, A], [conj A, conj P]]
                          acts on a state by  mu_c -> S_c mu_c + beta, sigma_c -> S_c sigma_c S_c^+
* ladder moments          m_i = <a_i>, C_ij = <a_i^+ a_j> - conj(m_i) m_j,
                          G_ij = <a_i a_j> - m_i m_j
                          sigma_c = 2 [[conj C, G], [conj G, C]] + I

"Dimensionless" below means mean / sqrt(hbar) and sigma / hbar (vacuum covariance = I);
V = sigma / (2 hbar) is the textbook covariance with vacuum = I/2.
"""

import itertools
import math

import numpy as np

# ---------------------------------------------------------------------------------------
# orderings, W, symplectic forms


def xxpp_to_xpxp(d):
    """index array p with v_xpxp = v_xxpp[p]"""
    p = np.empty(2 * d, dtype=int)
    for i in range(d):
        p[2 * i] = i
        p[2 * i + 1] = d + i
    return p


def xpxp_to_xxpp(d):
    """index array q with v_xxpp = v_xpxp[q]"""
    q = np.empty(2 * d, dtype=int)
    for i in range(d):
        q[i] = 2 * i
        q[d + i] = 2 * i + 1
    return q


def perm_matrix_xxpp_to_xpxp(d):
    """T with v_xpxp = T v_xxpp and M_xpxp = T M_xxpp T^T"""
    T = np.zeros((2 * d, 2 * d))
    for row, col in enumerate(xxpp_to_xpxp(d)):
        T[row, col] = 1.0
    return T


def vec_to_xpxp(v):
    v = np.asarray(v)
    return v[xxpp_to_xpxp(len(v) // 2)]


def vec_to_xxpp(v):
    v = np.asarray(v)
    return v[xpxp_to_xxpp(len(v) // 2)]


def mat_to_xpxp(M):
    M = np.asarray(M)
    p = xxpp_to_xpxp(len(M) // 2)
    return M[np.ix_(p, p)]


def mat_to_xxpp(M):
    M = np.asarray(M)
    q = xpxp_to_xxpp(len(M) // 2)
    return M[np.ix_(q, q)]


def W(d):
    I = np.identity(d)
    return np.block([[I, 1j * I], [I, -1j * I]]) / math.sqrt(2)


def omega_xxpp(d):
    I = np.identity(d)
    Z = np.zeros((d, d))
    return np.block([[Z, I], [-I, Z]])


def omega_xpxp(d):
    return mat_to_xpxp(omega_xxpp(d))


def K(d):
    """the symplectic form in the ladder basis: [xi_i, xi_j^+] = K_ij"""
    return np.diag(np.concatenate([np.ones(d), -np.ones(d)]))


# ---------------------------------------------------------------------------------------
# linear gates


def embed(P, A, modes, d):
    """k-mode blocks acting on the ORDERED mode tuple `modes` -> d-mode blocks"""
    P = np.asarray(P, dtype=complex)
    k = len(modes)
    A = np.zeros((k, k), dtype=complex) if A is None else np.asarray(A, dtype=complex)
    if P.shape != (k, k) or A.shape != (k, k) or len(set(modes)) != k:
        raise ValueError("embed: shapes %s %s modes %s" % (P.shape, A.shape, modes))
    Pf = np.identity(d, dtype=complex)
    Af = np.zeros((d, d), dtype=complex)
    for i, mi in enumerate(modes):
        for j, mj in enumerate(modes):
            Pf[mi, mj] = P[i, j]
            Af[mi, mj] = A[i, j]
    return Pf, Af


def complex_S(P, A=None):
    P = np.asarray(P, dtype=complex)
    A = np.zeros_like(P) if A is None else np.asarray(A, dtype=complex)
    return np.block([[P, A], [A.conj(), P.conj()]])


def complex_symplectic_residual(Sc):
    d = len(Sc) // 2
    return float(np.max(np.abs(Sc @ K(d) @ Sc.conj().T - K(d))))


def real_S_xxpp(P, A=None):
    """real symplectic matrix acting on Y = (x.., p..): Y -> S Y (hbar drops out)"""
    Sc = complex_S(P, A)
    d = len(Sc) // 2
    Wd = W(d)
    S = Wd.conj().T @ Sc @ Wd
    if np.max(np.abs(S.imag)) > 1e-9 * max(1.0, np.max(np.abs(S.real))):
        raise ValueError("real_S_xxpp: transformation is not real in the quadrature basis")
    return S.real


def real_symplectic_residual(S):
    d = len(S) // 2
    Om = omega_xxpp(d)
    return float(np.max(np.abs(S @ Om @ S.T - Om)))


def congruence(mean, cov, S, shift=None):
    mean = S @ np.asarray(mean, dtype=float)
    if shift is not None:
        mean = mean + shift
    return mean, S @ np.asarray(cov, dtype=float) @ S.T


def displacement_shift_xxpp(alpha, mode, d, hbar):
    """documented: x_j -> x_j + sqrt(2 hbar) Re alpha, p_j -> p_j + sqrt(2 hbar) Im alpha"""
    s = np.zeros(2 * d)
    s[mode] = math.sqrt(2 * hbar) * complex(alpha).real
    s[d + mode] = math.sqrt(2 * hbar) * complex(alpha).imag
    return s


def beamsplitter_U(theta, phi):
    t = math.cos(theta)
    r = complex(math.cos(phi), math.sin(phi)) * math.sin(theta)
    return np.array([[t, -r.conjugate()], [r, t]], dtype=complex)


def phaseshifter_U(phi):
    return np.array([[complex(math.cos(phi), math.sin(phi))]])


def documented_blocks(name, **p):
    """(P, A) of the documented S_(c) of each built-in linear gate (A is None for passive
    gates), written from the formulae in the class docstrings."""
    e = lambda x: complex(math.cos(x), math.sin(x))  # noqa: E731
    if name == "Phaseshifter":
        return phaseshifter_U(p["phi"]), None
    if name == "Fourier":
        return np.array([[1j]]), None
    if name == "Beamsplitter":
        return beamsplitter_U(p["theta"], p["phi"]), None
    if name == "Beamsplitter5050":
        return np.array([[1, -1], [1, 1]], dtype=complex) / math.sqrt(2), None
    if name == "MachZehnder":
        # documented as the product B(pi/4, pi/2) (R(int) (+) 1) B(pi/4, pi/2) (R(ext) (+) 1);
        # operator products and ladder-transformation matrices multiply in the same order
        B = beamsplitter_U(math.pi / 4, math.pi / 2)
        Ri = np.diag([e(p["int_"]), 1.0])
        Re = np.diag([e(p["ext"]), 1.0])
        return B @ Ri @ B @ Re, None
    if name == "Interferometer":
        return np.asarray(p["matrix"], dtype=complex), None
    if name == "GaussianTransform":
        return np.asarray(p["passive"], dtype=complex), np.asarray(p["active"], dtype=complex)
    if name == "Squeezing":
        r, phi = p["r"], p.get("phi", 0.0)
        return np.array([[math.cosh(r)]], dtype=complex), np.array([[-e(phi) * math.sinh(r)]])
    if name == "QuadraticPhase":
        s = p["s"]
        return np.array([[1 + 0.5j * s]]), np.array([[0.5j * s]])
    if name == "Squeezing2":
        r, phi = p["r"], p.get("phi", 0.0)
        c, s = math.cosh(r), e(phi) * math.sinh(r)
        return np.array([[c, 0], [0, c]], dtype=complex), np.array([[0, s], [s, 0]], dtype=complex)
    if name == "ControlledX":
        h = p["s"] / 2
        return np.array([[1, -h], [h, 1]], dtype=complex), np.array([[0, h], [h, 0]], dtype=complex)
    if name == "ControlledZ":
        h = 1j * p["s"] / 2
        return np.array([[1, h], [h, 1]], dtype=complex), np.array([[0, h], [h, 0]], dtype=complex)
    raise KeyError(name)


def machzehnder_docstring_matrix(int_, ext):
    """the 2x2 passive block exactly as printed in the MachZehnder docstring (no 1/2)"""
    e = lambda x: complex(math.cos(x), math.sin(x))  # noqa: E731
    a, b = e(int_), e(ext)
    return np.array([[b * (a - 1), 1j * (a + 1)], [1j * b * (a + 1), 1 - a]])


def squeezing2_decomposition(r, phi):
    """documented note: S_ij(z) = B_ij(pi/4, 0) [S_i(-z) (x) S_j(z)] B_ij(-pi/4, 0)"""
    e = complex(math.cos(phi), math.sin(phi))
    B1 = beamsplitter_U(math.pi / 4, 0.0)
    B2 = beamsplitter_U(-math.pi / 4, 0.0)
    # S(z): P = cosh r, A = -e^{i phi} sinh r ;  S(-z): r -> -r
    Pm = np.diag([math.cosh(-r), math.cosh(r)]).astype(complex)
    Am = np.diag([-e * math.sinh(-r), -e * math.sinh(r)])
    Sc = complex_S(B1) @ complex_S(Pm, Am) @ complex_S(B2)
    return Sc[:2, :2], Sc[:2, 2:]


# ---------------------------------------------------------------------------------------
# states


def vacuum(d, hbar):
    return np.zeros(2 * d), hbar * np.identity(2 * d)


def thermal_cov_xxpp(nbar, hbar):
    nbar = np.asarray(nbar, dtype=float)
    return hbar * np.diag(np.concatenate([2 * nbar + 1, 2 * nbar + 1]))


def is_physical(cov_xxpp, hbar, tol=1e-9):
    d = len(cov_xxpp) // 2
    M = np.asarray(cov_xxpp) / hbar + 1j * omega_xxpp(d)
    return bool(np.min(np.linalg.eigvalsh((M + M.conj().T) / 2)) > -tol)


def complex_from_xxpp(mean, cov, hbar):
    d = len(mean) // 2
    Wd = W(d)
    return Wd @ np.asarray(mean) / math.sqrt(hbar), Wd @ np.asarray(cov) @ Wd.conj().T / hbar


def xxpp_from_complex(mu_c, sigma_c, hbar):
    d = len(mu_c) // 2
    Wd = W(d)
    mean = math.sqrt(hbar) * (Wd.conj().T @ mu_c)
    cov = hbar * (Wd.conj().T @ sigma_c @ Wd)
    return mean.real, cov.real


def mcg_from_xxpp(mean, cov, hbar):
    """ladder moments (m, C, G) by the definitions in the module docstring"""
    d = len(mean) // 2
    mu_c, sigma_c = complex_from_xxpp(mean, cov, hbar)
    m = mu_c[:d]
    B = (sigma_c - np.identity(2 * d)) / 2
    # sigma_c = 2 [[conj C, G], [conj G, C]] + I
    C = B[d:, d:]
    G = B[:d, d:]
    return m, C, G


def xxpp_from_mcg(m, C, G, hbar):
    d = len(m)
    sigma_c = 2 * np.block([[np.conj(C), G], [np.conj(G), C]]) + np.identity(2 * d)
    mu_c = np.concatenate([m, np.conj(m)])
    return xxpp_from_complex(mu_c, sigma_c, hbar)


def reduce_xxpp(mean, cov, modes):
    d = len(mean) // 2
    idx = list(modes) + [d + m for m in modes]
    return np.asarray(mean)[idx], np.asarray(cov)[np.ix_(idx, idx)]


def rotate_xxpp(mean, cov, phi):
    """documented `rotated`: m -> e^{-i phi} m, C -> C, G -> e^{-2 i phi} G, i.e. the ladder
    transformation with P = e^{-i phi} I"""
    d = len(mean) // 2
    S = real_S_xxpp(np.identity(d) * complex(math.cos(phi), -math.sin(phi)))
    return congruence(mean, cov, S)


# ---------------------------------------------------------------------------------------
# dimensionless observables from (mean, cov, hbar)


def _dimless(mean, cov, hbar):
    """textbook (r, V): vacuum V = I/2"""
    return np.asarray(mean, dtype=float) / math.sqrt(hbar), np.asarray(cov, dtype=float) / (2 * hbar)


def purity(cov, hbar):
    return 1.0 / math.sqrt(np.linalg.det(np.asarray(cov) / hbar))


def mean_photon_number(mean, cov, hbar, modes=None):
    if modes is not None:
        mean, cov = reduce_xxpp(mean, cov, modes)
    r, V = _dimless(mean, cov, hbar)
    d = len(r) // 2
    # n_i = (x_i^2 + p_i^2)/2 - 1/2 in dimensionless quadratures
    return float(0.5 * np.trace(V) + 0.5 * r @ r - d / 2)


def variance_photon_number(mean, cov, hbar, modes=None):
    """variance of the TOTAL photon number N = r^T r / 2 - d/2 of the (reduced) state.
    The Weyl symbol of N^2 is N_w^2 - d/4, and for a Gaussian distribution
    Var(r^T r / 2) = Tr(V^2)/2 + r^T V r."""
    if modes is not None:
        mean, cov = reduce_xxpp(mean, cov, modes)
    r, V = _dimless(mean, cov, hbar)
    d = len(r) // 2
    return float(0.5 * np.trace(V @ V) + r @ V @ r - d / 4)


def vacuum_probability(mean, cov, hbar, modes=None):
    """probability that all of `modes` (default: all) contain no photon"""
    if modes is not None:
        if len(modes) == 0:
            return 1.0
        mean, cov = reduce_xxpp(mean, cov, modes)
    r, V = _dimless(mean, cov, hbar)
    Q = V + np.identity(len(V)) / 2
    return float(math.exp(-0.5 * r @ np.linalg.solve(Q, r)) / math.sqrt(np.linalg.det(Q)))


def threshold_probability(mean, cov, hbar, pattern):
    """P(modes with pattern 0 are dark and modes with pattern 1 click) by inclusion-
    exclusion over the clicking modes of vacuum probabilities of reduced states"""
    dark = [i for i, c in enumerate(pattern) if not c]
    click = [i for i, c in enumerate(pattern) if c]
    total = 0.0
    for k in range(len(click) + 1):
        for T in itertools.combinations(click, k):
            total += (-1) ** k * vacuum_probability(mean, cov, hbar, tuple(dark) + T)
    return total


def parity(mean, cov, hbar):
    """<exp(i pi N)> = pi^d W(0)"""
    r, V = _dimless(mean, cov, hbar)
    d = len(r) // 2
    return float(math.exp(-0.5 * r @ np.linalg.solve(V, r)) / (2**d * math.sqrt(np.linalg.det(V))))


def phaseshifter_expectation(mean, cov, hbar, angles):
    """Tr[rho exp(i sum_j phi_j n_j)].  The Weyl symbol of z^n is 2/(1+z) exp(-(1-z)/(1+z) (x^2+p^2)),
    so with Z = diag(z, z) (xxpp) and M = (I+Z)/2 + V (I-Z):
        <R> = det(M)^(-1/2) exp(-r^T ((I-Z)/2) M^{-1} r),
    the branch of the square root being the one continuous along phi -> t*phi, t in [0, 1]
    (tracked numerically, never the principal value)."""
    r, V = _dimless(mean, cov, hbar)
    d = len(r) // 2
    angles = np.asarray(angles, dtype=float)
    if len(angles) != d:
        raise ValueError("angles")
    I = np.identity(2 * d)

    def M_of(t):
        z = np.exp(1j * t * angles)
        Z = np.diag(np.concatenate([z, z]))
        return (I + Z) / 2 + V @ (I - Z), Z

    n = 64
    while True:
        dets = np.array([np.linalg.det(M_of(k / n)[0]) for k in range(n + 1)])
        steps = np.angle(dets[1:] / dets[:-1])
        if np.max(np.abs(steps)) < 0.5 or n >= 65536:
            break
        n *= 4
    if np.max(np.abs(steps)) >= 0.5:
        raise ArithmeticError("phaseshifter_expectation: phase of det not resolved")
    arg = float(np.sum(steps))  # continuous argument of det M(1), det M(0) = 1
    M, Z = M_of(1.0)
    sqrt_det = math.sqrt(abs(dets[-1])) * complex(math.cos(arg / 2), math.sin(arg / 2))
    expo = -(r @ ((I - Z) / 2) @ np.linalg.solve(M, r.astype(complex)))
    return complex(np.exp(expo) / sqrt_det)


def overlap(mean1, cov1, mean2, cov2, hbar):
    """Tr(rho1 rho2); equals the fidelity when at least one of the states is pure"""
    r1, V1 = _dimless(mean1, cov1, hbar)
    r2, V2 = _dimless(mean2, cov2, hbar)
    dr = r2 - r1
    Vs = V1 + V2
    return float(math.exp(-0.5 * dr @ np.linalg.solve(Vs, dr)) / math.sqrt(np.linalg.det(Vs)))


def fidelity(mean1, cov1, mean2, cov2, hbar):
    """Uhlmann fidelity (Tr sqrt(sqrt(rho1) rho2 sqrt(rho1)))^2 of two Gaussian states,
    Banchi-Braunstein-Pirandola PRL 115, 260501 (2015):
        V_aux = Om^T (V1+V2)^-1 (Om/4 + V2 Om V1),
        F_tot^4 = det[2 (sqrt(1 + (V_aux Om)^-2 / 4) + 1) V_aux],  F0 = F_tot / det(V1+V2)^(1/4),
        F = F0 exp(-dr^T (V1+V2)^-1 dr / 4)   (not squared in the paper; squared here).
    V_aux Om has the eigenvalues +-i w_k/2 (w_k >= 1), so the matrix square root is evaluated on
    the spectrum: F_tot^4 = det(2 V_aux) prod_k (1 + sqrt(1 - 1/w_k^2)) over all 2d eigenvalues.
    sqrt(1 - 1/w^2) at w ~ 1 (pure states) costs half of the digits: good to ~1e-7."""
    r1, V1 = _dimless(vec_to_xpxp(mean1), mat_to_xpxp(cov1), hbar)
    r2, V2 = _dimless(vec_to_xpxp(mean2), mat_to_xpxp(cov2), hbar)
    d = len(r1) // 2
    Om = omega_xpxp(d)
    Vs = V1 + V2
    Vaux = Om.T @ np.linalg.solve(Vs, Om / 4 + V2 @ Om @ V1)
    w = 2 * np.abs(np.linalg.eigvals(Vaux @ Om))
    t = np.clip(1 - 1 / w**2, 0.0, None)
    Ftot4 = abs(np.linalg.det(2 * Vaux)) * float(np.prod(1 + np.sqrt(t)))
    F0 = Ftot4**0.25 / np.linalg.det(Vs) ** 0.25
    dr = r2 - r1
    F = F0 * math.exp(-0.25 * dr @ np.linalg.solve(Vs, dr))
    return float(F**2)


# ---------------------------------------------------------------------------------------
# ordered string moments (strings of length <= 3)


def ordered_moment_tensors(first, second_connected):
    """T1[i] = <O_i>, T2[i,j] = <O_i O_j>, T3[i,j,k] = <O_i O_j O_k> of a Gaussian state from
    the first moments and the ORDERED connected second moments K_ij = <dO_i dO_j>."""
    mu = np.asarray(first, dtype=complex)
    Kc = np.asarray(second_connected, dtype=complex)
    T1 = mu
    T2 = np.einsum("i,j->ij", mu, mu) + Kc
    T3 = (
        np.einsum("i,j,k->ijk", mu, mu, mu)
        + np.einsum("i,jk->ijk", mu, Kc)
        + np.einsum("j,ik->ijk", mu, Kc)
        + np.einsum("k,ij->ijk", mu, Kc)
    )
    return T1, T2, T3


def xp_moment_tensors(mean, cov, hbar):
    """<Y_i>, <Y_i Y_j>, <Y_i Y_j Y_k> in xxpp order: <dY_i dY_j> = sigma_ij/2 + (i hbar/2) Omega_ij"""
    d = len(mean) // 2
    return ordered_moment_tensors(mean, np.asarray(cov) / 2 + 0.5j * hbar * omega_xxpp(d))


def ladder_from_xp_tensors(T1, T2, T3, hbar):
    """xi = W Y / sqrt(hbar), applied index by index"""
    d = len(T1) // 2
    Wd = W(d)
    return (
        Wd @ T1 / math.sqrt(hbar),
        np.einsum("ia,jb,ab->ij", Wd, Wd, T2) / hbar,
        np.einsum("ia,jb,kc,abc->ijk", Wd, Wd, Wd, T3) / hbar**1.5,
    )


# ---------------------------------------------------------------------------------------
# catalogue helpers (deterministic "generic" matrices)


def generic_unitary(k, seed, tag=0):
    rng = np.random.default_rng([int(seed), 7001, int(k), int(tag)])
    M = rng.normal(size=(k, k)) + 1j * rng.normal(size=(k, k))
    Q, R = np.linalg.qr(M)
    ph = np.diag(R) / np.abs(np.diag(R))
    return Q * ph


def bloch_messiah_blocks(U1, r, U2):
    """(P, A) of the Gaussian unitary  U1 . (x)_j S(r_j real) . U2  (documented squeezing
    blocks cosh r, -sinh r)"""
    U1 = np.asarray(U1, dtype=complex)
    U2 = np.asarray(U2, dtype=complex)
    c = np.diag(np.cosh(r)).astype(complex)
    s = np.diag(-np.sinh(r)).astype(complex)
    Sc = complex_S(U1) @ complex_S(c, s) @ complex_S(U2)
    k = len(U1)
    return Sc[:k, :k], Sc[:k, k:]


def selftest():
    """cheap internal consistency of the reference itself (run by the checks once per process)"""
    d = 3
    rng = np.random.default_rng(12345)
    U1, U2 = generic_unitary(d, 1, 1), generic_unitary(d, 1, 2)
    P, A = bloch_messiah_blocks(U1, [0.3, -0.2, 0.5], U2)
    Sc = complex_S(P, A)
    assert complex_symplectic_residual(Sc) < 1e-12
    S = real_S_xxpp(P, A)
    assert real_symplectic_residual(S) < 1e-12
    for hbar in (0.5, 2.0, 3.7):
        mean = rng.normal(size=2 * d) * math.sqrt(hbar)
        cov = S @ thermal_cov_xxpp([0.0, 0.4, 1.3], hbar) @ S.T
        assert is_physical(cov, hbar)
        m, C, G = mcg_from_xxpp(mean, cov, hbar)
        mean2, cov2 = xxpp_from_mcg(m, C, G, hbar)
        assert np.allclose(mean, mean2, atol=1e-12) and np.allclose(cov, cov2, atol=1e-12)
        assert np.allclose(C, C.conj().T) and np.allclose(G, G.T)
        # mean photon number two ways
        n1 = mean_photon_number(mean, cov, hbar)
        n2 = float(np.real(np.trace(C) + np.vdot(m, m)))
        assert abs(n1 - n2) < 1e-12
        # threshold probabilities sum to one, parity = phase shifter at pi, R(0) = 1
        tot = sum(threshold_probability(mean, cov, hbar, pat) for pat in itertools.product((0, 1), repeat=d))
        assert abs(tot - 1) < 1e-12
        assert abs(phaseshifter_expectation(mean, cov, hbar, [math.pi] * d) - parity(mean, cov, hbar)) < 1e-10
        assert abs(phaseshifter_expectation(mean, cov, hbar, [0.0] * d) - 1) < 1e-12
        # purity of a pure state, fidelity with itself
        pc = S @ S.T * hbar
        assert abs(purity(pc, hbar) - 1) < 1e-10
        assert abs(fidelity(mean, cov, mean, cov, hbar) - 1) < 1e-6
        assert abs(fidelity(mean, pc, mean * 0.5, cov, hbar) - overlap(mean, pc, mean * 0.5, cov, hbar)) < 1e-6
    # single-mode closed forms: squeezed vacuum Var n = sinh^2(2r)/2, coherent Var n = |alpha|^2,
    # thermal Var n = nbar^2 + nbar, <z^n> of a thermal state = 1/(1 + nbar (1 - z))
    r = 0.7
    P1, A1 = documented_blocks("Squeezing", r=r, phi=0.4)
    S1 = real_S_xxpp(P1, A1)
    assert abs(variance_photon_number(np.zeros(2), S1 @ S1.T * 2.0, 2.0) - math.sinh(2 * r) ** 2 / 2) < 1e-12
    assert abs(mean_photon_number(np.zeros(2), S1 @ S1.T * 2.0, 2.0) - math.sinh(r) ** 2) < 1e-12
    al = 0.3 - 0.8j
    mu = displacement_shift_xxpp(al, 0, 1, 0.5)
    assert abs(variance_photon_number(mu, 0.5 * np.identity(2), 0.5) - abs(al) ** 2) < 1e-12
    nb = 1.7
    tc = thermal_cov_xxpp([nb], 1.0)
    assert abs(variance_photon_number(np.zeros(2), tc, 1.0) - (nb * nb + nb)) < 1e-12
    z = complex(math.cos(2.5), math.sin(2.5))
    assert abs(phaseshifter_expectation(np.zeros(2), tc, 1.0, [2.5]) - 1 / (1 + nb * (1 - z))) < 1e-12
    # coherent state: <z^n> = exp(|alpha|^2 (z - 1))
    assert abs(phaseshifter_expectation(mu, 0.5 * np.identity(2), 0.5, [2.5]) - np.exp(abs(al) ** 2 * (z - 1))) < 1e-12
    # documented identities of the reference itself
    Pm, _ = documented_blocks("MachZehnder", int_=0.37, ext=-0.81)
    assert np.allclose(Pm, machzehnder_docstring_matrix(0.37, -0.81) / 2)
    return True
