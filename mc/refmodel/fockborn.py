"""Dense truncated-Fock reference for Born laws -- reference model of C02.  No piquasso imports.

* ``DenseFock(d, N)``: tensor-product space with N levels per mode (so every mode can hold
  up to N-1 photons independently -- NOT piquasso's total-photon truncation), gates as matrix
  exponentials of the documented generators; pure states or density matrices.
* number-state amplitudes behind a linear interferometer by permanents (exact, no cutoff).
* position wave functions for homodyne laws.
"""

import itertools
import math

import numpy as np
from scipy.linalg import expm


class DenseFock:
    def __init__(self, d, N):
        self.d = d
        self.N = N
        a1 = np.diag(np.sqrt(np.arange(1, N)), 1)
        self.a = []
        for m in range(d):
            ops = [np.eye(N)] * d
            ops[m] = a1
            M = ops[0]
            for o in ops[1:]:
                M = np.kron(M, o)
            self.a.append(M)
        self.dim = N**d
        self.psi = np.zeros(self.dim, dtype=complex)
        self.psi[0] = 1.0
        self.rho = None

    # -- preparation ----------------------------------------------------------------------
    def index(self, occ):
        i = 0
        for n in occ:
            i = i * self.N + int(n)
        return i

    def number_state(self, occ):
        self.psi = np.zeros(self.dim, dtype=complex)
        self.psi[self.index(occ)] = 1.0
        return self

    def thermal(self, nbars):
        diag = np.ones(1)
        for nb in nbars:
            p = np.array([nb**n / (1.0 + nb) ** (n + 1) for n in range(self.N)])
            diag = np.kron(diag, p)
        self.rho = np.diag(diag).astype(complex)
        self.psi = None
        return self

    def _apply(self, U):
        if self.rho is not None:
            self.rho = U @ self.rho @ U.conj().T
        else:
            self.psi = U @ self.psi
        return self

    # -- gates (documented generators) --------------------------------------------------------
    def squeeze(self, mode, r, phi=0.0):
        z = r * np.exp(1j * phi)
        a = self.a[mode]
        return self._apply(expm(0.5 * (np.conj(z) * a @ a - z * a.conj().T @ a.conj().T)))

    def displace(self, mode, r, phi=0.0):
        alpha = r * np.exp(1j * phi)
        a = self.a[mode]
        return self._apply(expm(alpha * a.conj().T - np.conj(alpha) * a))

    def phaseshift(self, mode, phi):
        a = self.a[mode]
        return self._apply(expm(1j * phi * a.conj().T @ a))

    def beamsplitter(self, i, j, theta, phi=0.0):
        """The state transformation whose transfer matrix is the documented
        U = [[t, -conj(r)], [r, t]] (a+_i -> t a+_i + r a+_j, a+_j -> -conj(r) a+_i + t a+_j),
        t = cos(theta), r = e^{i phi} sin(theta): exp(theta e^{i phi} a+_j a_i - h.c.).
        (The operator formula printed in the Beamsplitter docstring has i and j exchanged
        relative to its own matrix; the matrix is what every simulator implements.)"""
        ai, aj = self.a[i], self.a[j]
        G = theta * np.exp(1j * phi) * aj.conj().T @ ai - theta * np.exp(-1j * phi) * ai.conj().T @ aj
        return self._apply(expm(G))

    # -- laws ---------------------------------------------------------------------------------
    def probabilities(self):
        """{occupation: probability} (diagonal of the state)."""
        diag = np.real(np.diag(self.rho)) if self.rho is not None else np.abs(self.psi) ** 2
        out = {}
        for idx, occ in enumerate(itertools.product(range(self.N), repeat=self.d)):
            out[occ] = float(diag[idx])
        return out

    def number_law(self, modes, cutoff=None):
        """Law of the photon numbers of the ordered modes; with `cutoff`: every entry < cutoff,
        and the mass outside is returned separately."""
        law = {}
        tail = 0.0
        for occ, p in self.probabilities().items():
            k = tuple(occ[m] for m in modes)
            if cutoff is not None and any(n >= cutoff for n in k):
                tail += p
                continue
            law[k] = law.get(k, 0.0) + p
        return law, tail


# ---------------------------------------------------------------------------------------
# exact amplitudes of number states behind an interferometer


def _permanent(M):
    n = M.shape[0]
    if n == 0:
        return 1.0 + 0.0j
    total = 0.0 + 0.0j
    for perm in itertools.permutations(range(n)):
        t = 1.0 + 0.0j
        for i, j in enumerate(perm):
            t *= M[i, j]
        total += t
    return total


def _occupations(d, n):
    if d == 0:
        return [()] if n == 0 else []
    out = []
    for head in range(n, -1, -1):
        for tail in _occupations(d - 1, n - head):
            out.append((head,) + tail)
    return out


def amplitudes(U, terms):
    """Amplitudes of sum_k c_k |occ_k> behind the unitary U (a' = U a):
    terms = [(c_k, occ_k)], returns {occupation: amplitude}."""
    U = np.asarray(U, dtype=complex)
    d = U.shape[0]
    out = {}
    for c, occ in terms:
        a = [m for m, n in enumerate(occ) for _ in range(int(n))]
        n = len(a)
        nin = 1.0
        for x in occ:
            nin *= math.factorial(int(x))
        for o in _occupations(d, n):
            b = [m for m, k in enumerate(o) for _ in range(k)]
            nout = 1.0
            for x in o:
                nout *= math.factorial(x)
            amp = _permanent(U[np.ix_(b, a)]) / math.sqrt(nin * nout)
            out[o] = out.get(o, 0.0) + c * amp
    return out


def law_from_amplitudes(amps, modes):
    law = {}
    for occ, a in amps.items():
        k = tuple(occ[m] for m in modes)
        law[k] = law.get(k, 0.0) + abs(a) ** 2
    total = sum(law.values())
    return {k: v / total for k, v in law.items()}, total


# ---------------------------------------------------------------------------------------
# position representation (homodyne)


def hermite_function(n, x):
    """phi_n(x) of the harmonic oscillator with hbar = 1 in units x = q / sqrt(hbar):
    phi_n(x) = H_n(x) exp(-x^2/2) / sqrt(2^n n! sqrt(pi)), by the stable recurrence."""
    x = np.asarray(x, dtype=float)
    p0 = np.exp(-(x**2) / 2) / np.pi**0.25
    if n == 0:
        return p0
    p1 = np.sqrt(2.0) * x * p0
    for k in range(2, n + 1):
        p0, p1 = p1, np.sqrt(2.0 / k) * x * p1 - np.sqrt((k - 1) / k) * p0
    return p1
