"""One-step reference operators on the TRUNCATED Fock space (total photon number < cutoff) and one-step
reference maps of Gaussian moments.  Imports nothing from piquasso.

Used by C01 as per-transition oracles that take the implementation's own parent state and predict the child
state exactly (independent of the cross-simulator comparison and of the exactness tracker).

Fock space.  For the action kinds below the truncated dynamics of the Fock simulators is exactly
"P Uhat P" (P = projector on total photon number < cutoff) with the documented operator Uhat:

* passive gates on an ORDERED mode tuple M with the documented k x k matrix T (Uhat^+ a_i Uhat = sum_j T_ij a_j):
  number conserving, <m|Uhat|n> = perm(T[rows repeated by m, columns repeated by n]) / sqrt(prod m! prod n!)
  (second quantisation, own permanent); the modes outside M are spectators;
* Kerr exp(i xi n^2), CrossKerr exp(i xi n_i n_j): diagonal;
* single-mode Displacement D(alpha) = exp(alpha a^+ - conj(alpha) a) and Squeezing
  S(z) = exp((conj(z) a^2 - z a^+2)/2), z = r e^{i phi}  (Uhat^+ a Uhat = cosh r a - e^{i phi} sinh r a^+, the documented
  blocks): exact matrix elements <m|Uhat|n>, m, n < cutoff, from a dense expm at two truncations cutoff+30 / cutoff+40
  that must agree to 1e-12; P Uhat P on |n_j, rest> keeps the m_j with m_j + |rest| < cutoff, i.e. the top-left
  (cutoff - |rest|) block -- automatically so when the operator is assembled on the truncated basis;
* Attenuator(theta) on mode j (thermal excitation 0): rho -> sum_k K_k rho K_k^+,
  K_k |n> = sqrt(C(n,k)) cos(theta)^(n-k) sin(theta)^k |n-k> on mode j; loss only lowers photon numbers, so the
  truncated space is invariant and truncation commutes with the channel.

Euler-decomposed gates (QuadraticPhase, Squeezing2, ControlledX/Z, GaussianTransform) are NOT of this form (the
library truncates between the three factors) and have no one-step Fock oracle.

Gaussian moments: gaussref conventions; a linear gate with documented blocks (P, A) on the ordered tuple M maps
(mean, cov) in xxpp order by the real symplectic congruence; Displacement shifts the mean by
sqrt(2 hbar) (Re alpha, Im alpha); Attenuator is the documented channel X = cos(theta) I, Y = hbar sin(theta)^2 I
on the (x, p) of the mode.
"""

import itertools
import math

import numpy as np
import scipy.linalg

from mc.refmodel import gaussref as GR

PASSIVE = ("Phaseshifter", "Fourier", "Beamsplitter", "Beamsplitter5050", "MachZehnder", "Interferometer")
DIAGONAL = ("Kerr", "CrossKerr")
DISPLACEMENTS = ("Displacement", "PositionDisplacement", "MomentumDisplacement")
FOCK_ONE_STEP = set(PASSIVE) | set(DIAGONAL) | set(DISPLACEMENTS) | {"Squeezing", "Attenuator"}
ACTIVE_LINEAR = ("Squeezing", "QuadraticPhase", "Squeezing2", "ControlledX", "ControlledZ", "GaussianTransform")
GAUSS_ONE_STEP = set(PASSIVE) | set(ACTIVE_LINEAR) | set(DISPLACEMENTS) | {"Attenuator"}


def basis(d, cutoff):
    """occupation vectors with total < cutoff: total ascending, then anti-lexicographic (piquasso's order)"""
    out = []
    for n in range(cutoff):
        out += sorted((v for v in itertools.product(range(n + 1), repeat=d) if sum(v) == n), reverse=True)
    return out


def permanent(M):
    """Ryser's formula (plain subset enumeration; the matrices here are at most (cutoff-1) x (cutoff-1))"""
    M = np.asarray(M, dtype=complex)
    n = M.shape[0]
    if n == 0:
        return 1.0 + 0j
    total = 0j
    for mask in range(1, 1 << n):
        cols = [j for j in range(n) if mask >> j & 1]
        total += (-1) ** (n - len(cols)) * np.prod(M[:, cols].sum(axis=1))
    return total


def passive_element(T, m, n, cache=None):
    """<m| Uhat |n> for occupation tuples m, n of the k addressed modes (0 unless sum(m) == sum(n))"""
    if sum(m) != sum(n):
        return 0j
    key = (tuple(m), tuple(n))
    if cache is not None and key in cache:
        return cache[key]
    rows = [i for i, c in enumerate(m) for _ in range(c)]
    cols = [j for j, c in enumerate(n) for _ in range(c)]
    norm = math.sqrt(math.prod(math.factorial(c) for c in m) * math.prod(math.factorial(c) for c in n))
    val = permanent(np.asarray(T)[np.ix_(rows, cols)]) / norm
    if cache is not None:
        cache[key] = val
    return val


def alpha_of(cls, params):
    if cls == "Displacement":
        return params["r"] * complex(math.cos(params.get("phi", 0.0)), math.sin(params.get("phi", 0.0)))
    if cls == "PositionDisplacement":
        return complex(params["x"], 0.0)
    if cls == "MomentumDisplacement":
        return complex(0.0, params["p"])
    raise KeyError(cls)


_SINGLE_CACHE = {}


def single_mode_matrix(cls, params, cutoff):
    """exact <m|Uhat|n>, m, n < cutoff, of Displacement-like gates and Squeezing (see module docstring)"""
    key = (cls, tuple(sorted(params.items())), cutoff)
    if key in _SINGLE_CACHE:
        return _SINGLE_CACHE[key]
    out = []
    for N in (cutoff + 30, cutoff + 40):
        a = np.diag(np.sqrt(np.arange(1, N)), 1).astype(complex)
        ad = a.conj().T
        if cls == "Squeezing":
            z = params["r"] * complex(math.cos(params.get("phi", 0.0)), math.sin(params.get("phi", 0.0)))
            G = 0.5 * (np.conj(z) * a @ a - z * ad @ ad)
        else:
            al = alpha_of(cls, params)
            G = al * ad - np.conj(al) * a
        out.append(scipy.linalg.expm(G)[:cutoff, :cutoff])
    dev = float(np.max(np.abs(out[0] - out[1])))
    if not dev <= 1e-12:
        raise ArithmeticError("single_mode_matrix(%s) not converged: %.2e" % (cls, dev))
    _SINGLE_CACHE[key] = out[1]
    return out[1]


def attenuator_kraus_coefficient(n, k, theta):
    return math.sqrt(math.comb(n, k)) * math.cos(theta) ** (n - k) * math.sin(theta) ** k


def _index(B):
    return {tuple(b): i for i, b in enumerate(B)}


def fock_operator(cls, modes, params, d, cutoff):
    """dim x dim matrix of P Uhat P on the truncated basis (unitary gate kinds of FOCK_ONE_STEP);
    modes: ORDERED tuple, () = all modes ascending; matrix parameters already resolved to arrays"""
    B = basis(d, cutoff)
    pos = _index(B)
    dim = len(B)
    M = tuple(modes) if len(modes) else tuple(range(d))
    Op = np.zeros((dim, dim), dtype=complex)
    if cls in PASSIVE:
        T, A = GR.documented_blocks(cls, **params)
        assert A is None and T.shape == (len(M), len(M))
        rest = [m for m in range(d) if m not in M]
        groups = {}
        for i, b in enumerate(B):
            loc = tuple(b[m] for m in M)
            groups.setdefault((tuple(b[m] for m in rest), sum(loc)), []).append((i, loc))
        cache = {}
        for members in groups.values():
            for i, mi in members:
                for j, nj in members:
                    Op[i, j] = passive_element(T, mi, nj, cache)
    elif cls == "Kerr":
        for i, b in enumerate(B):
            Op[i, i] = np.exp(1j * params["xi"] * b[M[0]] ** 2)
    elif cls == "CrossKerr":
        for i, b in enumerate(B):
            Op[i, i] = np.exp(1j * params["xi"] * b[M[0]] * b[M[1]])
    elif cls in DISPLACEMENTS or cls == "Squeezing":
        G = single_mode_matrix(cls, params, cutoff)
        j = M[0]
        for col, b in enumerate(B):
            for mj in range(cutoff - (sum(b) - b[j])):
                t = list(b)
                t[j] = mj
                Op[pos[tuple(t)], col] = G[mj, b[j]]
    else:
        raise KeyError(cls)
    return Op


def attenuator_kraus(mode, theta, d, cutoff):
    """list of the Kraus matrices K_k on the truncated basis"""
    B = basis(d, cutoff)
    pos = _index(B)
    dim = len(B)
    out = []
    for k in range(cutoff):
        K = np.zeros((dim, dim), dtype=complex)
        for col, b in enumerate(B):
            if b[mode] >= k:
                t = list(b)
                t[mode] -= k
                K[pos[tuple(t)], col] = attenuator_kraus_coefficient(b[mode], k, theta)
        out.append(K)
    return out


def fock_child(cls, modes, params, d, cutoff, parent_sv=None, parent_dm=None, _cache={}):
    """predicted (child_sv or None, child_dm or None) from the parent's state vector / density matrix"""
    key = (cls, tuple(modes), repr(sorted((k, v if np.isscalar(v) else np.asarray(v).tobytes()) for k, v in params.items())), d, cutoff)
    if key not in _cache:
        if len(_cache) > 3000:
            _cache.clear()
        if cls == "Attenuator":
            M = tuple(modes) if len(modes) else tuple(range(d))
            if len(M) != 1 or params.get("mean_thermal_excitation", 0) != 0:
                raise KeyError("Attenuator one-step reference: single mode, thermal excitation 0 only")
            _cache[key] = ("kraus", attenuator_kraus(M[0], params["theta"], d, cutoff))
        else:
            _cache[key] = ("unitary", fock_operator(cls, modes, params, d, cutoff))
    kind, op = _cache[key]
    if kind == "unitary":
        sv = None if parent_sv is None else op @ np.asarray(parent_sv, dtype=complex)
        dm = None if parent_dm is None else op @ np.asarray(parent_dm, dtype=complex) @ op.conj().T
        return sv, dm
    rho = np.asarray(parent_dm, dtype=complex) if parent_dm is not None else np.outer(parent_sv, np.conj(parent_sv))
    return None, sum(K @ rho @ K.conj().T for K in op)


# ---------------------------------------------------------------------------------------
# Gaussian moments


def moments_xxpp_complex(m, C, G, hbar):
    """(mean, cov) in xxpp order from the ladder moments WITHOUT discarding imaginary parts (a non-Hermitian C or a
    non-symmetric G shows up as an imaginary / asymmetric part instead of being projected away)"""
    m, C, G = np.asarray(m, dtype=complex), np.asarray(C, dtype=complex), np.asarray(G, dtype=complex)
    d = len(m)
    sigma_c = 2 * np.block([[np.conj(C), G], [np.conj(G), C]]) + np.identity(2 * d)
    mu_c = np.concatenate([m, np.conj(m)])
    Wd = GR.W(d)
    return math.sqrt(hbar) * (Wd.conj().T @ mu_c), hbar * (Wd.conj().T @ sigma_c @ Wd)


def gauss_child(cls, modes, params, d, hbar, mean, cov):
    """predicted (mean, cov) in xxpp order after the action; matrix parameters already resolved"""
    M = tuple(modes) if len(modes) else tuple(range(d))
    mean, cov = np.asarray(mean), np.asarray(cov)
    if cls in DISPLACEMENTS:
        return mean + GR.displacement_shift_xxpp(alpha_of(cls, params), M[0], d, hbar), cov
    if cls == "Attenuator":
        nbar = params.get("mean_thermal_excitation", 0)
        X = np.identity(2 * d)
        Y = np.zeros((2 * d, 2 * d))
        for i in (M[0], d + M[0]):
            X[i, i] = math.cos(params["theta"])
            Y[i, i] = hbar * math.sin(params["theta"]) ** 2 * (2 * nbar + 1)
        return X @ mean, X @ cov @ X.T + Y
    P, A = GR.documented_blocks(cls, **params)
    Pf, Af = GR.embed(P, A, M, d)
    S = GR.real_S_xxpp(Pf, Af)
    return S @ mean, S @ cov @ S.T


def active_block_is_complex(cls, params):
    if cls in PASSIVE or cls in DISPLACEMENTS or cls == "Attenuator":
        return False
    _, A = GR.documented_blocks(cls, **params)
    return bool(np.max(np.abs(np.asarray(A).imag)) > 1e-6)


def selftest():
    """internal consistency of the one-step reference (once per process)"""
    from mc.refmodel import densefock as DF

    # documented blocks transcribed twice (gaussref / densefock) agree
    for cls, p in (("Beamsplitter", dict(theta=0.37, phi=0.81)), ("MachZehnder", dict(int_=0.53, ext=1.29)), ("Beamsplitter5050", {}),
                   ("Squeezing", dict(r=0.23, phi=0.67)), ("QuadraticPhase", dict(s=0.29)), ("Squeezing2", dict(r=0.21, phi=1.13)),
                   ("ControlledX", dict(s=0.23)), ("ControlledZ", dict(s=-0.19)), ("Fourier", {}), ("Phaseshifter", dict(phi=0.81))):
        P1, A1 = GR.documented_blocks(cls, **p)
        P2, A2 = DF.symplectic(cls, p)
        assert np.allclose(P1, P2, atol=1e-14) and np.allclose(np.zeros_like(P1) if A1 is None else A1, A2, atol=1e-14), cls
    assert abs(permanent(np.array([[1, 2], [3, 4]])) - 10) < 1e-12 and abs(permanent(np.ones((4, 4))) - 24) < 1e-12
    # passive operator: unitary on the truncated space, composition law, agrees with the dense reference
    rng = np.random.default_rng(5)
    U = GR.generic_unitary(2, 3, 1)
    V = GR.generic_unitary(2, 3, 2)
    d, c = 3, 4
    O1 = fock_operator("Interferometer", (2, 0), {"matrix": U}, d, c)
    O2 = fock_operator("Interferometer", (2, 0), {"matrix": V}, d, c)
    O12 = fock_operator("Interferometer", (2, 0), {"matrix": U @ V}, d, c)
    assert np.allclose(O1 @ O1.conj().T, np.identity(len(O1)), atol=1e-12)
    assert np.allclose(O1 @ O2, O12, atol=1e-12)
    B = basis(d, c)
    ref = DF.DenseFock(d, c, (1, 0, 2)).apply("Interferometer", (2, 0), {"matrix": U})
    col = O1[:, B.index((1, 0, 2))]
    assert np.allclose(col, ref.amplitudes(B), atol=1e-10)
    # displacement / squeezing: composition D(a) D(-a) = 1 on the low block of a big truncation; attenuator vs ancilla model
    Dp = single_mode_matrix("Displacement", {"r": 0.31, "phi": 0.47}, 12)
    Dm = single_mode_matrix("Displacement", {"r": -0.31, "phi": 0.47}, 12)
    assert np.allclose((Dp @ Dm)[:4, :4], np.identity(4), atol=1e-9)
    psi = rng.normal(size=len(basis(2, 4))) + 1j * rng.normal(size=len(basis(2, 4)))
    psi /= np.linalg.norm(psi)
    _, rho = fock_child("Attenuator", (1,), {"theta": 0.43}, 2, 4, parent_sv=psi)
    assert abs(np.trace(rho) - 1) < 1e-12 and np.allclose(rho, rho.conj().T, atol=1e-14)
    B2 = basis(2, 4)
    ref = DF.DenseFock(2, 4, (1, 2)).apply("Attenuator", (1,), {"theta": 0.43})
    e = np.zeros(len(B2), complex)
    e[B2.index((1, 2))] = 1
    _, rho2 = fock_child("Attenuator", (1,), {"theta": 0.43}, 2, 4, parent_sv=e)
    assert np.allclose(rho2, ref.density_matrix(B2), atol=1e-10)
    # Gaussian: attenuated coherent state stays coherent with amplitude cos(theta) alpha; moments round trip
    mean, cov = GR.vacuum(2, 0.63)
    mean, cov = gauss_child("Displacement", (1,), {"r": 0.5, "phi": 0.3}, 2, 0.63, mean, cov)
    mean2, cov2 = gauss_child("Attenuator", (1,), {"theta": 0.43}, 2, 0.63, mean, cov)
    assert np.allclose(cov2, cov, atol=1e-14) and np.allclose(mean2, math.cos(0.43) * mean, atol=1e-14)
    m, C, G = GR.mcg_from_xxpp(mean2, cov2, 0.63)
    mm, cc = moments_xxpp_complex(m, C, G, 0.63)
    assert np.allclose(mm, mean2, atol=1e-13) and np.allclose(cc, cov2, atol=1e-13)
    return True
