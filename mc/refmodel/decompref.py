"""Boring reference algebra for the C15 check (matrix decompositions).  Imports nothing
from piquasso.

Conventions (the ones the library documents):

* Beamsplitter(theta, phi) on modes (i, j): [[t, -conj(r)], [r, t]], t = cos(theta),
  r = exp(i phi) sin(theta); Phaseshifter(phi): exp(i phi).  A list of gates applied in
  order g_1, g_2, ... has the transfer matrix  G_k ... G_2 G_1.
* complex-form symplectic of a linear gate: S_c = [[P, A], [conj A, conj P]];
  Squeezing(r, phi): P = cosh r, A = -exp(i phi) sinh r.
* xxpp ordering (x_1..x_d, p_1..p_d), symplectic form Omega = [[0, 1], [-1, 0]];
  covariance sigma_xxpp with vacuum = hbar * identity; sigma_c = W sigma W^+ / hbar with
  W = [[1, i], [1, -i]] / sqrt 2 (vacuum = identity).
* Gaussian-boson-sampling "A matrix" of a state: Q = sigma_c / 2 + 1/2,
  A = X (1 - Q^-1), X = [[0, 1], [1, 0]]; for a pure state A = B (+) conj(B).
"""

import itertools
import math

import numpy as np


# ---------------------------------------------------------------------------------------
# small matrix builders


def haar_unitary(rng, n):
    z = rng.normal(size=(n, n)) + 1j * rng.normal(size=(n, n))
    q, r = np.linalg.qr(z)
    ph = np.diag(r) / np.abs(np.diag(r))
    return q * ph


def real_orthogonal(rng, n):
    q, r = np.linalg.qr(rng.normal(size=(n, n)))
    return q * np.sign(np.diag(r))


def dft(n):
    k = np.arange(n)
    return np.exp(2j * np.pi * np.outer(k, k) / n) / math.sqrt(n)


def perm_matrix(p, dtype=complex):
    n = len(p)
    M = np.zeros((n, n), dtype=dtype)
    for row, col in enumerate(p):
        M[row, col] = 1
    return M


def givens(d, i, j, theta, phi):
    """the BS(theta, phi) of arXiv:1603.08788 embedded on modes (i, j)"""
    M = np.eye(d, dtype=complex)
    c, s, e = math.cos(theta), math.sin(theta), np.exp(1j * phi)
    M[i, i] = e * c
    M[i, j] = -s
    M[j, i] = e * s
    M[j, j] = c
    return M


def block_diag(*blocks):
    n = sum(len(b) for b in blocks)
    dtype = complex if any(np.iscomplexobj(b) for b in blocks) else float
    M = np.zeros((n, n), dtype=dtype)
    k = 0
    for b in blocks:
        b = np.asarray(b)
        M[k : k + len(b), k : k + len(b)] = b
        k += len(b)
    return M


def compositions(n):
    """all ordered tuples of positive integers summing to n"""
    if n == 0:
        yield ()
        return
    for first in range(1, n + 1):
        for rest in compositions(n - first):
            yield (first,) + rest


def symmetric_over_alphabet(n, alphabet):
    """every symmetric n x n matrix with entries from the alphabet"""
    idx = [(i, j) for i in range(n) for j in range(i, n)]
    for vals in itertools.product(alphabet, repeat=len(idx)):
        A = np.zeros((n, n), dtype=complex)
        for (i, j), v in zip(idx, vals):
            A[i, j] = A[j, i] = v
        yield vals, A


def graphs(n):
    """every simple labelled graph on n vertices with >= 1 edge: (bitmask, adjacency)"""
    pairs = [(i, j) for i in range(n) for j in range(i + 1, n)]
    for bits in range(1, 2 ** len(pairs)):
        A = np.zeros((n, n))
        for k, (i, j) in enumerate(pairs):
            if bits >> k & 1:
                A[i, j] = A[j, i] = 1.0
        yield bits, A


# ---------------------------------------------------------------------------------------
# norms / predicates


def maxabs(M):
    M = np.asarray(M)
    return float(np.max(np.abs(M))) if M.size else 0.0


def spectral_norm(M):
    M = np.asarray(M)
    if M.size == 0:
        return 0.0
    if not np.all(np.isfinite(M)):
        return float("nan")
    return float(np.linalg.norm(M, 2))


def all_finite(*arrays):
    return all(bool(np.all(np.isfinite(np.asarray(a)))) for a in arrays)


def unitarity_defect(U):
    U = np.asarray(U)
    return maxabs(U @ U.conj().T - np.eye(len(U)))


# ---------------------------------------------------------------------------------------
# passive circuits


def beamsplitter_matrix(theta, phi):
    t = math.cos(theta)
    r = np.exp(1j * phi) * math.sin(theta)
    return np.array([[t, -np.conj(r)], [r, t]], dtype=complex)


def unitary_of_gate_list(gates, d):
    """gates: list of ("Phaseshifter", (m,), {"phi": ..}) / ("Beamsplitter", (i, j),
    {"theta": .., "phi": ..}) applied in list order."""
    U = np.eye(d, dtype=complex)
    for name, modes, params in gates:
        G = np.eye(d, dtype=complex)
        if name == "Phaseshifter":
            (m,) = modes
            G[m, m] = np.exp(1j * float(params["phi"]))
        elif name == "Beamsplitter":
            i, j = modes
            B = beamsplitter_matrix(float(params["theta"]), float(params["phi"]))
            G[np.ix_([i, j], [i, j])] = B
        else:
            raise ValueError("unexpected gate %r" % (name,))
        U = G @ U
    return U


# ---------------------------------------------------------------------------------------
# symplectic matrices


def omega_xxpp(d):
    Z = np.zeros((d, d))
    I = np.eye(d)
    return np.block([[Z, I], [-I, Z]])


def passive_xxpp(U):
    U = np.asarray(U, dtype=complex)
    return np.block([[U.real, -U.imag], [U.imag, U.real]])


def squeezer_xxpp(rs):
    rs = np.asarray(rs, dtype=float)
    return np.diag(np.concatenate([np.exp(-rs), np.exp(rs)]))


def embed_modes_xxpp(S_small, modes, d):
    """embed a 2k x 2k xxpp symplectic acting on `modes` into d modes"""
    k = len(modes)
    idx = list(modes) + [d + m for m in modes]
    S = np.eye(2 * d)
    S[np.ix_(idx, idx)] = S_small
    assert S_small.shape == (2 * k, 2 * k)
    return S


def complex_form(P, A):
    P = np.asarray(P, dtype=complex)
    A = np.asarray(A, dtype=complex)
    return np.block([[P, A], [A.conj(), P.conj()]])


def embed_complex_form(P, A, modes, d):
    Pf = np.eye(d, dtype=complex)
    Af = np.zeros((d, d), dtype=complex)
    ix = np.ix_(list(modes), list(modes))
    Pf[ix] = P
    Af[ix] = A
    return complex_form(Pf, Af)


def is_complex_symplectic(S, tol=1e-10):
    d = len(S) // 2
    K = np.diag([1.0] * d + [-1.0] * d)
    if maxabs(S @ K @ S.conj().T - K) > tol * max(1.0, spectral_norm(S) ** 2):
        return False
    P, A = S[:d, :d], S[:d, d:]
    return maxabs(S[d:, :d] - A.conj()) <= tol and maxabs(S[d:, d:] - P.conj()) <= tol


def gate_blocks(name, params):
    """(P, A) blocks of the documented one/two-mode gates used as Euler inputs"""
    if name == "S":  # Squeezing(r, phi)
        r, phi = params
        return np.array([[math.cosh(r)]]), np.array([[-math.sinh(r) * np.exp(1j * phi)]])
    if name == "P":  # Phaseshifter(phi)
        (phi,) = params
        return np.array([[np.exp(1j * phi)]]), np.zeros((1, 1))
    if name == "Q":  # QuadraticPhase(s)
        (s,) = params
        return np.array([[1 + 0.5j * s]]), np.array([[0.5j * s]])
    if name == "B":  # Beamsplitter(theta, phi)
        theta, phi = params
        return beamsplitter_matrix(theta, phi), np.zeros((2, 2))
    if name == "S2":  # Squeezing2(r, phi)
        r, phi = params
        return math.cosh(r) * np.eye(2), math.sinh(r) * np.exp(1j * phi) * np.array([[0, 1], [1, 0]])
    if name == "CX":  # ControlledX(s)
        (s,) = params
        return np.array([[1, -s / 2], [s / 2, 1]]), np.array([[0, s / 2], [s / 2, 0]])
    raise ValueError(name)


def euler_recompose(U_last, squeezings, U_first):
    """complex-form symplectic of: interferometer U_first, then Squeezing(r_k, phi=0) on
    every mode, then interferometer U_last (this is how the library consumes euler())."""
    r = np.asarray(squeezings)
    ch, sh = np.diag(np.cosh(r)), np.diag(np.sinh(r))
    Z = np.zeros_like(ch)
    mid = np.block([[ch, -sh], [-sh, ch]])
    first = np.block([[U_first, Z], [Z, np.conj(U_first)]])
    last = np.block([[U_last, Z], [Z, np.conj(U_last)]])
    return last @ mid @ first


# ---------------------------------------------------------------------------------------
# Gaussian states


def W_matrix(d):
    I = np.eye(d)
    return np.block([[I, 1j * I], [I, -1j * I]]) / math.sqrt(2)


def mean_photon_numbers(cov_xxpp, mean_xxpp, hbar):
    """<n_i> of a Gaussian state from its xxpp moments (vacuum covariance = hbar * 1)"""
    cov = np.asarray(cov_xxpp, dtype=float)
    mu = np.asarray(mean_xxpp, dtype=float)
    d = len(cov) // 2
    out = []
    for i in range(d):
        xx, pp = cov[i, i], cov[d + i, d + i]
        out.append((xx + pp) / (4 * hbar) - 0.5 + (mu[i] ** 2 + mu[d + i] ** 2) / (2 * hbar))
    return np.array(out)


def gbs_A_matrix(cov_xxpp, hbar):
    cov = np.asarray(cov_xxpp, dtype=float)
    d = len(cov) // 2
    W = W_matrix(d)
    sigma_c = W @ cov @ W.conj().T / hbar
    Q = sigma_c / 2 + np.eye(2 * d) / 2
    X = np.block([[np.zeros((d, d)), np.eye(d)], [np.eye(d), np.zeros((d, d))]])
    return X @ (np.eye(2 * d) - np.linalg.inv(Q))


def proportionality_defect(B, A):
    """min over c >= 0 of max|B - c A| (least squares c), relative to max(1, |A|)"""
    A = np.asarray(A, dtype=complex)
    B = np.asarray(B, dtype=complex)
    denom = np.vdot(A, A).real
    if denom == 0:
        return maxabs(B), 0.0
    c = np.vdot(A, B) / denom
    return maxabs(B - c * A), c


# ---------------------------------------------------------------------------------------
# spectrum classes (for violation signatures)


def multiplicity_class(values, rel=1e-9):
    """'repeated_zero' (>= 2 zeros), 'repeated_nonzero', 'near_repeated', 'distinct'
    flags of a list of non-negative values, independent of the library's grouping."""
    v = np.sort(np.abs(np.asarray(values, dtype=float)))[::-1]
    top = v[0] if len(v) and v[0] > 0 else 1.0
    zeros = int(np.sum(v <= rel * top))
    nz = v[v > rel * top]
    rep = near = False
    for a, b in zip(nz[:-1], nz[1:]):
        if abs(a - b) <= rel * top:
            rep = True
        elif abs(a - b) <= 1e-4 * top:
            near = True
    return {"zeros": zeros, "repeated_nonzero": rep, "near_repeated": near}
