"""Gaussian states by symplectic congruence and the exact laws of Gaussian measurements --
reference model of C02 (general-dyne / homodyne / heterodyne arguments, threshold detection).
No piquasso imports.

Conventions
-----------
* quadratures x = sqrt(hbar/2)(a + a+), p = -i sqrt(hbar/2)(a - a+), ordering
  R = (x_1, p_1, ..., x_d, p_d) ("xpxp");
* ``mean`` = <R>, ``cov`` = the TRUE covariance Cov(R_i, R_j) = <{dR_i, dR_j}>/2.  Piquasso's
  documented ``xpxp_covariance_matrix`` is sigma = <R_i R_j + R_j R_i> - 2<R_i><R_j> = 2 Cov
  (vacuum: sigma = hbar * 1, Cov = hbar/2 * 1): use ``sigma()`` for the library's convention;
* gates as documented in piquasso.instructions.gates:
  Squeezing  a -> cosh r a - e^{i phi} sinh r a+,
  Beamsplitter (modes i, j)  a_i -> t a_i - conj(r) a_j, a_j -> r a_i + t a_j,
      t = cos theta, r = e^{i phi} sin theta,
  Phaseshifter a -> e^{i phi} a,  Displacement a -> a + r e^{i phi},
  Thermal(nbar): sigma = hbar (2 nbar + 1).
"""

import itertools

import numpy as np


class GaussRef:
    def __init__(self, d, hbar=2.0):
        self.d = d
        self.hbar = float(hbar)
        self.mean = np.zeros(2 * d)
        self.cov = np.eye(2 * d) * self.hbar / 2

    # -- state preparation ----------------------------------------------------------------
    def thermal(self, nbars):
        diag = []
        for nb in nbars:
            diag += [self.hbar / 2 * (2 * nb + 1)] * 2
        self.mean = np.zeros(2 * self.d)
        self.cov = np.diag(diag)
        return self

    def _bogoliubov(self, modes, P, A):
        """a_modes -> P a_modes + A a_modes^+ ; real symplectic on (x.., p..) of these modes:
        x' = Re(P+A) x - Im(P-A) p,  p' = Im(P+A) x + Re(P-A) p."""
        k = len(modes)
        P = np.asarray(P, dtype=complex)
        A = np.asarray(A, dtype=complex)
        Sxxpp = np.block([[(P + A).real, -(P - A).imag], [(P + A).imag, (P - A).real]])
        S = np.eye(2 * self.d)
        idx = [2 * m for m in modes] + [2 * m + 1 for m in modes]
        S[np.ix_(idx, idx)] = Sxxpp
        self.mean = S @ self.mean
        self.cov = S @ self.cov @ S.T
        return self

    def squeeze(self, mode, r, phi=0.0):
        return self._bogoliubov([mode], [[np.cosh(r)]], [[-np.exp(1j * phi) * np.sinh(r)]])

    def phaseshift(self, mode, phi):
        return self._bogoliubov([mode], [[np.exp(1j * phi)]], [[0.0]])

    def beamsplitter(self, i, j, theta, phi=0.0):
        t = np.cos(theta)
        r = np.exp(1j * phi) * np.sin(theta)
        return self._bogoliubov([i, j], [[t, -np.conj(r)], [r, t]], np.zeros((2, 2)))

    def interferometer(self, modes, U):
        return self._bogoliubov(list(modes), U, np.zeros_like(np.asarray(U)))

    def displace(self, mode, r, phi=0.0):
        alpha = r * np.exp(1j * phi)
        self.mean = self.mean.copy()
        self.mean[2 * mode] += np.sqrt(2 * self.hbar) * alpha.real
        self.mean[2 * mode + 1] += np.sqrt(2 * self.hbar) * alpha.imag
        return self

    # -- views ----------------------------------------------------------------------------
    def sigma(self):
        return 2.0 * self.cov

    @staticmethod
    def indices(modes):
        out = []
        for m in modes:
            out += [2 * m, 2 * m + 1]
        return out

    def reduced(self, modes):
        idx = self.indices(modes)
        return self.mean[idx].copy(), self.cov[np.ix_(idx, idx)].copy()

    # -- measurements -----------------------------------------------------------------------
    def generaldyne_law(self, modes, detection_covariance, phi=0.0):
        """Exact law of the general-dyne outcome (x_m1, p_m1, x_m2, ...) on the ordered modes:
        a normal distribution with mean <R>[modes] and TRUE covariance
        Cov[modes] + hbar*sigma_m/2 = (sigma + hbar sigma_m)/2, sigma_m = the detection covariance
        of a single mode in units where the vacuum is 1.  phi: the measured quadratures are first
        rotated, x_phi = cos(phi) x + sin(phi) p, p_phi = -sin(phi) x + cos(phi) p (homodyne)."""
        mean, cov = self.reduced(modes)
        k = len(modes)
        if phi != 0.0:
            c, s = np.cos(phi), np.sin(phi)
            R1 = np.array([[c, s], [-s, c]])
            R = np.kron(np.eye(k), R1)
            mean = R @ mean
            cov = R @ cov @ R.T
        sm = np.kron(np.eye(k), np.asarray(detection_covariance, dtype=float))
        return mean, cov + self.hbar * sm / 2.0

    def vacuum_probability(self, modes):
        """P(no photon in every listed mode) = exp(-m^T (Cov + hbar/2)^-1 m / 2) /
        sqrt(det((Cov + hbar/2)/hbar))."""
        modes = list(modes)
        if not modes:
            return 1.0
        mean, cov = self.reduced(modes)
        M = cov + np.eye(len(mean)) * self.hbar / 2
        return float(np.exp(-0.5 * mean @ np.linalg.solve(M, mean)) / np.sqrt(np.linalg.det(M / self.hbar)))

    def threshold_law(self, modes):
        """Exact law of click patterns on the ordered modes by inclusion-exclusion over the
        no-click probabilities."""
        modes = list(modes)
        law = {}
        for pattern in itertools.product((0, 1), repeat=len(modes)):
            zeros = [m for m, c in zip(modes, pattern) if c == 0]
            ones = [m for m, c in zip(modes, pattern) if c == 1]
            p = 0.0
            for k in range(len(ones) + 1):
                for S in itertools.combinations(ones, k):
                    p += (-1) ** k * self.vacuum_probability(zeros + list(S))
            law[pattern] = p
        return law

    # -- the quantities the Gaussian photon-number sampler works with (hbar = 2 units) ------
    def xxpp_hbar2(self, modes):
        """(mean, V) of the ordered modes in xxpp ordering, rescaled to hbar = 2 where V = Cov
        and the vacuum is the identity."""
        mean, cov = self.reduced(modes)
        k = len(modes)
        perm = [2 * i for i in range(k)] + [2 * i + 1 for i in range(k)]
        f = 2.0 / self.hbar
        return np.sqrt(f) * mean[perm], f * cov[np.ix_(perm, perm)]
