"""Boring, independent, exact reference for boson sampling with loss, post-selection and
partial distinguishability.  Imports nothing from piquasso.

Conventions (the documented ones of piquasso):

* a (possibly lossy) linear circuit on d modes is its one-particle transfer matrix T (d x d
  complex, singular values in [0, 1]): the creation operator of input mode p evolves to
  sum_m T[m, p] a^dagger_m (+ loss modes);
* a lossy circuit is the upper-left block of a unitary W on 2d modes (d system + d loss
  modes, the loss modes start in the vacuum and are never looked at): `dilate`;
* photon i (photons are ordered by increasing input mode, `first_quantized`) carries an
  internal state |phi_i> and the Gram matrix is G[i, j] = <phi_i | phi_j> (antilinear in the
  first slot);
* a post-selection keeps the *un-normalised* joint probabilities of the post-selected
  pattern with the outcomes on the remaining modes.

Three independent routes to the same numbers are implemented and cross-validated by
`self_test`:

  1. `internal_mode_table`  -- literal simulation: every photon is a linear form in the
     creation operators of the modes (spatial mode of the dilation) x (internal basis state),
     the product of the n linear forms is expanded into monomials, |amplitude|^2 is summed
     over internal labels and over the loss modes.  Ground truth, slow.
  2. `dilation_table`       -- permanents of sub-matrices of W (indistinguishable photons)
     or the closed-form permutation double sum (Gram matrix), summed over the loss patterns.
  3. `kernel_table`         -- coefficient extraction [x^s] Per(G o (L + sum_m x_m D_m)) / N
     with L = 1 - T^dagger T restricted to the photons, D_m[i, j] = conj(T[m, r_i]) T[m, r_j].
     (With `transpose_detected=True` it is the *model of a defect*: D_m transposed.)
"""

import itertools
import math

import numpy as np

# ---------------------------------------------------------------------------------------
# combinatorics


def sector(d, n):
    """compositions of n into d parts, anti-lexicographic order"""
    if d == 0:
        return [()] if n == 0 else []
    out = []

    def rec(prefix, rem, left):
        if left == 1:
            out.append(prefix + (rem,))
            return
        for x in range(rem, -1, -1):
            rec(prefix + (x,), rem - x, left - 1)

    rec((), n, d)
    return out


def basis(d, cutoff):
    """all occupation vectors on d modes with total < cutoff (total ascending, anti-lex)"""
    out = []
    for n in range(max(cutoff, 0)):
        out.extend(sector(d, n))
    return out


def first_quantized(occ):
    """[2, 0, 1] -> (0, 0, 2): the input mode of every photon, photons ordered by mode"""
    out = []
    for m, k in enumerate(occ):
        out.extend([m] * int(k))
    return tuple(out)


def _fact_prod(occ):
    p = 1
    for k in occ:
        p *= math.factorial(int(k))
    return p


_PERMS = {}


def perms(n):
    if n not in _PERMS:
        _PERMS[n] = list(itertools.permutations(range(n)))
    return _PERMS[n]


# ---------------------------------------------------------------------------------------
# permanents


def permanent_expand(A):
    """definition: sum over permutations"""
    A = np.asarray(A)
    n = A.shape[0]
    if n == 0:
        return 1.0 + 0.0j
    total = 0.0 + 0.0j
    for p in perms(n):
        t = 1.0 + 0.0j
        for i in range(n):
            t *= A[i, p[i]]
        total += t
    return total


def permanent(A):
    """Ryser's formula, plain Python complex arithmetic"""
    A = np.asarray(A)
    n = A.shape[0]
    if n == 0:
        return 1.0 + 0.0j
    rows = [[complex(A[i, j]) for j in range(n)] for i in range(n)]
    total = 0.0 + 0.0j
    for subset in range(1, 1 << n):
        prod = 1.0 + 0.0j
        for i in range(n):
            s = 0.0 + 0.0j
            row = rows[i]
            for j in range(n):
                if subset >> j & 1:
                    s += row[j]
            prod *= s
        if (n - bin(subset).count("1")) % 2:
            total -= prod
        else:
            total += prod
    return total


# ---------------------------------------------------------------------------------------
# dilation


def singular_values(T):
    return np.linalg.svd(np.asarray(T, dtype=complex), compute_uv=False)


def dilate(T, tol=1e-9):
    """Unitary W on 2d modes with W[:d, :d] == T (Halmos dilation through the SVD):
    W = [[T, U C U^dagger], [V C V^dagger, -V S U^dagger]],  T = U S V^dagger, C = sqrt(1 - S^2)."""
    T = np.asarray(T, dtype=complex)
    d = T.shape[0]
    if T.shape != (d, d):
        raise ValueError("square matrix expected")
    if d == 0:
        return np.zeros((0, 0), dtype=complex)
    U, s, Vh = np.linalg.svd(T)
    if s.max() > 1.0 + tol:
        raise ValueError("not a contraction: singular values %r" % (s,))
    s = np.clip(s, 0.0, 1.0)
    c = np.sqrt(1.0 - s * s)
    V = Vh.conj().T
    W = np.zeros((2 * d, 2 * d), dtype=complex)
    W[:d, :d] = T
    W[:d, d:] = (U * c) @ U.conj().T
    W[d:, :d] = (V * c) @ Vh
    W[d:, d:] = -(V * s) @ U.conj().T
    err = np.abs(W.conj().T @ W - np.eye(2 * d)).max()
    if err > 1e-10:
        raise ArithmeticError("dilation is not unitary (error %g)" % err)
    return W


# ---------------------------------------------------------------------------------------
# Gram matrices


def gram_uniform(n, overlap):
    return overlap * np.ones((n, n), dtype=complex) + (1.0 - overlap) * np.eye(n, dtype=complex)


def gram_factor(G, tol=1e-9):
    """Phi (k x n) with Phi^dagger Phi == G, i.e. <phi_i|phi_j> = G[i, j] for phi_i = Phi[:, i]."""
    G = np.asarray(G, dtype=complex)
    n = G.shape[0]
    if n == 0:
        return np.zeros((1, 0), dtype=complex)
    if np.abs(G - G.conj().T).max() > tol:
        raise ValueError("Gram matrix is not Hermitian")
    w, V = np.linalg.eigh(G)
    if w.min() < -tol:
        raise ValueError("Gram matrix is not positive semidefinite")
    keep = [i for i in range(n) if w[i] > 1e-13]
    if not keep:
        keep = [n - 1]
    Phi = np.array([math.sqrt(max(w[i], 0.0)) * V[:, i].conj() for i in keep])
    if np.abs(Phi.conj().T @ Phi - G).max() > 1e-10:
        raise ArithmeticError("Gram factorisation failed")
    return Phi


def input_norm(occ, G):
    """<psi|psi> of prod_i a^dagger_{r_i, phi_i} |0>: product over the input modes of the
    permanent of the Gram block of the photons sharing that mode."""
    G = np.asarray(G, dtype=complex)
    norm = 1.0 + 0.0j
    start = 0
    for k in occ:
        k = int(k)
        if k > 1:
            norm *= permanent_expand(G[start:start + k, start:start + k])
        start += k
    return norm


# ---------------------------------------------------------------------------------------
# route 1: literal internal-mode simulation by polynomial expansion


def _expand_linear_forms(forms):
    """forms: list of dicts {variable: coefficient}; returns {sorted tuple of variables: coeff}
    of the product (a monomial is the sorted multiset of its variables)."""
    poly = {(): 1.0 + 0.0j}
    for form in forms:
        nxt = {}
        items = [(v, c) for v, c in form.items() if c != 0]
        for mono, a in poly.items():
            for v, c in items:
                key = tuple(sorted(mono + (v,)))
                nxt[key] = nxt.get(key, 0.0) + a * c
        poly = nxt
    return poly


def _mono_weight(mono):
    # (a^dagger)^t |0> = sqrt(t!) |t>  ->  probability = |coeff|^2 * prod t!
    w = 1
    for v in set(mono):
        w *= math.factorial(mono.count(v))
    return w


def internal_mode_table(occ, T, G=None):
    """{system outcome (d-tuple): probability}; G None = indistinguishable photons."""
    T = np.asarray(T, dtype=complex)
    d = T.shape[0]
    r = first_quantized(occ)
    n = len(r)
    if G is None:
        G = np.ones((n, n), dtype=complex)
    Phi = gram_factor(G)
    k = Phi.shape[0]
    W = dilate(T)
    # norm of the input state, by the same machinery on the identity circuit
    forms_in = [{(r[i], a): Phi[a, i] for a in range(k)} for i in range(n)]
    norm = sum(abs(c) ** 2 * _mono_weight(m) for m, c in _expand_linear_forms(forms_in).items())
    forms = []
    for i in range(n):
        f = {}
        for m in range(2 * d):
            for a in range(k):
                f[(m, a)] = W[m, r[i]] * Phi[a, i]
        forms.append(f)
    table = {}
    for mono, c in _expand_linear_forms(forms).items():
        p = abs(c) ** 2 * _mono_weight(mono) / norm
        s = [0] * d
        for (m, _a) in mono:
            if m < d:
                s[m] += 1
        s = tuple(s)
        table[s] = table.get(s, 0.0) + p
    return _complete(table, d, n)


def _complete(table, d, n):
    out = {}
    for k in range(n + 1):
        for s in sector(d, k):
            out[s] = float(np.real(table.get(s, 0.0)))
    return out


# ---------------------------------------------------------------------------------------
# route 2: permanents / permutation double sum on the dilation


def _perm_index_arrays(n):
    if n == 0:
        return np.zeros((1, 0), dtype=int)
    return np.array(perms(n), dtype=int).reshape(-1, n)  # (n!, n)


def dilation_table(occ, T, G=None):
    """{system outcome: probability} through the SVD dilation.

    G None: P(s) = sum_l |Per(W[(s,l), r])|^2 / (s! l! r!)
    G:      P(s) = sum_l 1/(N s! l!) sum_{sigma,tau} prod_k W[o_k, r_sigma(k)] conj(W[o_k, r_tau(k)]) G[tau(k), sigma(k)]
    """
    T = np.asarray(T, dtype=complex)
    d = T.shape[0]
    r = first_quantized(occ)
    n = len(r)
    W = dilate(T)
    table = {}
    rfact = _fact_prod(occ)
    if G is not None:
        G = np.asarray(G, dtype=complex)
        norm = input_norm(occ, G)
        P = _perm_index_arrays(n)
        ar = np.arange(n)
    for o in sector(2 * d, n):
        rows = first_quantized(o)
        M = W[np.ix_(rows, r)] if n else np.zeros((0, 0), dtype=complex)
        if G is None:
            p = abs(permanent(M)) ** 2 / (_fact_prod(o) * rfact)
        elif n == 0:
            p = 1.0
        else:
            # A[k, i, j] = M[k, i] conj(M[k, j]) G[j, i];  sum_{sigma,tau} prod_k A[k, sigma(k), tau(k)]
            A = M[:, :, None] * M.conj()[:, None, :] * G.T[None, :, :]
            X = A[ar[None, None, :], P[:, None, :], P[None, :, :]]  # (n!, n!, n)
            p = np.prod(X, axis=2).sum() / (norm * _fact_prod(o))
            p = float(np.real(p))
        s = tuple(o[:d])
        table[s] = table.get(s, 0.0) + p
    return _complete(table, d, n)


def classical_table(occ, T):
    """fully distinguishable particles: every photon independently goes to output m with
    probability |T[m, r_i]|^2 and is lost with the remaining probability."""
    T = np.asarray(T, dtype=complex)
    d = T.shape[0]
    table = {(0,) * d: 1.0}
    for p in first_quantized(occ):
        probs = [abs(T[m, p]) ** 2 for m in range(d)]
        lost = 1.0 - sum(probs)
        nxt = {}
        for s, w in table.items():
            nxt[s] = nxt.get(s, 0.0) + w * lost
            for m in range(d):
                t = list(s)
                t[m] += 1
                t = tuple(t)
                nxt[t] = nxt.get(t, 0.0) + w * probs[m]
        table = nxt
    return _complete(table, d, sum(int(k) for k in occ))


# ---------------------------------------------------------------------------------------
# route 3: loss-kernel generating function (no dilation)


def _poly_mul(a, b, maxdeg):
    out = {}
    for ka, va in a.items():
        for kb, vb in b.items():
            k = tuple(x + y for x, y in zip(ka, kb))
            if sum(k) <= maxdeg:
                out[k] = out.get(k, 0.0) + va * vb
    return out


def kernel_table(occ, T, G=None, transpose_detected=False):
    """P(s) = [x^s] Per(G o (L + sum_m x_m D_m)) / N.  `transpose_detected=True` uses D_m^T
    (the model of the defect 'outer(v, conj v) instead of outer(conj v, v)')."""
    T = np.asarray(T, dtype=complex)
    d = T.shape[0]
    r = first_quantized(occ)
    n = len(r)
    if G is None:
        G = np.ones((n, n), dtype=complex)
    G = np.asarray(G, dtype=complex)
    norm = input_norm(occ, G)
    Tr = T[:, r] if n else np.zeros((d, 0), dtype=complex)
    L = np.eye(len(T), dtype=complex)[np.ix_(r, r)] - Tr.conj().T @ Tr if n else np.zeros((0, 0))
    D = []
    for m in range(d):
        v = Tr[m]
        Dm = np.outer(v.conj(), v)
        D.append(Dm.T if transpose_detected else Dm)
    zero = (0,) * d
    unit = [tuple(1 if j == m else 0 for j in range(d)) for m in range(d)]
    total = {}
    for p in perms(n):
        poly = {zero: 1.0 + 0.0j}
        for i in range(n):
            j = p[i]
            entry = {zero: G[i, j] * L[i, j]}
            for m in range(d):
                entry[unit[m]] = G[i, j] * D[m][i, j]
            poly = _poly_mul(poly, entry, n)
        for k, v in poly.items():
            total[k] = total.get(k, 0.0) + v
    return _complete({k: np.real(v / norm) for k, v in total.items()}, d, n)


# ---------------------------------------------------------------------------------------
# post-selection, marginals


def restrict(table, post):
    """post: {absolute mode: photon count}.  Returns ({outcome on the remaining modes in
    increasing mode order: joint probability}, success probability)."""
    out = {}
    for s, p in table.items():
        if all(s[m] == c for m, c in post.items()):
            key = tuple(x for m, x in enumerate(s) if m not in post)
            out[key] = out.get(key, 0.0) + p
    return out, sum(out.values())


def marginal(table, modes):
    """marginal on the ordered mode tuple (indices into the table's keys)"""
    out = {}
    for s, p in table.items():
        key = tuple(s[m] for m in modes)
        out[key] = out.get(key, 0.0) + p
    return out


def max_abs_diff(a, b):
    keys = set(a) | set(b)
    return max((abs(a.get(k, 0.0) - b.get(k, 0.0)) for k in keys), default=0.0)


# ---------------------------------------------------------------------------------------
# self test: the three routes agree; overlap 1 = indistinguishable; overlap 0 = classical


def _unitary(rng, d):
    z = rng.normal(size=(d, d)) + 1j * rng.normal(size=(d, d))
    q, rr = np.linalg.qr(z)
    return q * (np.diag(rr) / np.abs(np.diag(rr)))


def complex_gram(n, rng=None, rank=2):
    """rank-`rank` complex Hermitian PSD Gram matrix with unit diagonal and (generically)
    non-zero triad phases"""
    rng = rng or np.random.default_rng(7)
    Phi = rng.normal(size=(rank, n)) + 1j * rng.normal(size=(rank, n))
    Phi = Phi / np.linalg.norm(Phi, axis=0)
    return Phi.conj().T @ Phi


def triad_phase(G):
    """largest |Im(G_ij G_jk G_ki)| over triples (0 for n < 3)"""
    G = np.asarray(G, dtype=complex)
    n = G.shape[0]
    best = 0.0
    for i, j, k in itertools.combinations(range(n), 3):
        best = max(best, abs((G[i, j] * G[j, k] * G[k, i]).imag))
    return best


def self_test(seed=0, tol=1e-12):
    """raises AssertionError when the independent routes disagree; returns the number of
    table comparisons made"""
    rng = np.random.default_rng(4242 + seed)
    n_cmp = 0
    # permanents
    for n in range(0, 5):
        A = rng.normal(size=(n, n)) + 1j * rng.normal(size=(n, n))
        assert abs(permanent(A) - permanent_expand(A)) < 1e-11, "Ryser vs definition"
    assert abs(permanent(np.ones((4, 4))) - 24) < 1e-12
    cases = []
    for d in (1, 2, 3):
        U = _unitary(rng, d)
        Tc = np.diag(rng.uniform(0.3, 1.0, size=d)) @ U  # complex non-uniform loss
        Tc2 = _unitary(rng, d) @ np.diag(rng.uniform(0.0, 1.0, size=d)) @ U
        Trd = Tc2.copy()
        Trd[:, 0] = 0.0
        for T in (U, Tc, Tc2, 0.6 * U, Trd, np.zeros((d, d))):
            for n in range(0, 4):
                for occ in sector(d, n):
                    cases.append((occ, T))
    for occ, T in cases:
        n = sum(occ)
        d = len(occ)
        if d == 3 and n == 3 and occ not in ((1, 1, 1), (2, 1, 0), (0, 3, 0), (1, 0, 2)):
            continue
        a = internal_mode_table(occ, T)
        b = dilation_table(occ, T)
        c = kernel_table(occ, T)
        assert max_abs_diff(a, b) < tol and max_abs_diff(a, c) < tol, ("indistinguishable", occ)
        assert abs(sum(a.values()) - 1) < tol
        n_cmp += 2
        grams = [("ones", np.ones((n, n), dtype=complex)), ("id", np.eye(n, dtype=complex)),
                 ("u0.4", gram_uniform(n, 0.4))]
        if n >= 2:
            grams.append(("cplx", complex_gram(n, rng)))
        for name, G in grams:
            g1 = internal_mode_table(occ, T, G)
            g2 = dilation_table(occ, T, G)
            g3 = kernel_table(occ, T, G)
            assert max_abs_diff(g1, g2) < tol and max_abs_diff(g1, g3) < tol, ("gram", name, occ)
            assert abs(sum(g1.values()) - 1) < tol
            n_cmp += 2
            if name == "ones":
                assert max_abs_diff(g2, b) < tol, "overlap 1 must be indistinguishable"
            if name == "id":
                assert max_abs_diff(g2, classical_table(occ, T)) < tol, "overlap 0 must be classical"
            n_cmp += 1
    # the defect model differs from the truth exactly where expected
    U = _unitary(rng, 3)
    G = complex_gram(3, rng)
    assert triad_phase(G) > 1e-3
    t = kernel_table((1, 1, 1), U, G)
    m = kernel_table((1, 1, 1), U, G, transpose_detected=True)
    assert max_abs_diff(t, m) > 1e-6 and max_abs_diff(m, kernel_table((1, 1, 1), U, G.T)) < tol
    return n_cmp
