"""Reference model of C18(v): linear combinations of number-state preparations.

An expression tree is a nested tuple
    ("leaf", kind, occ...)            kind in NS (NumberState), SV (StateVector), F1 / F2 (FockStateVector
                                      with one / two entries)
    ("add", left, right)
    ("lmul", c_index, t)   c * t      ("rmul", c_index, t)   t * c      ("div", c_index, t)   t / c
and denotes the amplitude map  {occupation: amplitude}  computed here with plain dict arithmetic.
Nothing in this module imports piquasso.
"""

import itertools

# fixed amplitudes of the FockStateVector leaves (per slot, so that no two terms can cancel or coincide)
F_AMPS = [0.75, (0.5 - 0.25j), -1.25, (0.125 + 0.5j), 0.625]
# generic scalars, one per node position (distinct, none of modulus 1, so that a dropped factor is visible)
SCALARS = [2.0, (0.5 + 0.5j), -0.25, 3.5, (0.0 - 1.5j), 0.125, 1.75, (-0.5 + 2.0j), 0.3, 7.0, -1.1, (1.5 + 0.5j), 0.6]


def leaf_map(leaf):
    kind = leaf[1]
    occs = leaf[2:]
    if kind in ("NS", "SV"):
        return {tuple(occs[0]): 1.0}
    if kind == "F1":
        return {tuple(occs[0]): F_AMPS[0]}
    if kind == "F2":
        return {tuple(occs[0]): F_AMPS[1], tuple(occs[1]): F_AMPS[2]}
    raise ValueError(kind)


def denote(t):
    k = t[0]
    if k == "leaf":
        return leaf_map(t)
    if k == "add":
        a, b = denote(t[1]), denote(t[2])
        out = dict(a)
        for occ, amp in b.items():
            out[occ] = out.get(occ, 0) + amp
        return out
    c = SCALARS[t[1] % len(SCALARS)]
    m = denote(t[2])
    if k in ("lmul", "rmul"):
        return {occ: amp * c for occ, amp in m.items()}
    if k == "div":
        return {occ: amp / c for occ, amp in m.items()}
    raise ValueError(k)


def shapes(k):
    """all full binary trees with k leaves (every parenthesisation of k operands); leaves are None"""
    if k == 1:
        return [None]
    out = []
    for i in range(1, k):
        for l in shapes(i):
            for r in shapes(k - i):
                out.append((l, r))
    return out


def nodes_of(shape):
    """node paths of a shape in post-order; a path is a tuple of 0/1 (left/right) from the root"""
    out = []

    def rec(s, path):
        if s is not None:
            rec(s[0], path + (0,))
            rec(s[1], path + (1,))
        out.append(path)

    rec(shape, ())
    return out


def build(shape, leaves, decorations):
    """shape with its leaves filled left to right from `leaves`; `decorations` maps node path ->
    (op, scalar index) with op in lmul / rmul / div, applied on top of that node"""
    it = iter(leaves)

    def rec(s, path):
        if s is None:
            t = next(it)
        else:
            t = ("add", rec(s[0], path + (0,)), rec(s[1], path + (1,)))
        for op, ci in decorations.get(path, ()):
            t = (op, ci, t)
        return t

    return rec(shape, ())


def decoration_sets(shape, max_decorated):
    """every assignment of at most `max_decorated` single decorations (op in lmul/rmul/div) to nodes;
    the scalar index of a decoration is the node's post-order position"""
    nodes = nodes_of(shape)
    idx = {p: i for i, p in enumerate(nodes)}
    out = [{}]
    for m in range(1, max_decorated + 1):
        for subset in itertools.combinations(nodes, m):
            for ops in itertools.product(("lmul", "rmul", "div"), repeat=m):
                out.append({p: ((op, idx[p]),) for p, op in zip(subset, ops)})
    return out


def full_decoration_sets(shape):
    """every node independently undecorated / lmul / rmul / div"""
    nodes = nodes_of(shape)
    idx = {p: i for i, p in enumerate(nodes)}
    out = []
    for ops in itertools.product((None, "lmul", "rmul", "div"), repeat=len(nodes)):
        out.append({p: ((op, idx[p]),) for p, op in zip(nodes, ops) if op})
    return out


def show(t):
    k = t[0]
    if k == "leaf":
        if t[1] in ("NS", "SV"):
            return "%s%s" % (t[1], list(t[2]))
        return "%s%s" % (t[1], [list(o) for o in t[2:]])
    if k == "add":
        return "(%s + %s)" % (show(t[1]), show(t[2]))
    c = SCALARS[t[1] % len(SCALARS)]
    if k == "lmul":
        return "%r*%s" % (c, show(t[2]))
    if k == "rmul":
        return "%s*%r" % (show(t[2]), c)
    return "%s/%r" % (show(t[2]), c)
