"""Exact Born laws of photon-number measurements behind (lossy) linear optics -- reference
model of C02/C03.  Boring on purpose: brute-force permanents, explicit sums over
permutations, explicit unitary dilation of a contraction.  No piquasso imports.

Conventions (piquasso's documentation): a transfer matrix ``T`` maps input mode ``j`` to output
mode ``i`` with amplitude ``T[i, j]``; occupation tuples list modes in ascending order; the
labelled photons of a partially distinguishable input are ordered by ascending input mode and
``G[i, j] = <phi_i|phi_j>``.

All laws are dicts ``{occupation tuple: probability}``.
"""

import itertools
import math

import numpy as np


def first_quantized(occ):
    out = []
    for m, n in enumerate(occ):
        out += [m] * int(n)
    return out


def occupations(d, n):
    """All occupation tuples of n particles in d modes."""
    if d == 0:
        return [()] if n == 0 else []
    out = []
    for head in range(n, -1, -1):
        for tail in occupations(d - 1, n - head):
            out.append((head,) + tail)
    return out


def permanent(M):
    M = np.asarray(M)
    n = M.shape[0]
    if n == 0:
        return 1.0 + 0.0j
    total = 0.0 + 0.0j
    for perm in itertools.permutations(range(n)):
        t = 1.0 + 0.0j
        for i, j in enumerate(perm):
            t *= M[i, j]
        total += t
    return total


def _psd_sqrt(H):
    w, v = np.linalg.eigh((H + H.conj().T) / 2)
    w = np.clip(w, 0.0, None)
    return (v * np.sqrt(w)) @ v.conj().T


def unitary_dilation(T):
    """Halmos dilation of a contraction T (d x d): the 2d x 2d unitary
    [[T, sqrt(1-TT+)], [sqrt(1-T+T), -T+]]; rows/columns d..2d-1 are the loss modes."""
    T = np.asarray(T, dtype=complex)
    d = T.shape[0]
    I = np.eye(d)
    U = np.block([[T, _psd_sqrt(I - T @ T.conj().T)], [_psd_sqrt(I - T.conj().T @ T), -T.conj().T]])
    err = np.max(np.abs(U @ U.conj().T - np.eye(2 * d)))
    if err > 1e-10:
        raise ValueError("dilation is not unitary (%g): T is not a contraction?" % err)
    return U


def is_unitary(T, tol=1e-12):
    T = np.asarray(T)
    return np.max(np.abs(T.conj().T @ T - np.eye(T.shape[0]))) < tol


def indistinguishable_law(U, inp):
    """Born law of the Fock state |inp> behind the unitary U (all m modes observed)."""
    U = np.asarray(U, dtype=complex)
    m = U.shape[0]
    a = first_quantized(inp)
    n = len(a)
    norm_in = 1.0
    for x in inp:
        norm_in *= math.factorial(int(x))
    law = {}
    for out in occupations(m, n):
        b = first_quantized(out)
        amp = permanent(U[np.ix_(b, a)])
        norm = norm_in
        for x in out:
            norm *= math.factorial(x)
        law[out] = abs(amp) ** 2 / norm
    return law


def uniform_gram(n, x):
    G = np.full((n, n), complex(x))
    np.fill_diagonal(G, 1.0)
    return G


def input_norm(a, G):
    """<psi|psi> of prod_k a+_{a_k, phi_k}|0> (bunched photons with overlapping internal states)."""
    n = len(a)
    total = 0.0 + 0.0j
    for pi in itertools.permutations(range(n)):
        t = 1.0 + 0.0j
        for k in range(n):
            if a[k] != a[pi[k]]:
                t = 0.0
                break
            t *= G[k, pi[k]]
        total += t
    return total.real


def permutation_sum_law(U, inp, G):
    """Partially distinguishable photons behind the unitary U, detectors blind to the internal
    degree of freedom:
    P(s) = 1/(N prod s_j!) sum_{sigma,rho} prod_k U[b_sigma(k),a_k] conj(U[b_rho(k),a_k])
                                          prod_l G[rho^-1(l), sigma^-1(l)]."""
    U = np.asarray(U, dtype=complex)
    G = np.asarray(G, dtype=complex)
    m = U.shape[0]
    a = first_quantized(inp)
    n = len(a)
    perms = list(itertools.permutations(range(n)))
    invs = []
    for p in perms:
        inv = [0] * n
        for k, l in enumerate(p):
            inv[l] = k
        invs.append(inv)
    N = input_norm(a, G)
    law = {}
    for out in occupations(m, n):
        b = first_quantized(out)
        amps = []
        for p in perms:
            t = 1.0 + 0.0j
            for k in range(n):
                t *= U[b[p[k]], a[k]]
            amps.append(t)
        total = 0.0 + 0.0j
        for si, sigma in enumerate(perms):
            for ri, rho in enumerate(perms):
                g = 1.0 + 0.0j
                for l in range(n):
                    g *= G[invs[ri][l], invs[si][l]]
                total += amps[si] * np.conj(amps[ri]) * g
        norm = N
        for x in out:
            norm *= math.factorial(x)
        law[out] = total.real / norm
    return law


def internal_mode_law(U, inp, G):
    """Same law by explicit internal modes: |phi_k> = sum_r C[r,k]|r> with G = C+ C, the
    interferometer acts as U (x) 1, the detector sums over the internal labels.  Used to
    cross-check permutation_sum_law (self-test)."""
    U = np.asarray(U, dtype=complex)
    G = np.asarray(G, dtype=complex)
    m = U.shape[0]
    a = first_quantized(inp)
    n = len(a)
    w, v = np.linalg.eigh((G + G.conj().T) / 2)
    keep = w > 1e-13
    C = (np.sqrt(w[keep])[:, None]) * v[:, keep].conj().T  # r x n, G = C+ C
    r = C.shape[0]
    single = [(mode, lab) for mode in range(m) for lab in range(r)]
    law = {}
    total = 0.0
    for combo in itertools.combinations_with_replacement(range(len(single)), n):
        W = np.empty((n, n), dtype=complex)
        for row, idx in enumerate(combo):
            mode, lab = single[idx]
            for k in range(n):
                W[row, k] = U[mode, a[k]] * C[lab, k]
        mult = 1.0
        cnt = {}
        for idx in combo:
            cnt[idx] = cnt.get(idx, 0) + 1
        for c in cnt.values():
            mult *= math.factorial(c)
        p = abs(permanent(W)) ** 2 / mult
        occ = [0] * m
        for idx in combo:
            occ[single[idx][0]] += 1
        occ = tuple(occ)
        law[occ] = law.get(occ, 0.0) + p
        total += p
    return {k: v / total for k, v in law.items()}, total


def classical_law(T, inp):
    """Fully distinguishable photons (overlap 0) behind the (possibly lossy) transfer matrix T:
    every photon is routed independently, lost with probability 1 - sum_i |T[i,j]|^2."""
    T = np.asarray(T, dtype=complex)
    d = T.shape[0]
    law = {(0,) * d: 1.0}
    for j in first_quantized(inp):
        p = np.abs(T[:, j]) ** 2
        lost = 1.0 - float(np.sum(p))
        new = {}
        for occ, pr in law.items():
            if lost > 0:
                new[occ] = new.get(occ, 0.0) + pr * lost
            for i in range(d):
                if p[i] == 0.0:
                    continue
                o = list(occ)
                o[i] += 1
                o = tuple(o)
                new[o] = new.get(o, 0.0) + pr * p[i]
        law = new
    return law


def marginal(law, modes):
    """Law of the occupation of `modes` (in the given order)."""
    out = {}
    for occ, p in law.items():
        k = tuple(occ[m] for m in modes)
        out[k] = out.get(k, 0.0) + p
    return out


def lossy_law(T, inp, G=None):
    """Detected-photon law behind the transfer matrix T (contraction or unitary) for the input
    occupation `inp`; G = Gram matrix of the labelled photons (None: indistinguishable)."""
    T = np.asarray(T, dtype=complex)
    d = T.shape[0]
    if is_unitary(T):
        U, big_inp = T, tuple(inp)
    else:
        U = unitary_dilation(T)
        big_inp = tuple(inp) + (0,) * d
    full = indistinguishable_law(U, big_inp) if G is None else permutation_sum_law(U, big_inp, G)
    return marginal(full, range(d))


def postselect(law, ps_modes, ps_counts):
    """Condition on occupation ps_counts in ps_modes; returns (law of the remaining modes in
    ascending order, success probability)."""
    ps_modes = list(ps_modes)
    d = len(next(iter(law)))
    rest = [m for m in range(d) if m not in ps_modes]
    out = {}
    succ = 0.0
    for occ, p in law.items():
        if all(occ[m] == c for m, c in zip(ps_modes, ps_counts)):
            k = tuple(occ[m] for m in rest)
            out[k] = out.get(k, 0.0) + p
            succ += p
    if succ > 0:
        out = {k: v / succ for k, v in out.items()}
    return out, succ


def apply_detectors(law, P):
    """Imperfect detectors: P[n_detected, n_actual], independently per mode."""
    P = np.asarray(P, dtype=float)
    out = {}
    for occ, p in law.items():
        if any(n >= P.shape[1] for n in occ):
            raise ValueError("detector matrix has no column for count in %r" % (occ,))
        for det in itertools.product(range(P.shape[0]), repeat=len(occ)):
            q = p
            for n_det, n_act in zip(det, occ):
                q *= P[n_det, n_act]
            if q != 0.0:
                out[det] = out.get(det, 0.0) + q
    return out


def compare_laws(got, expected, atol=1e-9):
    """max |got - expected| over the union of the supports, and the worst key."""
    worst, wk = 0.0, None
    for k in set(got) | set(expected):
        dlt = abs(got.get(k, 0.0) - expected.get(k, 0.0))
        if dlt > worst:
            worst, wk = dlt, k
    return worst, wk
