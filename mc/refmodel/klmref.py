"""Accuracy budget of the heralded CZ of piquasso.dual_rail_encoding (no piquasso imports).

The library builds Knill's 4-mode CZ (2 data rails, 2 ancilla photons, heralded on (1,1)) from
beamsplitters with the angles 54.74 deg / 17.63 deg *rounded to two decimals*.  This module
computes, by permanents of the 4x4 transfer matrix, the heralded linear map

    M : span{|n0 n1>, n0,n1 in {0,1}}  ->  span{|k0 k1>, k0+k1 <= 2}       (data rails only)

for arbitrary angles, finds the ideal angles by itself (M proportional to CZ, no leakage) and
measures how far the rounded angles are from it:

    eps_code = min_c || P_code M / c - CZ ||_2        (deviation inside the code space)
    eps_leak = || (1 - P_code) M ||_2 / |c|           (amplitude leaked to |20>, |02>)

From these, `law_tolerance(k)` bounds the deviation of any renormalised outcome law after k
heralded CZs (derivation in the docstring of that function).
"""

import itertools
import math

import numpy as np


def bs(d, i, j, theta, phi=0.0):
    """Documented piquasso Beamsplitter transfer matrix [[t, -conj(r)], [r, t]] on modes (i, j)."""
    u = np.eye(d, dtype=complex)
    t, r = math.cos(theta), np.exp(1j * phi) * math.sin(theta)
    u[i, i], u[i, j], u[j, i], u[j, j] = t, -np.conj(r), r, t
    return u


def ps(d, i, phi):
    u = np.eye(d, dtype=complex)
    u[i, i] = np.exp(1j * phi)
    return u


def perm(a):
    n = a.shape[0]
    if n == 0:
        return 1.0
    return sum(np.prod([a[i, s[i]] for i in range(n)]) for s in itertools.permutations(range(n)))


def fock_amp(u, out, inp):
    """<out| U_fock |inp> for the passive transfer matrix u (a_j^dagger -> sum_i u[i, j] a_i^dagger)."""
    rows = [m for m, k in enumerate(out) for _ in range(k)]
    cols = [m for m, k in enumerate(inp) for _ in range(k)]
    if len(rows) != len(cols):
        return 0.0
    norm = math.sqrt(np.prod([math.factorial(k) for k in out]) * np.prod([math.factorial(k) for k in inp]))
    return perm(u[np.ix_(rows, cols)]) / norm


def cz_transfer(theta1, theta2):
    """Transfer matrix of _cz_on_two_bosonic_qubits on modes (m0, m1, a0, a1) = (0, 1, 2, 3)."""
    u = ps(4, 0, math.pi)
    u = ps(4, 1, math.pi) @ u
    u = bs(4, 0, 2, theta1) @ u
    u = bs(4, 1, 3, theta1) @ u
    u = bs(4, 0, 1, -theta1) @ u
    u = bs(4, 2, 3, theta2) @ u
    return u


CODE_IN = [(0, 0), (1, 0), (0, 1), (1, 1)]  # (n0, n1) photons on the two '1' rails
OUT = [(0, 0), (1, 0), (0, 1), (1, 1), (2, 0), (0, 2)]


def heralded_map(theta1, theta2):
    u = cz_transfer(theta1, theta2)
    m = np.zeros((len(OUT), len(CODE_IN)), dtype=complex)
    for j, inp in enumerate(CODE_IN):
        for i, out in enumerate(OUT):
            m[i, j] = fock_amp(u, out + (1, 1), inp + (1, 1))
    return m


def deviation(theta1, theta2):
    """(eps_code, eps_leak, c): best scalar c, spectral-norm deviation from CZ inside the code space
    and leaked amplitude, both relative to |c|."""
    m = heralded_map(theta1, theta2)
    cz = np.diag([1.0, 1.0, 1.0, -1.0])
    code = m[:4, :]
    c = np.trace(cz.conj().T @ code) / 4.0  # least-squares optimal scalar (Frobenius)
    eps_code = np.linalg.norm(code / c - cz, 2)
    eps_leak = np.linalg.norm(m[4:, :], 2) / abs(c)
    return float(eps_code), float(eps_leak), complex(c)


LIB_THETA1_DEG, LIB_THETA2_DEG = 54.74, 17.63  # the two-decimal constants of the library


def ideal_angles():
    """Ideal angles found numerically (Gauss-Newton on eps_code^2 + eps_leak^2 from the rounded
    values), cross-checked against the closed forms arccos(1/sqrt 3), arccos(sqrt((3+sqrt 6)/6))."""
    from scipy.optimize import least_squares

    def resid(x):
        m = heralded_map(x[0], x[1])
        cz = np.diag([1.0, 1.0, 1.0, -1.0])
        c = np.trace(cz @ m[:4, :]) / 4.0
        r = np.concatenate([(m[:4, :] / c - cz).ravel(), (m[4:, :] / c).ravel()])
        return np.concatenate([r.real, r.imag])

    x0 = np.radians([LIB_THETA1_DEG, LIB_THETA2_DEG])
    sol = least_squares(resid, x0, xtol=1e-15, ftol=1e-15, gtol=1e-15)
    closed = (math.acos(1 / math.sqrt(3)), math.acos(math.sqrt((3 + math.sqrt(6)) / 6)))
    return tuple(float(v) for v in sol.x), closed


def budget():
    """Everything the check needs: eps of the library angles, eps at the ideal angles (self-test),
    the heralding amplitude."""
    (t1, t2), closed = ideal_angles()
    e_ideal = deviation(t1, t2)
    e_lib = deviation(math.radians(LIB_THETA1_DEG), math.radians(LIB_THETA2_DEG))
    return {
        "ideal_deg": (math.degrees(t1), math.degrees(t2)),
        "closed_form_deg": (math.degrees(closed[0]), math.degrees(closed[1])),
        "eps_ideal": e_ideal[:2],
        "success_ideal": abs(e_ideal[2]) ** 2,
        "eps_code": e_lib[0],
        "eps_leak": e_lib[1],
        "c": abs(e_lib[2]),
    }


def law_tolerance_d(k, eps_code, eps_leak, c):
    """Norm bound D_k on the relative error vector after k heralded CZs (see law_tolerance)."""
    if k == 0:
        return 0.0
    eps = eps_code + eps_leak
    g = 1.0 / c
    return eps_code * k * (1 + eps) ** (k - 1) + eps_leak * sum((1 + eps) ** (j - 1) * g ** (k - j) for j in range(1, k + 1))


def law_tolerance(k, eps_code, eps_leak, c, p_ref=1.0):
    """Bound on |p_impl(o) - p_qubit(o)| for every outcome o of a circuit with k heralded CZs.

    Write each heralded CZ as c*(CZ + E) on code states; E splits into a part inside the code space,
    ||E_code|| <= eps_code, and a part leaking to |20>, |02>, ||E_leak|| <= eps_leak.  Everything between
    the CZs (beamsplitters, phase shifters, measurement projections, conditioned gates) is a contraction;
    a later heralded CZ is c*(unitary + E) on code components but may map an arbitrary non-code
    component with norm up to 1 = (1/c)*c, i.e. it can amplify a leaked component by at most g = 1/c
    relative to the code component.  So the unnormalised final vector of any classical history is
    c^k (psi + delta) with ||psi|| = 1 (summed over histories) and
        ||delta|| <= D_k = eps_code * k * (1+eps)^(k-1) + eps_leak * sum_{j=1..k} (1+eps)^(j-1) g^(k-j),   eps = eps_code+eps_leak.
    For the law p(o) = ||A_o (psi+delta)||^2 / sum_o' ||A_o' (psi+delta)||^2 of a trace-non-increasing
    instrument {A_o} (code-space outcomes):
        | ||A_o(psi+delta)||^2 - ||A_o psi||^2 | <= 2 D + D^2,  the same for the normaliser (Cauchy-Schwarz over the direct sum), hence
        |p_impl(o) - p(o)| <= (2D + D^2) (1 + p(o)) / (1 - D)^2.
    """
    d = law_tolerance_d(k, eps_code, eps_leak, c)
    return (2 * d + d * d) * (1 + p_ref) / (1 - d) ** 2


if __name__ == "__main__":
    b = budget()
    for k_, v in b.items():
        print(k_, v)
    for k_ in (1, 2, 3):
        print("tol", k_, law_tolerance(k_, b["eps_code"], b["eps_leak"], b["c"]))
