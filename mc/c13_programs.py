"""C13 helper: serialisable instruction specs, the named value catalogue, the per-simulator
alphabets (reject side), the docstring parser and the minimal valid programs (accept side).

A program is a plain list of *specs*  {"cls": <Instruction class name>, "modes": [..] | None,
"kw": {...}}; None means "no modes given" (= all modes).  Values in "kw" are JSON numbers /
lists or named catalogue entries {"$": name, ...} that `value()` turns into arrays.  Every
execution instantiates fresh Instruction objects from the specs (nothing shared).
"""

import importlib
import itertools
import math
import re

SIMULATORS = {
    "GaussianSimulator": ("piquasso", "GaussianSimulator"),
    "PureFockSimulator": ("piquasso", "PureFockSimulator"),
    "FockSimulator": ("piquasso", "FockSimulator"),
    "PassiveSimulator": ("piquasso", "PassiveSimulator"),
    "fermionic.GaussianSimulator": ("piquasso.fermionic", "GaussianSimulator"),
    "fermionic.PureFockSimulator": ("piquasso.fermionic", "PureFockSimulator"),
}

INSTRUCTION_MODULES = (
    "piquasso.instructions.preparations",
    "piquasso.instructions.gates",
    "piquasso.instructions.measurements",
    "piquasso.instructions.channels",
    "piquasso.fermionic.instructions",
)


def sim_class(name):
    mod, attr = SIMULATORS[name]
    return getattr(importlib.import_module(mod), attr)


_UNIVERSE = None


def universe():
    """name -> Instruction class, for every concrete instruction class of the library
    (batch instructions excluded: they are containers of sub-programs, marked experimental)."""
    global _UNIVERSE
    if _UNIVERSE is None:
        from piquasso.api.instruction import Instruction

        out = {}
        for m in INSTRUCTION_MODULES:
            mod = importlib.import_module(m)
            for k, v in vars(mod).items():
                if (
                    isinstance(v, type)
                    and issubclass(v, Instruction)
                    and v.__module__ == m
                    and not k.startswith("_")
                ):
                    out[k] = v
        _UNIVERSE = out
    return _UNIVERSE


def kind_of(cls):
    from piquasso.api.instruction import Preparation, Measurement

    if issubclass(cls, Preparation):
        return "prep"
    if issubclass(cls, Measurement):
        return "meas"
    return "gate"


# ---------------------------------------------------------------------------------------
# value catalogue


def _rng(seed, *salt):
    import numpy as np

    return np.random.default_rng([1300 + int(seed)] + [int(s) for s in salt])


def _unitary(k, seed, salt=0):
    import numpy as np

    r = _rng(seed, k, salt)
    z = r.normal(size=(k, k)) + 1j * r.normal(size=(k, k))
    q, rr = np.linalg.qr(z)
    ph = np.diag(rr) / np.abs(np.diag(rr))
    return q * ph


_VALUE_CACHE = {}


def value(v, seed):
    """Resolve a kw value: plain JSON stays, {"$": name, ...} becomes a FRESH array / dict
    (the catalogue entry is computed once per process and copied for every use)."""
    if not isinstance(v, dict) or "$" not in v:
        if isinstance(v, list):
            return [value(x, seed) for x in v]
        return v
    if v["$"] in ("adaptive", "adaptive_expr"):
        return _adaptive_value(v, seed)
    import json

    key = (json.dumps(v, sort_keys=True), int(seed))
    if key not in _VALUE_CACHE:
        _VALUE_CACHE[key] = _value(v, seed)
    got = _VALUE_CACHE[key]
    return dict(got) if isinstance(got, dict) else got.copy()


# what the outcome-dependent parameters of the current execution returned: (outcomes, returned_invalid)
ADAPTIVE_LOG = []


def _adaptive_value(v, seed):
    """Outcome-dependent parameter (family adaptive_param, see c13_adaptive).  "adaptive": a callable
    of the outcome tuple returning the invalid value when `when` == "always" or x[-1] == when, else the
    valid one ("never": always valid), logging every call; "adaptive_expr": the same as an expression
    string over x (scalars only)."""
    when = v["when"]
    if v["$"] == "adaptive_expr":
        g, b = float(v["good"]), float(v["bad"])
        if when == "never":
            return repr(g)
        if when == "always":
            return repr(b)
        return "%r + (%r) * (x[-1] == %d)" % (g, b - g, int(when))
    bad = value(v["bad"], seed)
    good = value(v["good"], seed)

    def param(x):
        is_bad = when == "always" or (when != "never" and int(x[-1]) == int(when))
        ADAPTIVE_LOG.append((tuple(x), bool(is_bad)))
        return bad if is_bad else good

    return param


def _value(v, seed):
    import numpy as np

    n = v["$"]
    k = int(v.get("k", 0))
    if n == "unitary":
        return _unitary(k, seed)
    if n == "gt_passive":
        return _unitary(k, seed, 1) @ np.diag(np.cosh(0.08 + 0.03 * np.arange(k))).astype(complex)
    if n == "gt_active":
        return _unitary(k, seed, 1) @ np.diag(np.sinh(0.08 + 0.03 * np.arange(k))).astype(complex)
    if n == "adj":
        a = _rng(seed, k, 2).uniform(0.2, 0.9, size=(k, k))
        a = (a + a.T) / 2
        np.fill_diagonal(a, 0.0)
        return a if k > 1 else np.array([[0.6]])
    if n == "lossy":
        return 0.8 * _unitary(k, seed, 3)
    if n == "snap":
        return 0.3 + 0.45 * np.arange(k)
    if n == "detector":
        eta = 0.8
        p = np.zeros((k, k))
        for m in range(k):
            for j in range(m + 1):
                p[j, m] = math.comb(m, j) * eta**j * (1 - eta) ** (m - j)
        return p
    if n == "mean":
        return 0.1 + 0.05 * np.arange(2 * k)
    if n == "cov":
        return np.diag(1.0 + 0.2 * (1 + np.arange(2 * k) // 2))
    if n == "chanX":  # the pair used by the library's own tests (valid for the documented AND the coded inequality)
        return 0.5 * np.identity(2 * k)
    if n == "chanY":
        return 1.5 * np.identity(2 * k)
    if n == "attX":  # thermal attenuator written as a channel (Attenuator docstring: X = cos(t) I, Y = sin(t)^2 (2N+1) I)
        return math.cos(0.3) * np.identity(2 * k)
    if n == "attY":
        return math.sin(0.3) ** 2 * 1.2 * np.identity(2 * k)
    if n == "gram":
        g = np.full((k, k), 0.5, dtype=complex)
        np.fill_diagonal(g, 1.0)
        return g
    if n == "gencov":
        return np.diag([0.7**2, 0.7**-2])
    if n == "fockmap":
        return {tuple(occ): complex(a[0], a[1]) if isinstance(a, list) else a for occ, a in v["items"]}
    if n == "fgh":  # fermionic quadratic Hamiltonian [[A, -conj(B)], [B, -conj(A)]]
        r = _rng(seed, k, 4)
        a = r.normal(size=(k, k)) + 1j * r.normal(size=(k, k))
        a = (a + a.conj().T) / 2
        b = r.normal(size=(k, k)) + 1j * r.normal(size=(k, k))
        b = (b - b.T) / 2
        return 0.3 * np.block([[a, -b.conj()], [b, -a.conj()]])
    if n == "fph":  # parent Hamiltonian [[-conj(A), B], [-conj(B), A]]
        r = _rng(seed, k, 5)
        a = r.normal(size=(k, k)) + 1j * r.normal(size=(k, k))
        a = (a + a.conj().T) / 2
        b = r.normal(size=(k, k)) + 1j * r.normal(size=(k, k))
        b = (b - b.T) / 2
        return 0.3 * np.block([[-a.conj(), b], [-b.conj(), a]])
    # ---- deliberately invalid values (documented-error table) -----------------------
    if n == "nonsquare":
        return np.ones((k, k + 1), dtype=complex)
    if n == "nonsymplectic_passive":
        return 1.3 * np.identity(k, dtype=complex)
    if n == "zeros":
        return np.zeros((k, k), dtype=complex)
    if n == "nonsymmetric":
        a = np.zeros((k, k))
        a[0, -1] = 0.7
        if k == 1:
            a = np.array([[0.5, 0.1], [0.3, 0.5]])
        return a
    if n == "sv_too_big":
        return 1.5 * np.identity(k, dtype=complex)
    if n == "detector_negative":
        p = np.identity(k)
        p[0, -1] = -0.2
        p[-1, -1] = 1.2
        return p
    if n == "detector_colsum":
        return 0.9 * np.identity(k)
    if n == "detector_1d":
        return np.ones(k) / k
    if n == "gencov_bad":
        return 0.1 * np.identity(2)
    if n == "complexX":
        return (math.cos(0.3) + 0.2j) * np.identity(2 * k)
    if n == "oddX":
        return np.identity(2 * k + 1)
    if n == "chanY_small":
        return 1e-3 * np.identity(2 * k)
    if n == "chanX_other":
        return math.cos(0.3) * np.identity(2 * k + 2)
    if n == "gram_nonherm":
        g = np.identity(k, dtype=complex)
        g[0, -1] = 0.5
        return g
    if n == "gram_diag":
        g = np.full((k, k), 0.2, dtype=complex)
        np.fill_diagonal(g, 0.9)
        return g
    if n == "gram_indef":
        g = np.full((k, k), 1.5, dtype=complex)
        np.fill_diagonal(g, 1.0)
        return g
    if n == "gram_shape":
        return np.identity(k + 1, dtype=complex)
    if n == "array":
        return np.array(v["data"])
    raise KeyError(n)


def build(spec, seed):
    """Fresh Instruction object from a spec (raises whatever the constructor raises)."""
    cls = universe()[spec["cls"]]
    kw = {k: value(v, seed) for k, v in spec.get("kw", {}).items()}
    ins = cls(**kw)
    if spec.get("modes") is not None:
        ins = ins.on_modes(*spec["modes"])
    return ins


# ---------------------------------------------------------------------------------------
# generic valid parameters


def _scalars(seed):
    e = 0.013 * (seed % 7)
    return {
        "Beamsplitter": {"theta": 0.37 + e, "phi": 0.81 + e},
        "Beamsplitter5050": {},
        "Phaseshifter": {"phi": 0.53 + e},
        "MachZehnder": {"int_": 0.41 + e, "ext": 0.67 + e},
        "Fourier": {},
        "Squeezing": {"r": 0.11, "phi": 0.29 + e},
        "QuadraticPhase": {"s": 0.13},
        "Squeezing2": {"r": 0.09, "phi": 0.31 + e},
        "ControlledX": {"s": 0.12},
        "ControlledZ": {"s": 0.14},
        "Displacement": {"r": 0.17, "phi": 0.43 + e},
        "PositionDisplacement": {"x": 0.15},
        "MomentumDisplacement": {"p": 0.16},
        "CubicPhase": {"gamma": 0.05},
        "Kerr": {"xi": 0.21 + e},
        "CrossKerr": {"xi": 0.23 + e},
        "Attenuator": {"theta": 0.3 + e},
        "Loss": {"transmissivity": 0.9},
        "UniformLoss": {"transmissivity": 0.85},
        "ControlledPhase": {"phi": 0.4 + e},
        "IsingXX": {"phi": 0.35 + e},
        "Vacuum": {},
        "Create": {},
        "Annihilate": {},
        "ParticleNumberMeasurement": {},
        "ThresholdMeasurement": {},
        "HeterodyneMeasurement": {},
    }


def one_photon(k):
    return [1] + [0] * (k - 1)


def valid_kw(name, k, d, cutoff, seed, sim=None, photons=0):
    """Valid constructor kwargs of instruction `name` acting on k modes of a d-mode
    simulator at the given cutoff.  `photons` = 0/1: occupation used by state preparations
    and post-selections (1 = one photon on the first addressed mode)."""
    sc = _scalars(seed)
    if name in sc:
        return dict(sc[name])
    occ = one_photon(k) if photons else [0] * k
    if name == "Interferometer":
        return {"matrix": {"$": "unitary", "k": k}}
    if name == "GaussianTransform":
        return {"passive": {"$": "gt_passive", "k": k}, "active": {"$": "gt_active", "k": k}}
    if name == "Graph":
        return {"adjacency_matrix": {"$": "adj", "k": k}, "mean_photon_number": 0.2}
    if name == "SNAP":
        return {"theta": {"$": "snap", "k": cutoff}}
    if name == "Mean":
        return {"mean": {"$": "mean", "k": d}}
    if name == "Covariance":
        return {"cov": {"$": "cov", "k": d}}
    if name == "Thermal":
        return {"mean_photon_numbers": [0.3 + 0.1 * i for i in range(k)]}
    if name in ("NumberState", "StateVector"):
        return {"occupation_numbers": occ}
    if name == "FockStateVector":
        return {"fock_amplitude_map": {"$": "fockmap", "items": [[occ, 1.0]]}}
    if name == "DistinguishableNumberState":
        return {"occupation_numbers": occ, "particle_overlap": 0.5}
    if name == "DensityMatrix":
        return {"ket": occ, "bra": occ}
    if name == "ImperfectParticleNumberMeasurement":
        # one column per photon count the measurement can return: < cutoff on the Fock-type simulators,
        # < Config.measurement_cutoff (5) for the Gaussian sampler
        return {"detector_efficiency_matrix": {"$": "detector", "k": 6 if sim == "GaussianSimulator" else max(cutoff, 2)}}
    if name == "PostSelectPhotons":
        return {"photon_counts": occ}
    if name == "ImperfectPostSelectPhotons":
        return {"photon_counts": occ, "detector_efficiency_matrix": {"$": "detector", "k": max(cutoff, 2)}}
    if name == "GeneraldyneMeasurement":
        return {"detection_covariance": {"$": "gencov"}}
    if name == "HomodyneMeasurement":
        # the Fock implementation documents phi != 0 as not implemented (NotImplementedCalculation)
        return {"phi": 0.0} if sim != "GaussianSimulator" else {"phi": 0.4}
    if name == "DeterministicGaussianChannel":
        return {"X": {"$": "chanX", "k": k}, "Y": {"$": "chanY", "k": k}}
    if name == "LossyInterferometer":
        return {"matrix": {"$": "lossy", "k": k}}
    if name == "GaussianHamiltonian":
        return {"hamiltonian": {"$": "fgh", "k": k}}
    if name == "ParentHamiltonian":
        return {"hamiltonian": {"$": "fph", "k": d}}
    raise KeyError(name)


# instructions that can only address all modes of the simulator
ALL_MODES_ONLY = {"Vacuum", "Mean", "Covariance", "ParentHamiltonian"}
# variable-arity instructions whose parameter size follows the number of addressed modes
VARIABLE_SIZED = {
    "Interferometer", "GaussianTransform", "Graph", "Thermal", "NumberState", "StateVector",
    "FockStateVector", "DistinguishableNumberState", "DensityMatrix", "PostSelectPhotons",
    "ImperfectPostSelectPhotons", "DeterministicGaussianChannel", "LossyInterferometer",
    "GaussianHamiltonian",
}
# state preparations that define the whole register (always written for all modes here)
WHOLE_REGISTER_PREPS = {
    "NumberState", "StateVector", "FockStateVector", "DistinguishableNumberState", "DensityMatrix", "Thermal",
}


# single-mode by definition although the class leaves NUMBER_OF_MODES unset (Attenuator: X, Y are
# 2x2, the Fock step says so in InvalidInstruction; Create / Annihilate: "a particle on a mode")
HARNESS_ARITY = {"Attenuator": 1, "Create": 1, "Annihilate": 1}


def arity(name):
    """Number of modes the accept side / the base programs address with `name`."""
    if name in HARNESS_ARITY:
        return HARNESS_ARITY[name]
    return universe()[name].NUMBER_OF_MODES


def fixed_arity(name):
    """NUMBER_OF_MODES the library itself enforces (None = variable)."""
    return universe()[name].NUMBER_OF_MODES


# ---------------------------------------------------------------------------------------
# docstring "Supported ..." lists

_SECTION = re.compile(r"Supported (preparations|gates|measurements|channels):\s*\n(.*?)(?:\n\s*\n|\Z)", re.S)
_ROLE = re.compile(r":class:`~?([\w\.]+)`")


def documented_support(simname):
    """{section: [class names]} parsed from the simulator's __doc__; every referenced path is
    imported (an unresolvable path is a harness error, reported by the caller)."""
    doc = sim_class(simname).__doc__ or ""
    out = {}
    for m in _SECTION.finditer(doc):
        names = []
        for path in _ROLE.findall(m.group(2)):
            modname, _, attr = path.rpartition(".")
            cls = getattr(importlib.import_module(modname), attr)
            if cls.__name__ not in names:
                names.append(cls.__name__)
        out[m.group(1)] = names
    return out


def documented_classes(simname):
    out = []
    for names in documented_support(simname).values():
        for n in names:
            if n not in out:
                out.append(n)
    return out


# ---------------------------------------------------------------------------------------
# accept side: minimal valid programs


def _context(simname, d, cutoff, photons, seed):
    """The preparation prefix putting `photons` (0/1) photons on mode 0, written with
    instructions the simulator *implements* (taken from _instruction_map, so that a
    documentation defect of a preparation does not mask the instruction under test)."""
    if simname == "GaussianSimulator":
        return [{"cls": "Vacuum", "modes": None, "kw": {}}] if not photons else None
    if photons and cutoff < 2 and simname != "fermionic.GaussianSimulator":
        return None
    occ = one_photon(d) if photons else [0] * d
    if simname == "FockSimulator":
        if not photons:
            return [{"cls": "Vacuum", "modes": None, "kw": {}}]
        return [{"cls": "DensityMatrix", "modes": None, "kw": {"ket": occ, "bra": occ}}]
    if simname in ("PureFockSimulator", "PassiveSimulator", "fermionic.GaussianSimulator", "fermionic.PureFockSimulator"):
        return [{"cls": "NumberState", "modes": None, "kw": {"occupation_numbers": occ}}]
    raise KeyError(simname)


def placements(name, d):
    """Mode placements of the accept side: ascending first modes, descending last modes,
    None (all modes) where the API allows."""
    a = arity(name)
    if name in ALL_MODES_ONLY or name in WHOLE_REGISTER_PREPS:
        return [None]
    if a is not None:
        if a > d:
            return []
        out = [list(range(a))]
        alt = list(range(d - 1, d - 1 - a, -1))
        if alt not in out:
            out.append(alt)
        if a == d:
            out.append(None)
        return out
    if kind_of(universe()[name]) == "meas":
        out = [None, [0]]
        if d > 1:
            out.append([d - 1])
        if d > 2:
            out.append([d - 1, 0])
        return out
    # variable-arity gates / channels
    out = [None]
    for k in range(1, d + 1):
        out.append(list(range(k)))
    if d > 1:
        out.append(list(range(d - 1, -1, -1)))
        out.append([d - 1])
    return out


def minimal_programs(simname, name, d, cutoff, seed):
    """All minimal valid programs (list of dicts {"program", "shots", "tag"}) exercising the
    documented instruction `name` on simulator `simname` with d modes at `cutoff`.  The
    harness-side validity predicate lives here: combinations that are invalid by the
    instruction's own definition are not generated (occupation total < cutoff, parameter
    shapes follow the number of addressed modes, SNAP vector length = cutoff, measurements
    last, Annihilate needs a photon, fermionic occupations are 0/1, the fermionic Fock
    backend documents consecutive ascending modes)."""
    cls = universe()[name]
    kind = kind_of(cls)
    sim = sim_class(simname)
    out = []
    fermi_fock = simname == "fermionic.PureFockSimulator"
    for pl in placements(name, d):
        k = d if pl is None else len(pl)
        if fermi_fock and pl is not None and pl != sorted(pl):
            continue  # "Specified modes must be consecutive" (ascending) is that backend's documented restriction
        for photons in (0, 1):
            if kind == "prep":
                if photons and cutoff < 2 and simname not in ("GaussianSimulator", "fermionic.GaussianSimulator"):
                    continue
                if name in ("Vacuum", "Mean", "Covariance", "Thermal", "ParentHamiltonian") and photons:
                    continue
                if name == "Create":
                    if photons or cutoff < 2:
                        continue
                    prog = _context(simname, d, cutoff, 0, seed) + [{"cls": "Create", "modes": pl, "kw": {}}]
                elif name == "Annihilate":
                    if photons or cutoff < 2:
                        continue
                    prog = _context(simname, d, cutoff, 0, seed) + [
                        {"cls": "Create", "modes": pl, "kw": {}},
                        {"cls": "Annihilate", "modes": pl, "kw": {}},
                    ]
                else:
                    prog = [{"cls": name, "modes": pl, "kw": valid_kw(name, k, d, cutoff, seed, simname, photons)}]
                out.append({"program": prog, "shots": 1, "tag": "prep/%s/ph%d" % (pl, photons)})
                continue
            ctx = _context(simname, d, cutoff, photons, seed)
            if ctx is None:
                continue
            if name in ("PostSelectPhotons", "ImperfectPostSelectPhotons"):
                # post-select what the context prepared on the addressed modes (non-zero probability)
                modes = list(range(d)) if pl is None else pl
                counts = [1 if (photons and m == 0) else 0 for m in modes]
                kw = valid_kw(name, k, d, cutoff, seed, simname, 0)
                kw["photon_counts"] = counts
            else:
                kw = valid_kw(name, k, d, cutoff, seed, simname, photons)
            prog = ctx + [{"cls": name, "modes": pl, "kw": kw}]
            if kind == "meas":
                out.append({"program": prog, "shots": 1, "tag": "meas/%s/ph%d/shots1" % (pl, photons)})
                if photons == 0:
                    out.append({"program": prog, "shots": 3, "tag": "meas/%s/ph%d/shots3" % (pl, photons)})
                if issubclass(cls, sim._measurement_classes_allowed_with_shots_none):
                    out.append({"program": prog, "shots": None, "tag": "meas/%s/ph%d/shotsNone" % (pl, photons)})
            else:
                out.append({"program": prog, "shots": 1, "tag": "gate/%s/ph%d" % (pl, photons)})
                # the same instruction inside a measured circuit: mixing interferometer on all modes, the
                # instruction, then the simulator's ParticleNumberMeasurement on all modes (one sample)
                if photons == (0 if simname == "GaussianSimulator" else 1):
                    mix = [{"cls": "Interferometer", "modes": None, "kw": {"matrix": {"$": "unitary", "k": d}}}] if d >= 2 else []
                    meas = [{"cls": "ParticleNumberMeasurement", "modes": None, "kw": {}}]
                    out.append({"program": ctx + mix + [{"cls": name, "modes": pl, "kw": kw}] + meas, "shots": 1,
                                "tag": "gate+measure/%s/ph%d" % (pl, photons)})
    return out
