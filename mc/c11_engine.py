"""Execution of ONE history / ONE schedule of a sampling program on the real piquasso, and the
canonical observation that is compared byte for byte (private helper of mc/checks/c11.py).

REAL random number generators are used throughout (this property is about seeds); the only
things the harness pins are the *process-global* states at the start of every history
(``random.seed``, ``numpy.random.seed``, a counter behind ``os.urandom``) so that every history is
a deterministic function of its description -- also on a tree where the library leaks global
state into its samples.
"""

import hashlib
import os
import random

from mc.core import HarnessError

# ---------------------------------------------------------------------------------------
# the events of a history

SLOTS = ("before_config", "between_config_and_simulator", "between_simulator_and_execute", "between_execute_and_samples")

INTRUDERS = (
    "Config()",
    "Config(seed_sequence=7)",
    "other_simulator_run",
    "same_program_other_simulator_same_seed",
    "random.random()",
    "random.seed(1)",
    "np.random.seed(1)",
    "np.random.random()",
    "as_code",
    "validate",
    "build_program",
)


class _Urandom:
    """os.urandom replaced by a counter while a history runs (DESIGN 2.12)."""

    def __init__(self):
        self.n = 0
        self.real = None

    def __call__(self, k):
        self.n += 1
        return hashlib.sha256(b"c11-urandom-%d" % self.n).digest()[:k] if k <= 32 else (hashlib.sha256(b"c11-urandom-%d" % self.n).digest() * (k // 32 + 1))[:k]


_URANDOM = _Urandom()
STATS = {"intruder_exceptions": 0}


def pin_globals():
    import numpy as np

    random.seed(424242)
    np.random.seed(424242)
    _URANDOM.n = 0
    if os.urandom is not _URANDOM:
        _URANDOM.real = os.urandom
        os.urandom = _URANDOM


def unpin_globals():
    if os.urandom is _URANDOM and _URANDOM.real is not None:
        os.urandom = _URANDOM.real


# ---------------------------------------------------------------------------------------
# canonical observation


def _canon_value(x):
    import numpy as np

    if isinstance(x, (bool, np.bool_)):
        return ("b", type(x).__name__, bool(x))
    if isinstance(x, (int, np.integer)):
        return ("i", type(x).__name__, int(x))
    if isinstance(x, (float, np.floating)):
        return ("f", type(x).__name__, float(x).hex())
    if isinstance(x, (complex, np.complexfloating)):
        return ("c", type(x).__name__, complex(x).real.hex(), complex(x).imag.hex())
    if isinstance(x, (tuple, list)):
        return ("t", [_canon_value(v) for v in x])
    if isinstance(x, np.ndarray):
        return ("a", str(x.dtype), list(x.shape), hashlib.sha1(np.ascontiguousarray(x).tobytes()).hexdigest())
    return ("r", repr(x))


_STATE_ARRAYS = (
    "state_vector",
    "density_matrix",
    "xpxp_mean_vector",
    "xpxp_covariance_matrix",
    "interferometer",
    "covariance_matrix",
)


def _state_digest(state):
    import numpy as np

    if state is None:
        return None
    h = hashlib.sha1()
    h.update(type(state).__name__.encode())
    found = 0
    for attr in _STATE_ARRAYS:
        try:
            v = getattr(state, attr)
        except Exception:
            continue
        if callable(v):
            continue
        try:
            a = np.ascontiguousarray(np.asarray(v))
        except Exception:
            continue
        if a.dtype == object:
            continue
        h.update(attr.encode())
        h.update(str(a.dtype).encode())
        h.update(repr(a.shape).encode())
        h.update(a.tobytes())
        found += 1
    for attr in ("_occupation_numbers", "_coefficients"):
        v = getattr(state, attr, None)
        if v is not None:
            h.update(attr.encode())
            h.update(repr([np.asarray(x).tolist() for x in v]).encode())
            found += 1
    return "%s:%d:%s" % (type(state).__name__, found, h.hexdigest())


def observe(result):
    """Everything a caller can see of a sampling run: samples (in order), branches (in order:
    outcome, frequency, digest of the post-measurement state)."""
    samples = [_canon_value(tuple(s)) for s in result.samples]
    branches = []
    for b in result.branches:
        branches.append([_canon_value(tuple(b.outcome)), "%s" % (b.frequency,), _state_digest(b.state)])
    return {"samples": samples, "branches": branches}


def observe_exception(e):
    return {"exception": [type(e).__name__, str(e)[:300]]}


def digest(obs):
    import json

    return hashlib.sha1(json.dumps(obs, sort_keys=True).encode()).hexdigest()[:16]


def short(obs, n=6):
    """Human-readable head of an observation for messages."""
    if "exception" in obs:
        return "raised %s: %s" % tuple(obs["exception"])

    def val(c):
        if c[0] == "t":
            return "(" + ", ".join(val(v) for v in c[1]) + ")"
        if c[0] == "f":
            return repr(float.fromhex(c[2]))
        if c[0] in ("i", "b"):
            return repr(c[2])
        return repr(c[1:])

    s = [val(c) for c in obs["samples"][:n]]
    return "[" + ", ".join(s) + (", ..." if len(obs["samples"]) > n else "") + "]"


# ---------------------------------------------------------------------------------------
# one history


def _other_run(pq, vseed):
    """Intruder: a complete, unrelated sampling run of two other simulators with their own Configs."""
    from mc import c11_programs as P

    for name, seed in (("purefock_pnm", 11), ("passive_uniform_loss", 12), ("gaussian_threshold_torontonian", 13)):
        sp = P.make(name, vseed)
        cfg = pq.Config(seed_sequence=seed, **sp.config)
        sim = sp.simulator(cfg)
        sim.execute(sp.program(), shots=3).samples


def run_history(spec, seed, shots, history=(), use_dask=False, vseed=0, sched=None):
    """[cfg = Config(seed_sequence=seed), sim = Simulator(d, config=cfg), r = sim.execute(program, shots),
    r.samples] with the intruder events of ``history`` = [(slot, intruder), ...] (stable order
    inside a slot) fired in between.  Returns the canonical observation (or the exception).

    ``sched``: a c11_sched.Scheduler -> the run is executed under the harness-owned dask
    scheduler with shared-generator proxies installed on the simulator's Config."""
    import numpy as np
    import piquasso as pq

    pin_globals()
    try:
        program = spec.program()
        # auxiliary simulator for as_code / validate before the main one exists: created BEFORE the
        # history starts, so its own Config() is not an event of the history
        aux = spec.simulator(pq.Config(**spec.config))
        env = {"sim": None, "cfg": None}

        def fire(slot):
            for sl, what in history:
                if sl != slot:
                    continue
                try:
                    fire_one(what)
                except HarnessError:
                    raise
                except Exception:
                    # the intruder itself refused (as_code of a conditioned instruction, ...): its exception is the
                    # intruder's business, the seeded run goes on
                    STATS["intruder_exceptions"] += 1

        def fire_one(what):
            if True:
                if what == "Config()":
                    pq.Config()
                elif what == "Config(seed_sequence=7)":
                    pq.Config(seed_sequence=7)
                elif what == "other_simulator_run":
                    _other_run(pq, vseed)
                elif what == "same_program_other_simulator_same_seed":
                    c2 = pq.Config(seed_sequence=seed, **spec.config)
                    spec.simulator(c2).execute(spec.program(), shots=shots).samples
                elif what == "random.random()":
                    random.random()
                elif what == "random.seed(1)":
                    random.seed(1)
                elif what == "np.random.seed(1)":
                    np.random.seed(1)
                elif what == "np.random.random()":
                    np.random.random()
                elif what == "as_code":
                    pq.as_code(program, env["sim"] or aux, shots=shots)
                elif what == "validate":
                    (env["sim"] or aux).validate(program)
                elif what == "build_program":
                    spec.program()
                else:
                    raise HarnessError("unknown intruder %r" % (what,))

        try:
            fire(0)
            kw = dict(spec.config)
            if use_dask:
                kw["use_dask"] = True
            cfg = pq.Config(seed_sequence=seed, **kw)
            env["cfg"] = cfg
            fire(1)
            sim = spec.simulator(cfg)
            env["sim"] = sim
            fire(2)
            if sched is not None:
                from mc import c11_sched

                proxies = []
                for attr, label in (("rng", "Config.rng"), ("_random", "Config._random")):
                    if hasattr(sim.config, attr):  # (_random exists since the fix of F4)
                        p = c11_sched.SharedProxy(getattr(sim.config, attr), label)
                        setattr(sim.config, attr, p)
                        proxies.append(p)
                with c11_sched.controlled(sched):
                    result = sim.execute(program, shots=shots)
                sched.shared_calls = sum(p.calls for p in proxies)
                sched.shared_task_calls = sum(p.task_calls for p in proxies)
            else:
                result = sim.execute(program, shots=shots)
            fire(3)
            return observe(result)
        except HarnessError:
            raise
        except Exception as e:  # the library's exception is an observation like any other
            return observe_exception(e)
    finally:
        unpin_globals()


def all_histories(max_intruders=2, intruders=INTRUDERS, slots=range(len(SLOTS))):
    """Every placement of <= max_intruders intruder events into the slots (order inside a slot matters)."""
    out = [()]
    if max_intruders >= 1:
        for s in slots:
            for a in intruders:
                out.append(((s, a),))
    if max_intruders >= 2:
        for s1 in slots:
            for s2 in slots:
                if s2 < s1:
                    continue
                for a in intruders:
                    for b in intruders:
                        out.append(((s1, a), (s2, b)))
    return out
