#!/venv/bin/python
"""Regenerates the machine-maintained tables of DESIGN.md (between the markers
<!-- BEGIN:<name> --> and <!-- END:<name> -->) from known_findings.json and
seeded/*/meta.json.  usage: /venv/bin/python mc/gen_tables.py"""

import glob
import json
import os
import re

VERIF = os.path.dirname(os.path.dirname(os.path.abspath(__file__)))


def findings_table():
    fs = json.load(open(os.path.join(VERIF, "known_findings.json")))["findings"]
    rows = ["| id | property | status | commit | what fails | signature the check emits |", "|---|---|---|---|---|---|"]
    for f in fs:
        what = f.get("line", f["what"])
        what = re.sub(r"^fixed: property=\S+ \S+ ", "", what)
        if f["status"] == "known":
            what = f["what"] + " — *not repaired:* " + f.get("why_not_fixed", "")
        rows.append("| %s | %s | %s | %s | %s | `%s` |" % (f["id"], f["property"], f["status"], f.get("commit", ""), what.replace("|", "\\|"), json.dumps(f["signature"], sort_keys=True)))
    return "\n".join(rows)


def seeded_table():
    rows = ["| seeded change | property | what it does / needs | suite on patched tree | caught by | signature(s) |", "|---|---|---|---|---|---|"]
    for d in sorted(glob.glob(os.path.join(VERIF, "seeded", "C*-*"))):
        mp = os.path.join(d, "meta.json")
        if not os.path.exists(mp):
            continue
        m = json.load(open(mp))
        lead = m.get("lead_confirmation", {})
        rows.append(
            "| %s | %s | %s; needs: %s | %s | %s | %s |"
            % (
                os.path.basename(d),
                m.get("property", ""),
                str(m.get("summary", "")).replace("|", "\\|"),
                str(m.get("needs_to_manifest", "")).replace("|", "\\|"),
                lead.get("suite", "not confirmed yet"),
                lead.get("caught_by", "not run yet"),
                str(lead.get("signatures", "")).replace("|", "\\|"),
            )
        )
    return "\n".join(rows)


def evidence_table():
    rows = ["| property | level | tier of the committed evidence | states | transitions | traces / evaluations | distinct non-trivial | known findings reported | wall s |", "|---|---|---|---|---|---|---|---|---|"]
    for f in sorted(glob.glob(os.path.join(VERIF, "evidence", "C*.json"))):
        e = json.load(open(f))
        c = e["coverage"]
        rows.append(
            "| %s | %s | %s | %s | %s | %s | %s | %s | %s |"
            % (
                e["property_id"], e["level"], e["tier"], c.get("states", ""), c.get("transitions", ""),
                c.get("traces_validated_against_impl", c.get("evaluations", "")), c.get("distinct_nontrivial", ""),
                ", ".join(c.get("known_findings_reported", [])) or "-", e["wall_s"],
            )
        )
    return "\n".join(rows)


def main():
    p = os.path.join(VERIF, "DESIGN.md")
    s = open(p).read()
    for name, fn in (("findings", findings_table), ("seeded", seeded_table), ("evidence", evidence_table)):
        b, e = "<!-- BEGIN:%s -->" % name, "<!-- END:%s -->" % name
        if b in s and e in s:
            s = s[: s.index(b) + len(b)] + "\n" + fn() + "\n" + s[s.index(e):]
    open(p, "w").write(s)


if __name__ == "__main__":
    main()
