"""Shared plumbing of the bounded-exhaustive checks: violations, signatures, known
findings, replays, evidence, worker pool.  See DESIGN.md section 2.1."""

import hashlib
import json
import multiprocessing
import os
import sys
import time
import traceback

VERIF = os.path.dirname(os.path.dirname(os.path.abspath(__file__)))
# VERIF_OUT redirects evidence and replays (used when a check is pointed at a scratch
# worktree with VERIF_REPO during mutation testing, so /verif/evidence is not clobbered)
_OUT = os.environ.get("VERIF_OUT") or VERIF
EVIDENCE_DIR = os.path.join(_OUT, "evidence")
REPLAY_DIR = os.path.join(_OUT, "replays")
KNOWN_FINDINGS = os.path.join(VERIF, "known_findings.json")
EVIDENCE_SCHEMA = "/root/.vp/EVIDENCE.schema.json"
EVIDENCE_SCHEMA_LOCAL = os.path.join(VERIF, "mc", "EVIDENCE.schema.json")

EXIT_OK, EXIT_VIOLATION, EXIT_HARNESS = 0, 1, 2


class HarnessError(Exception):
    """A defect of the harness itself (nondeterminism, uncaptured seam, self-test):
    exit code 2, never reported as a VIOLATION."""


def jsonable(x):
    """Best-effort conversion of cases to JSON (numpy scalars/arrays, complex, tuples,
    Fractions)."""
    import fractions

    try:
        import numpy as np
    except Exception:  # pragma: no cover
        np = None
    if x is None or isinstance(x, (bool, int, str)):
        return x
    if isinstance(x, float):
        if x != x or x in (float("inf"), float("-inf")):
            return repr(x)
        return x
    if isinstance(x, complex):
        return {"re": jsonable(x.real), "im": jsonable(x.imag)}
    if isinstance(x, fractions.Fraction):
        return "%d/%d" % (x.numerator, x.denominator)
    if isinstance(x, dict):
        return {str(k): jsonable(v) for k, v in x.items()}
    if isinstance(x, (list, tuple, set, frozenset)):
        return [jsonable(v) for v in x]
    if np is not None:
        if isinstance(x, np.ndarray):
            if x.dtype.kind == "c":
                return {"re": jsonable(x.real.tolist()), "im": jsonable(x.imag.tolist())}
            return jsonable(x.tolist())
        if isinstance(x, np.generic):
            return jsonable(x.item())
    return repr(x)


def load_known_findings():
    if not os.path.exists(KNOWN_FINDINGS):
        return []
    with open(KNOWN_FINDINGS) as fh:
        return json.load(fh)["findings"]


def _sig_matches(entry_sig, sig):
    """entry signature is a sub-dict of the violation's signature."""
    for k, v in entry_sig.items():
        if k not in sig:
            return False
        if jsonable(sig[k]) != v:
            return False
    return True


class Violation:
    def __init__(self, signature, case, message):
        self.signature = dict(signature)
        self.case = case
        self.message = message


class Check:
    """One run of one property's check.  Collects counters, violations and samples and
    writes /verif/evidence/<id>.json.  Checks call:

        ctx.count("transitions")            # counters, summed over workers
        ctx.violation(signature, case, msg) # case must be JSON-able and replayable
        ctx.sample(case)                    # a few written-out cases for the evidence
        ctx.note_distinct(key)              # distinct non-trivial case accounting
    """

    def __init__(self, prop, tier="quick", seed=0, level="model_checking"):
        self.prop = prop
        self.tier = tier
        self.seed = seed
        self.level = level
        self.counters = {}
        self.violations = []
        self.samples = []
        self.distinct = set()
        self.assumptions = []
        self.extra = {}
        self.rule = ""
        self.exhaustive = True
        self.t0 = time.time()
        self.max_samples = 6

    # -- accounting -----------------------------------------------------------------
    def count(self, key, n=1):
        self.counters[key] = self.counters.get(key, 0) + n

    def sample(self, case):
        if len(self.samples) < self.max_samples:
            self.samples.append(jsonable(case))

    def note_distinct(self, key):
        if not isinstance(key, (str, bytes, int)):
            key = json.dumps(jsonable(key), sort_keys=True)
        self.distinct.add(hashlib.sha1(key.encode() if isinstance(key, str) else str(key).encode()).digest()[:8])

    def assume(self, text):
        if text not in self.assumptions:
            self.assumptions.append(text)

    def violation(self, signature, case, message=""):
        self.violations.append(Violation(signature, jsonable(case), message))

    # -- merging worker results -----------------------------------------------------
    def export(self):
        return {
            "counters": self.counters,
            "violations": [(v.signature, v.case, v.message) for v in self.violations],
            "samples": self.samples,
            "distinct": list(self.distinct),
            "assumptions": self.assumptions,
            "extra": self.extra,
        }

    def merge(self, exported):
        for k, n in exported["counters"].items():
            if k.startswith("max_"):
                self.counters[k] = max(self.counters.get(k, 0), n)
            else:
                self.count(k, n)
        for sig, case, msg in exported["violations"]:
            self.violations.append(Violation(sig, case, msg))
        for s in exported["samples"]:
            if len(self.samples) < self.max_samples:
                self.samples.append(s)
        self.distinct.update(exported["distinct"])
        for a in exported["assumptions"]:
            self.assume(a)
        for k, v in exported.get("extra", {}).items():
            if isinstance(v, (int, float)) and isinstance(self.extra.get(k), (int, float)):
                self.extra[k] = max(self.extra[k], v) if k.startswith("max_") else self.extra[k] + v
            else:
                self.extra.setdefault(k, v)

    def child(self):
        c = Check(self.prop, self.tier, self.seed, self.level)
        c.max_samples = 2
        return c

    # -- finishing --------------------------------------------------------------------
    def finish(self, coverage):
        """Classify violations against known_findings.json, write replays + evidence,
        print protocol lines, return exit code."""
        known = [f for f in load_known_findings() if f["property"] == self.prop and f.get("status") == "known"]
        reported_known = {}
        new = {}
        for v in self.violations:
            hit = None
            for f in known:
                if _sig_matches(f["signature"], v.signature):
                    hit = f
                    break
            if hit is not None:
                reported_known.setdefault(hit["id"], [hit, 0])[1] += 1
            else:
                key = json.dumps(jsonable(v.signature), sort_keys=True)
                new.setdefault(key, v)
        for fid, (f, n) in sorted(reported_known.items()):
            print("KNOWN-FINDING: property=%s %s [%s; %d occurrence(s) this run]" % (self.prop, f["what"], fid, n))
        os.makedirs(os.path.join(REPLAY_DIR, self.prop), exist_ok=True)
        for stale in os.listdir(os.path.join(REPLAY_DIR, self.prop)):  # the directory reflects the LAST run only
            if stale.endswith(".json"):
                os.remove(os.path.join(REPLAY_DIR, self.prop, stale))
        for key, v in sorted(new.items()):
            payload = {
                "property": self.prop,
                "signature": jsonable(v.signature),
                "case": v.case,
                "message": v.message,
                "tier": self.tier,
                "seed": self.seed,
            }
            sha = hashlib.sha1(json.dumps(payload, sort_keys=True).encode()).hexdigest()[:12]
            path = os.path.join(REPLAY_DIR, self.prop, sha + ".json")
            with open(path, "w") as fh:
                json.dump(payload, fh, indent=1, sort_keys=True)
            print("VIOLATION property=%s replay=%s" % (self.prop, path))
            if v.message:
                print("  " + v.message.replace("\n", "\n  ")[:1500])
        cov = dict(coverage)
        cov.setdefault("samples", self.samples if self.samples else [{"note": "no sample recorded"}])
        cov.setdefault("rule", self.rule)
        cov.setdefault("exhaustive", self.exhaustive)
        cov.setdefault("distinct_nontrivial", len(self.distinct))
        cov["counters"] = dict(sorted(self.counters.items()))
        cov["known_findings_reported"] = sorted(reported_known)
        for k, v in self.extra.items():
            cov.setdefault(k, jsonable(v))
        evidence = {
            "property_id": self.prop,
            "tier": self.tier,
            "seed": int(self.seed),
            "level": self.level,
            "coverage": cov,
            "assumptions": self.assumptions,
            "wall_s": round(time.time() - self.t0, 3),
            "violations": len(new),
        }
        write_evidence(evidence)
        return EXIT_VIOLATION if new else EXIT_OK


def write_evidence(evidence):
    import jsonschema

    schema_path = EVIDENCE_SCHEMA if os.path.exists(EVIDENCE_SCHEMA) else EVIDENCE_SCHEMA_LOCAL
    with open(schema_path) as fh:
        schema = json.load(fh)
    try:
        jsonschema.validate(evidence, schema)
    except jsonschema.ValidationError as e:
        raise HarnessError("evidence does not validate: %s" % e.message)
    os.makedirs(EVIDENCE_DIR, exist_ok=True)
    path = os.path.join(EVIDENCE_DIR, evidence["property_id"] + ".json")
    tmp = path + ".tmp"
    with open(tmp, "w") as fh:
        json.dump(evidence, fh, indent=1, sort_keys=True)
    os.replace(tmp, path)


# ---------------------------------------------------------------------------------------
# worker pool: long-lived spawned workers, native modules preloaded, caches cleared by the
# check between independent sub-explorations.


def serialise_numba_cache():
    """numba's on-disk cache is not safe against several processes compiling the same
    function at the same time (seen: FileNotFoundError from a worker while another one was
    replacing the index file, after /repo had changed and the cache was stale).  All checks
    share NUMBA_CACHE_DIR, so loads and saves are serialised with an flock."""
    cache_dir = os.environ.get("NUMBA_CACHE_DIR")
    if not cache_dir:
        return
    try:
        import fcntl

        import numba.core.caching as nc
    except Exception:  # pragma: no cover
        return
    if getattr(nc.Cache, "_verif_locked", False):
        return
    os.makedirs(cache_dir, exist_ok=True)
    lockpath = os.path.join(cache_dir, ".verif.lock")

    def locked(fn):
        def wrapper(*a, **k):
            with open(lockpath, "a") as fh:
                fcntl.flock(fh, fcntl.LOCK_EX)
                try:
                    return fn(*a, **k)
                finally:
                    fcntl.flock(fh, fcntl.LOCK_UN)

        wrapper.__name__ = getattr(fn, "__name__", "wrapper")
        return wrapper

    nc.Cache.load_overload = locked(nc.Cache.load_overload)
    nc.Cache.save_overload = locked(nc.Cache.save_overload)
    nc.Cache._verif_locked = True


def _worker_init(builddir, extra_env):
    os.environ.update(extra_env)
    sys.path.insert(0, VERIF)
    from mc import build

    serialise_numba_cache()
    build.install_native(builddir)


def _call(args):
    modname, funcname, prop, tier, seed, level, item = args
    import importlib

    mod = importlib.import_module(modname)
    ctx = Check(prop, tier, seed, level)
    ctx.max_samples = 2
    try:
        getattr(mod, funcname)(ctx, item)
    except HarnessError:
        raise
    except Exception:
        raise HarnessError("worker crashed on item %r:\n%s" % (item, traceback.format_exc()))
    return ctx.export()


def pmap(ctx, modname, funcname, items, builddir, procs=None, env=None, chunks=1):
    """Run mod.func(child_ctx, item) for every item in a pool of spawned workers and merge
    the children into ctx.  Order of merging is the order of `items` (deterministic).

    A worker that dies (abort / segfault in native or numba code, external kill) does not
    hang the run: the unfinished items are re-run one by one, each in a fresh single-worker
    pool; an item whose worker dies AGAIN is a deterministic crash of the implementation on
    that item and is reported as a violation (signature sub=process_crash); an item that
    passes the second time means the first death came from outside -> the run continues."""
    import concurrent.futures as cf
    from concurrent.futures.process import BrokenProcessPool

    items = list(items)
    if not items:
        return
    procs = int(os.environ.get("VERIF_PROCS", "0")) or procs or min(16, os.cpu_count() or 1)
    if not os.environ.get("VERIF_PROCS"):
        # be a good neighbour on a loaded machine (results do not depend on the pool size:
        # children are merged in item order)
        try:
            load = os.getloadavg()[0]
        except OSError:
            load = 0.0
        if load > 48:
            procs = min(procs, 4)
        elif load > 20:
            procs = min(procs, 8)
    procs = max(1, min(procs, len(items)))
    args = [(modname, funcname, ctx.prop, ctx.tier, ctx.seed, ctx.level, it) for it in items]
    mp = multiprocessing.get_context("spawn")

    def pool(n):
        return cf.ProcessPoolExecutor(n, mp_context=mp, initializer=_worker_init, initargs=(builddir, env or {}))

    done = 0
    try:
        # cold numba cache (new tree): let ONE worker run the first item and populate the on-disk cache
        # before the others start, instead of 16 workers compiling the same functions at once
        cache_dir = os.environ.get("NUMBA_CACHE_DIR")
        if cache_dir and procs > 1 and len(args) > 1:
            try:
                cold = sum(len(fs) for _, _, fs in os.walk(cache_dir)) < 40
            except OSError:
                cold = False
            if cold:
                with pool(1) as ex:
                    ctx.merge(ex.submit(_call, args[0]).result())
                done = 1
        with pool(procs) as ex:
            for exported in ex.map(_call, args[done:], chunksize=chunks):
                ctx.merge(exported)
                done += 1
        return
    except BrokenProcessPool:
        pass
    ctx.count("worker_deaths")
    for a in args[done:]:
        died = 0
        for attempt in (1, 2):
            try:
                with pool(1) as ex:
                    ctx.merge(ex.submit(_call, a).result())
                break
            except BrokenProcessPool:
                died += 1
        if died == 2:
            item = a[-1]
            kind = item[0] if isinstance(item, (tuple, list)) and item and isinstance(item[0], str) else type(item).__name__
            ctx.violation(
                {"check": ctx.prop, "sub": "process_crash", "item_kind": kind},
                {"item": jsonable(item), "module": modname, "function": funcname},
                "the worker process died twice (abort/segfault) while executing work item %r: the implementation crashes the "
                "interpreter on this input" % (item,),
            )
