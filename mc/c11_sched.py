"""Harness-owned dask scheduler of the C11 check (DESIGN 2.8, private helper of mc/checks/c11.py).

piquasso's samplers call ``dask.compute(*delayed)`` with the configured scheduler.  Inside
``controlled(schedule)`` the scheduler is ``dask.config.set(scheduler=<Scheduler.get>)``: the
per-shot tasks of every ``dask.compute`` call are run as COOPERATIVE THREADS -- exactly one thread
holds the baton at any time -- and the harness decides at every *scheduling point* which task
runs next.  Scheduling points:

  * the start of a ``compute`` call and the end of every task (a free choice among the tasks
    that have not finished), and
  * a *yield point*: immediately before every call a task makes on a SHARED random source (a
    ``SharedProxy`` installed around ``Config.rng`` / ``Config._random``; the per-shot generators
    ``numpy.random.default_rng(seed + idx)`` are private to their task and are no yield points).
    Leaving a task at a yield point although it could continue is a *preemption*.

``explore(run, bound)`` enumerates EVERY schedule with at most ``bound`` preemptions by stateless
re-execution (prefix replay, depth first).  The schedules without preemption are exactly the
execution orders (permutations) of the tasks of every compute call.

Nothing here decides the property; the check compares the observation of every schedule with the
``use_dask=False`` observation.
"""

import threading

from mc.core import HarnessError

_TIMEOUT = 300.0


class SharedProxy:
    """Transparent proxy around a random source that is shared between tasks."""

    def __init__(self, real, name):
        object.__setattr__(self, "_real", real)
        object.__setattr__(self, "_name", name)
        object.__setattr__(self, "calls", 0)
        object.__setattr__(self, "task_calls", 0)

    def __getattr__(self, attr):
        target = getattr(self._real, attr)
        if not callable(target):
            return target
        proxy = self

        def call(*a, **kw):
            object.__setattr__(proxy, "calls", proxy.calls + 1)
            sched = _ACTIVE.get("sched")
            tid = getattr(_TLS, "task", None)
            if sched is not None and tid is not None:
                object.__setattr__(proxy, "task_calls", proxy.task_calls + 1)
                sched._yield_point(tid, "%s.%s" % (proxy._name, attr))
            return target(*a, **kw)

        return call

    def __setattr__(self, k, v):
        setattr(self._real, k, v)

    def __deepcopy__(self, memo):
        # Config.copy() deep-copies the config and then re-installs the shared generator
        return self

    def __reduce__(self):
        raise HarnessError("HARNESS-UNCAPTURED the shared random source proxy was pickled")


_TLS = threading.local()
_ACTIVE = {}


class Scheduler:
    """One controlled execution.  ``prefix``: the task chosen at each non-forced scheduling
    point; afterwards the default policy (no preemption; lowest task index) applies."""

    def __init__(self, prefix=()):
        self.prefix = list(prefix)
        self.pos = 0
        self.trace = []  # (alternatives, current or None, chosen)
        self.computes = 0
        self.tasks = 0
        self.yields = 0
        self.yield_labels = set()
        self.order = []  # (compute index, task index) in the order in which tasks were STARTED
        self._main = threading.Lock()
        self._main.acquire()
        self._event = None

    # ---- decisions -----------------------------------------------------------------------
    def _pick(self, runnable, cur):
        runnable = sorted(runnable)
        if len(runnable) == 1:
            return runnable[0]
        default = cur if cur is not None else runnable[0]
        if self.pos < len(self.prefix):
            chosen = self.prefix[self.pos]
            if chosen not in runnable:
                raise HarnessError(
                    "HARNESS-NONDETERMINISM schedule prefix %r does not fit the scheduling point %d (runnable %r)" % (self.prefix, self.pos, runnable)
                )
        else:
            chosen = default
        self.pos += 1
        self.trace.append((tuple(runnable), cur, chosen))
        return chosen

    def preemptions(self):
        return sum(1 for alts, cur, chosen in self.trace if cur is not None and chosen != cur)

    def children(self, bound):
        """Prefixes of the unexplored siblings of this run (standard stateless DFS)."""
        out = []
        choices = [t[2] for t in self.trace]
        pre = []
        n = 0
        for alts, cur, chosen in self.trace:
            pre.append(n)
            if cur is not None and chosen != cur:
                n += 1
        for j in range(len(self.prefix), len(self.trace)):
            alts, cur, chosen = self.trace[j]
            for a in alts:
                if a == chosen:
                    continue
                cost = pre[j] + (1 if (cur is not None and a != cur) else 0)
                if cost <= bound:
                    out.append(choices[:j] + [a])
        return out

    # ---- baton -----------------------------------------------------------------------------
    # Binary locks as semaphores: the scheduler (main thread) sleeps on ``_main``; every pooled worker
    # thread sleeps on its own ``go``.  Exactly one of them runs at any time.
    def _run_worker(self, w):
        w.go.release()
        if not self._main.acquire(timeout=_TIMEOUT):
            raise HarnessError("HARNESS-SCHEDULER-DEADLOCK task %r did not hand the baton back" % (w.job.index if w.job else None,))

    def _yield_point(self, tid, what):
        # called in a task thread that holds the baton
        self.yields += 1
        self.yield_labels.add(what)
        self._event = ("yield", tid, what)
        w = _TLS.worker
        self._main.release()
        w.go.acquire()

    # ---- the dask scheduler ------------------------------------------------------------------
    def get(self, dsk, keys, **kwargs):
        import dask
        from dask.core import flatten

        if getattr(_TLS, "task", None) is not None:
            raise HarnessError("HARNESS-UNCAPTURED nested dask.compute inside a per-shot task")
        flat = list(flatten(keys))
        n = len(flat)
        ci = self.computes
        self.computes += 1
        self.tasks += n
        workers = _pool(n)
        jobs = []
        for i in range(n):
            job = _Job(self, i, (lambda k=flat[i]: dask.get(dsk, k)))
            workers[i].job = job
            jobs.append(job)
        started = [False] * n
        try:
            cur = None
            while not all(j.done for j in jobs):
                runnable = [i for i in range(n) if not jobs[i].done]
                chosen = self._pick(runnable, cur if (cur is not None and not jobs[cur].done) else None)
                if not started[chosen]:
                    started[chosen] = True
                    self.order.append((ci, chosen))
                self._run_worker(workers[chosen])
                kind, tid, _ = self._event
                if tid != chosen:
                    raise HarnessError("HARNESS-SCHEDULER task %r reported while %r held the baton" % (tid, chosen))
                cur = chosen if kind == "yield" else None
        except BaseException:
            # suspended tasks can not be resumed: abandon the pool (daemon threads)
            del _POOL[:]
            raise
        for j in jobs:
            if isinstance(j.error, HarnessError):
                raise j.error
        for j in jobs:
            if j.error is not None:
                raise j.error
        results = {k: j.result for k, j in zip(flat, jobs)}

        def rebuild(ks):
            return [rebuild(k) if isinstance(k, list) else results[k] for k in ks]

        return rebuild(keys)


class _Job:
    def __init__(self, sched, index, fn):
        self.sched = sched
        self.index = index
        self.fn = fn
        self.result = None
        self.error = None
        self.done = False


class _Worker(threading.Thread):
    """A pooled task thread (thread creation costs milliseconds on a loaded machine)."""

    def __init__(self):
        threading.Thread.__init__(self, daemon=True)
        self.go = threading.Lock()
        self.go.acquire()
        self.job = None

    def run(self):
        while True:
            self.go.acquire()
            job = self.job
            _TLS.task = job.index
            _TLS.worker = self
            try:
                job.result = job.fn()
            except BaseException as e:  # the library's own exception is re-raised by the scheduler
                job.error = e
            _TLS.task = None
            job.done = True
            job.sched._event = ("done", job.index, None)
            self.job = None
            job.sched._main.release()


_POOL = []


def _pool(n):
    while len(_POOL) < n:
        w = _Worker()
        w.start()
        _POOL.append(w)
    return _POOL[:n]


class controlled:
    """Context manager: dask runs under ``sched``; SharedProxy calls made by tasks are yield points."""

    def __init__(self, sched):
        self.sched = sched

    def __enter__(self):
        import dask

        if _ACTIVE.get("sched") is not None:
            raise HarnessError("HARNESS-SCHEDULER nested controlled() contexts")
        _ACTIVE["sched"] = self.sched
        self._cm = dask.config.set(scheduler=self.sched.get)
        self._cm.__enter__()
        return self.sched

    def __exit__(self, *exc):
        _ACTIVE["sched"] = None
        return self._cm.__exit__(*exc)


def explore(run, bound, max_schedules=None):
    """``run(scheduler) -> observation`` is executed once per schedule.  Yields
    ``(scheduler, observation)`` for every schedule with at most ``bound`` preemptions."""
    stack = [[]]
    n = 0
    while stack:
        prefix = stack.pop()
        s = Scheduler(prefix)
        obs = run(s)
        if s.pos < len(s.prefix):
            raise HarnessError("HARNESS-NONDETERMINISM schedule prefix %r longer than the %d scheduling points met" % (s.prefix, s.pos))
        if s.preemptions() > bound:
            raise HarnessError("HARNESS-SCHEDULER preemption bound exceeded by the default policy")
        n += 1
        yield s, obs
        if max_schedules is not None and n >= max_schedules:
            return
        stack.extend(reversed(s.children(bound)))


def self_test():
    """The custom scheduler really decides the execution order, runs every task exactly once, and the
    preemption-bounded enumeration has the expected size on a toy graph."""
    import math

    import dask

    log = []
    shared = SharedProxy(_Counter(), "toy")

    def task(i, draws):
        log.append(("start", i))
        vals = [shared.next() for _ in range(draws)]
        log.append(("end", i))
        return (i, vals)

    def run(s, ntasks, draws):
        del log[:]
        object.__setattr__(shared, "_real", _Counter())
        delayed = [dask.delayed(task)(i, draws) for i in range(ntasks)]
        with controlled(s):
            out = dask.compute(*delayed)
        starts = [i for k, i in log if k == "start"]
        if sorted(starts) != list(range(ntasks)) or len(log) != 2 * ntasks:
            raise HarnessError("HARNESS-SELFTEST dask tasks were not executed exactly once: %r" % (log,))
        if [i for _, i in s.order] != starts:
            raise HarnessError("HARNESS-SELFTEST execution order %r differs from the scheduler's %r" % (starts, s.order))
        return tuple((i, tuple(v)) for i, v in out)

    # no yield points: exactly the n! orders
    for n in (1, 2, 3):
        seen = set()
        for s, obs in explore(lambda s: run(s, n, 0), bound=2):
            seen.add(tuple(i for _, i in s.order))
        if len(seen) != math.factorial(n):
            raise HarnessError("HARNESS-SELFTEST %d tasks: %d orders instead of %d" % (n, len(seen), math.factorial(n)))
    # 2 tasks x 2 draws from a shared counter: the interleavings are the words over {a, b} with 2 a's and 2 b's
    # (6); with <= 2 preemptions all of them except abab-type ones needing 3: count by brute force
    outs = {}
    traces = set()
    for s, obs in explore(lambda s: run(s, 2, 2), bound=2):
        outs[obs] = outs.get(obs, 0) + 1
        if s.preemptions() > 2:
            raise HarnessError("HARNESS-SELFTEST bound")
        key = tuple(t[2] for t in s.trace)
        if key in traces:
            raise HarnessError("HARNESS-SELFTEST schedule %r was executed twice" % (key,))
        traces.add(key)
    # distinct outcomes = distinct assignments of counter values 0..3 to (task0, task1): words with <= 2 preemptions
    words = set()
    for w in _words(2, 2):
        if _preemptions(w) <= 2:
            words.add(w)
    if len(outs) != len(words):
        raise HarnessError("HARNESS-SELFTEST 2x2 interleavings: %d distinct outcomes, expected %d" % (len(outs), len(words)))
    return True


class _Counter:
    def __init__(self):
        self.n = 0

    def next(self):
        self.n += 1
        return self.n - 1


def _words(a, b):
    if a == 0 and b == 0:
        return [""]
    out = []
    if a:
        out += ["a" + w for w in _words(a - 1, b)]
    if b:
        out += ["b" + w for w in _words(a, b - 1)]
    return out


def _preemptions(word):
    # a switch away from a task that still has draws left is a preemption
    left = {"a": word.count("a"), "b": word.count("b")}
    p = 0
    for x, y in zip(word, word[1:]):
        left[x] -= 1
        if x != y and left[x] > 0:
            p += 1
    return p
