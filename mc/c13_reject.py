"""C13 helper: reject side -- per-simulator alphabets, enumeration of the valid base programs,
and the single-fault mutation operators."""

from mc import c13_programs as P
from mc import c13_documented_errors as DE

BAD_SHOTS = [0, -1, 1.5, "2"]


def base_placements(simname, name, d, tier):
    a = P.arity(name)
    cls = P.universe()[name]
    if name in P.ALL_MODES_ONLY or name in P.WHOLE_REGISTER_PREPS:
        return [None]
    if name in ("PostSelectPhotons", "ImperfectPostSelectPhotons"):
        return [[d - 1]]
    if name in ("Create", "Annihilate"):
        return [[0]]  # the photon of the one-photon preparations lives on mode 0
    if a is not None:
        if a > d:
            return []
        p1 = list(range(a))
        p2 = list(range(d - 1, d - 1 - a, -1))
        if simname == "fermionic.PureFockSimulator":
            return [p1]  # that backend only takes consecutive ascending modes
        if tier == "thorough":
            return [p1] if p1 == p2 else [p1, p2]
        return [p2]
    if P.kind_of(cls) == "meas":
        return [None] if d == 1 else [None, [d - 1]]
    if tier == "thorough" and d > 1:
        return [None, [d - 1]]
    return [None]


def alphabet(simname, d, cutoff, seed, tier):
    """Templates of the base programs: every class of the simulator's _instruction_map
    (batch containers excluded) with the placements above and generic valid parameters."""
    sim = P.sim_class(simname)
    uni = P.universe()
    out = []
    for cls in sim._instruction_map:
        name = cls.__name__
        if uni.get(name) is not cls:
            continue
        kind = P.kind_of(cls)
        midok = kind == "meas" and issubclass(cls, sim._measurement_classes_allowed_mid_circuit)
        for pl in base_placements(simname, name, d, tier):
            k = d if pl is None else len(pl)
            photons = 1 if (name in P.WHOLE_REGISTER_PREPS and name != "Thermal" and cutoff >= 2) else 0
            kw = P.valid_kw(name, k, d, cutoff, seed, simname, photons)
            out.append({"cls": name, "modes": pl, "kw": kw, "kind": kind, "midok": midok})
    return out


def _spec(t):
    return {"cls": t["cls"], "modes": None if t["modes"] is None else list(t["modes"]), "kw": t["kw"]}


STATE_DEFINING = {
    "Vacuum", "NumberState", "StateVector", "FockStateVector", "DensityMatrix", "DistinguishableNumberState",
    "ParentHamiltonian",
}
# simulators whose create_initial_state() is already a valid state (vacuum); the Fock-type, passive
# and fermionic simulators start from an EMPTY / unset state (norm 0, no occupation list, correlation
# matrix not set), so a program without a state-defining preparation is not a valid program there
DEFAULT_STATE_VALID = {"GaussianSimulator"}


class _St:
    __slots__ = ("prepared", "seen_nonprep", "closed", "measured", "photons")

    def __init__(self, prepared=False):
        self.prepared = prepared
        self.seen_nonprep = False
        self.closed = False
        self.measured = frozenset()
        self.photons = 0

    def copy(self):
        s = _St()
        s.prepared, s.seen_nonprep, s.closed, s.measured, s.photons = (
            self.prepared, self.seen_nonprep, self.closed, self.measured, self.photons)
        return s


def _step(st, t, d, cutoff):
    """Harness-side structural validity of appending template t; returns the new state or None."""
    if st.closed:
        return None
    n = st.copy()
    name = t["cls"]
    if t["kind"] == "prep":
        if st.seen_nonprep:
            return None
        if name in STATE_DEFINING:
            n.prepared = True
            if name in P.WHOLE_REGISTER_PREPS:
                n.photons = max(n.photons, 1)
        elif not st.prepared:
            return None
        if name == "Create":
            n.photons += 1
        elif name == "Annihilate":
            if st.photons < 1:
                return None
            n.photons -= 1
        if n.photons >= cutoff:
            return None
        return n
    if not st.prepared:
        return None
    n.seen_nonprep = True
    if st.measured:
        if t["modes"] is None:
            if t["kind"] != "meas":
                return None
        elif set(t["modes"]) & st.measured:
            return None
    if t["kind"] == "meas":
        if t["modes"] is None:
            n.closed = True
        else:
            n.measured = st.measured | frozenset(t["modes"])
            if len(n.measured) >= d:
                n.closed = True
        if not t["midok"]:
            n.closed = True
    return n


def _run_steps(simname, seq, d, cutoff):
    st = _St(prepared=simname in DEFAULT_STATE_VALID)
    for t in seq:
        st = _step(st, t, d, cutoff)
        if st is None:
            return None
    return st


def prefixes(simname, alpha, d, cutoff):
    """Preparation prefixes of the base programs.  Index 0 is the canonical one (one photon on
    mode 0 / vacuum for the Gaussian simulator); then [P] for every state-defining preparation
    P and [canonical, P] for every preparation P of the alphabet ([] too where the default
    initial state is a valid state)."""
    preps = [t for t in alpha if t["kind"] == "prep"]
    want = {"GaussianSimulator": "Vacuum", "FockSimulator": "DensityMatrix"}.get(simname, "NumberState")
    canon = [t for t in preps if t["cls"] == want][:1]
    out = [canon]
    if simname in DEFAULT_STATE_VALID:
        out.append([])
    for t in preps:
        if [t] != canon and _run_steps(simname, [t], d, cutoff) is not None:
            out.append([t])
    for t in preps:
        if _run_steps(simname, canon + [t], d, cutoff) is not None:
            out.append(canon + [t])
    return out


def body_alphabet(alpha):
    return [t for t in alpha if t["kind"] != "prep"]


def representatives(simname, body):
    """One template per (simulation step function, number of addressed modes, kind, mid-circuit
    flag): the alphabet of the depth-3 bodies of the thorough tier."""
    sim = P.sim_class(simname)
    seen = set()
    out = []
    for t in body:
        fn = sim._instruction_map[P.universe()[t["cls"]]]
        key = (getattr(fn, "__qualname__", repr(fn)), None if t["modes"] is None else len(t["modes"]), t["kind"], t["midok"])
        if key not in seen:
            seen.add(key)
            out.append(t)
    return out


def bodies(simname, prefix, body, d, cutoff, depth, first=None, exact=None):
    """Every structurally valid continuation of `prefix` by <= depth templates of `body`
    (first: index of the first body template, -1 = the empty body only; exact: only bodies of
    exactly that length)."""
    st0 = _run_steps(simname, prefix, d, cutoff)
    out = []
    if st0 is None:
        return out

    def rec(seq, st):
        if (seq or first in (None, -1)) and (exact is None or len(seq) == exact):
            out.append(list(prefix) + list(seq))
        if len(seq) >= depth or first == -1:
            return
        for i, t in enumerate(body):
            if not seq and first is not None and i != first:
                continue
            n = _step(st, t, d, cutoff)
            if n is None:
                continue
            seq.append(t)
            rec(seq, n)
            seq.pop()

    rec([], st0)
    return out


def _closing_index(base):
    """Index of the first instruction after which nothing may follow (None if open)."""
    measured = set()
    for i, t in enumerate(base):
        if t["kind"] == "meas":
            if t["modes"] is None or not t["midok"]:
                return i
            measured |= set(t["modes"])
    return None


def _n_preps(base):
    n = 0
    for t in base:
        if t["kind"] != "prep":
            break
        n += 1
    return n


def _insert_positions(base, kind):
    n = len(base)
    npre = _n_preps(base)
    close = _closing_index(base)
    if kind == "prep":
        return [("insert", q) for q in range(0, npre + 1)]
    if kind == "gate":
        hi = n if close is None else close
        return [("insert", q) for q in range(npre, hi + 1)]
    # measurement: must be the last instruction
    if close is not None:
        return [("replace", close)] if close == n - 1 else []
    return [("insert", n)]


def _apply(base_specs, how, q, spec):
    out = [dict(s) for s in base_specs]
    if how == "insert":
        out.insert(q, spec)
    else:
        out[q] = spec
    return out


def foreign_specs(simname, d, cutoff, seed):
    sim = P.sim_class(simname)
    have = set(sim._instruction_map)
    out = []
    for name, cls in sorted(P.universe().items()):
        if cls in have:
            continue
        a = P.arity(name)
        if a is not None and a > d:
            continue
        if name in P.ALL_MODES_ONLY or name in P.WHOLE_REGISTER_PREPS or a is None:
            modes, k = None, d
        else:
            modes, k = list(range(a)), a
        if name in ("PostSelectPhotons", "ImperfectPostSelectPhotons"):
            modes, k = [d - 1], 1
        kw = P.valid_kw(name, k, d, cutoff, seed, simname, 0)
        out.append({"cls": name, "modes": modes, "kw": kw, "kind": P.kind_of(cls)})
    return out


def wrong_states(simname):
    """Names of simulators whose state class is NOT accepted as initial_state by simname
    (closest relatives first)."""
    order = {
        "GaussianSimulator": ["fermionic.GaussianSimulator", "PureFockSimulator"],
        "PureFockSimulator": ["FockSimulator", "fermionic.PureFockSimulator"],
        "FockSimulator": ["PureFockSimulator", "GaussianSimulator"],
        "PassiveSimulator": ["PureFockSimulator", "GaussianSimulator"],
        "fermionic.GaussianSimulator": ["GaussianSimulator", "fermionic.PureFockSimulator"],
        "fermionic.PureFockSimulator": ["PureFockSimulator", "fermionic.GaussianSimulator"],
    }
    return order[simname]


def mutations(simname, d, cutoff, base, alpha, foreign, seed):
    """All single-fault mutations of one base program.  Yields dicts
    {rule, program, shots, init, route, pos}."""
    sim = P.sim_class(simname)
    specs = [_spec(t) for t in base]
    n = len(base)
    npre = _n_preps(base)
    measured_before = []
    m = set()
    for t in base:
        measured_before.append(set(m))
        if t["kind"] == "meas" and t["modes"] is not None:
            m |= set(t["modes"])

    def emit(rule, program, pos, shots=1, init=None, routes=("on_modes",)):
        for r in routes:
            yield {"rule": rule, "program": program, "shots": shots, "init": init, "route": r, "pos": pos}

    both = ("on_modes", "Q")
    # --- mode faults and arity faults, at every position and every slot -----------------------
    for i, t in enumerate(base):
        modes = t["modes"]
        if modes is None:
            continue
        for j in range(len(modes)):
            for rule, v in (("mode_negative", -1), ("mode_out_of_range", d)):
                mm = list(modes)
                mm[j] = v
                prog = [dict(s) for s in specs]
                prog[i] = dict(specs[i], modes=mm)
                yield from emit(rule, prog, i, routes=both)
            for k in range(len(modes)):
                if k != j:
                    mm = list(modes)
                    mm[j] = modes[k]
                    prog = [dict(s) for s in specs]
                    prog[i] = dict(specs[i], modes=mm)
                    yield from emit("mode_duplicated", prog, i, routes=both)
        a = P.fixed_arity(t["cls"])
        if a is not None:
            unused = [x for x in range(d) if x not in modes and x not in measured_before[i]]
            if unused:
                prog = [dict(s) for s in specs]
                prog[i] = dict(specs[i], modes=list(modes) + [unused[0]])
                yield from emit("arity_plus_1", prog, i, routes=both)
            active = d - len(measured_before[i])
            if a >= 2 or active != 1:
                prog = [dict(s) for s in specs]
                prog[i] = dict(specs[i], modes=list(modes)[:-1])
                yield from emit("arity_minus_1", prog, i, routes=both)
    # --- a preparation moved after a gate -------------------------------------------------------
    for i in range(npre):
        rest = [s for k, s in enumerate(specs) if k != i]
        rest_t = [t for k, t in enumerate(base) if k != i]
        close = _closing_index(rest_t)
        hi = len(rest) if close is None else close
        for q in range(npre, hi + 1):  # npre-1 preps remain, so q >= npre is after >= 1 non-preparation
            prog = list(rest)
            prog.insert(q, specs[i])
            yield from emit("preparation_after_gate", prog, q)
    # --- an instruction class outside _instruction_map, at every position -----------------------
    for f in foreign:
        for how, q in _insert_positions(base, f["kind"]):
            yield from emit("unsupported_instruction", _apply(specs, how, q, _spec(f)), q)
    # --- a measurement that is not allowed mid-circuit, moved before the end ----------------------
    close = _closing_index(base)
    for t in alpha:
        if t["kind"] != "meas" or t["midok"]:
            continue
        hi = (n - 1) if close is None else min(close, n - 1)
        for q in range(npre, hi + 1):
            if q > n - 1:
                continue
            if measured_before[q] and t["modes"] is not None and set(t["modes"]) & measured_before[q]:
                continue
            yield from emit("measurement_mid_circuit", _apply(specs, "insert", q, _spec(t)), q)
    # --- shots ---------------------------------------------------------------------------------
    for s in BAD_SHOTS:
        yield from emit("shots_invalid", specs, None, shots=s)
    allowed_none = sim._measurement_classes_allowed_with_shots_none
    for i, t in enumerate(base):
        if t["kind"] == "meas" and not issubclass(P.universe()[t["cls"]], allowed_none):
            yield from emit("shots_none_unsupported", specs, i, shots=None)
            break
    # --- initial state ---------------------------------------------------------------------------
    for other in wrong_states(simname):
        yield from emit("initial_state_class", specs, None, init={"state_of": other, "d": d})
    for dd in (d + 1, d - 1):
        if dd >= 1:
            yield from emit("initial_state_d", specs, None, init={"state_of": simname, "d": dd})
    # --- documented parameter violations (execution-time ones), at every position ---------------
    have = {c.__name__ for c in sim._instruction_map}
    for e in DE.TABLE:
        if e["when"] != "execution" or e["cls"] not in have:
            continue
        bad = e["make"](d, cutoff)
        if bad is None:
            continue
        kind = P.kind_of(P.universe()[e["cls"]])
        for how, q in _insert_positions(base, kind):
            if measured_before[q] if q < n else m:
                # after a partial measurement the inserted instruction must stay on unmeasured modes
                mb = measured_before[q] if q < n else m
                if (bad["modes"] is None and kind != "meas") or (bad["modes"] is not None and set(bad["modes"]) & mb):
                    continue
            mut = {"rule": DE.rule_name(e), "program": _apply(specs, how, q, bad), "shots": 1, "init": None,
                   "route": "on_modes", "pos": q, "entry": e["id"]}
            yield mut
