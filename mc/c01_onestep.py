"""Glue between the live piquasso states of the C01 lock-step explorer and the one-step reference oracles of
mc/refmodel/onestep.py: take the implementation's OWN parent state, predict the child state, compare all components.

check_fock(parent, child, action, d, cutoff, seed)  -> None (no oracle for this action / state class) or a dict
check_gauss(parent, child, action, d, hbar, seed)   -> None or a dict
    dict(ok, observable, component|block, dev, where, sensitive) ; `sensitive` is a measured coverage flag:
    Fock Attenuator : the parent has a coherence |n><m| with n != m, both >= 1, in the attenuated mode (|.| > 1e-6)
    Gaussian        : active gate with a complex active block on a subset of modes whose C or G cross-correlations
                      with the untouched modes are non-zero (> 1e-6)
"""

import numpy as np

TOL = 1e-9
_SELFTESTED = []


def _ref():
    from mc.refmodel import onestep as OS

    if not _SELFTESTED:
        OS.selftest()
        _SELFTESTED.append(True)
    return OS


def _failing(a, b, tol=TOL):
    """boolean array of the entries outside |a-b| <= tol + tol*max(|a|,|b|), and the deviation array"""
    a, b = np.asarray(a), np.asarray(b)
    diff = np.abs(a - b)
    bad = ~(diff <= tol + tol * np.maximum(np.abs(a), np.abs(b)))  # NaN counts as failing
    return bad, diff


def _worst(bad, diff, sel=None):
    m = bad if sel is None else (bad & sel)
    if not m.any():
        return None
    dd = np.where(m, np.where(np.isfinite(diff), diff, np.inf), -1.0)
    i = int(np.argmax(dd))
    return tuple(int(x) for x in np.unravel_index(i, dd.shape)), float(dd.flat[i])


_BASIS = {}


def _mode_column(d, cutoff, mode):
    from mc import lockstep as L

    key = (d, cutoff)
    if key not in _BASIS:
        _BASIS[key] = np.array(L.fock_basis(d, cutoff))
    return _BASIS[key][:, mode]


def check_fock(parent, child, action, d, cutoff, seed):
    from mc import lockstep as L

    OS = _ref()
    cls, modes, params = action
    if cls not in OS.FOCK_ONE_STEP:
        return None
    p_pure = type(parent).__name__ == "PureFockState"
    c_pure = type(child).__name__ == "PureFockState"
    if type(parent).__name__ not in ("PureFockState", "FockState") or type(child).__name__ not in ("PureFockState", "FockState"):
        return None
    P = L.resolve_params(params, seed)
    psv = np.asarray(parent.state_vector, dtype=complex) if p_pure else None
    pdm = None if p_pure else np.asarray(parent.density_matrix, dtype=complex)
    sensitive = False
    if cls == "Attenuator":
        M = tuple(modes) if len(modes) else tuple(range(d))
        n = _mode_column(d, cutoff, M[0])
        rho = np.outer(psv, psv.conj()) if p_pure else pdm
        sel = (n[:, None] != n[None, :]) & (n[:, None] >= 1) & (n[None, :] >= 1)
        sensitive = bool(sel.any() and np.max(np.abs(rho[sel])) > 1e-6)
    sv_ref, dm_ref = OS.fock_child(cls, modes, P, d, cutoff, parent_sv=psv, parent_dm=pdm)
    out = {"ok": True, "sensitive": sensitive, "dev": 0.0, "where": None}
    if c_pure:
        if sv_ref is None:  # a channel returned a pure state object: compare its density matrix
            a, b, out["observable"] = np.asarray(child.density_matrix, dtype=complex), dm_ref, "density_matrix"
        else:
            a, b, out["observable"] = np.asarray(child.state_vector, dtype=complex), sv_ref, "state_vector"
    else:
        if dm_ref is None:
            dm_ref = np.outer(sv_ref, sv_ref.conj())
        a, b, out["observable"] = np.asarray(child.density_matrix, dtype=complex), dm_ref, "density_matrix"
    if a.shape != b.shape:
        out.update(ok=False, component="shape", dev=float("inf"))
        return out
    bad, diff = _failing(a, b)
    out["dev"] = float(np.max(diff)) if diff.size and np.all(np.isfinite(diff)) else (float("inf") if diff.size else 0.0)
    if bad.any():
        out["ok"] = False
        if a.ndim == 1:
            out["component"] = "amplitude"
            out["where"], out["dev"] = _worst(bad, diff)
        else:
            eye = np.eye(len(a), dtype=bool)
            w = _worst(bad, diff, eye)
            out["component"] = "population" if w is not None else "coherence"
            out["where"], out["dev"] = w if w is not None else _worst(bad, diff, ~eye)
    return out


def gauss_kind(cls):
    OS = _ref()
    if cls in OS.PASSIVE:
        return "passive"
    if cls in OS.ACTIVE_LINEAR:
        return "active"
    if cls in OS.DISPLACEMENTS:
        return "displacement"
    return "attenuator"


def check_gauss(parent, child, action, d, hbar, seed):
    from mc import lockstep as L

    OS = _ref()
    cls, modes, params = action
    if cls not in OS.GAUSS_ONE_STEP or type(parent).__name__ != "GaussianState" or type(child).__name__ != "GaussianState":
        return None
    P = L.resolve_params(params, seed)
    M = tuple(modes) if len(modes) else tuple(range(d))
    aux = [m for m in range(d) if m not in M]
    pm, pC, pG = (np.asarray(x, dtype=complex) for x in (parent._m, parent._C, parent._G))
    cm, cC, cG = (np.asarray(x, dtype=complex) for x in (child._m, child._C, child._G))
    sensitive = False
    if aux and gauss_kind(cls) == "active" and OS.active_block_is_complex(cls, P):
        ix = np.ix_(list(M), aux)
        sensitive = bool(max(np.max(np.abs(pC[ix])), np.max(np.abs(pG[ix]))) > 1e-6)
    mean0, cov0 = OS.moments_xxpp_complex(pm, pC, pG, hbar)
    mean1, cov1 = OS.moments_xxpp_complex(cm, cC, cG, hbar)
    out = {"ok": True, "sensitive": sensitive, "dev": 0.0, "where": None, "observable": "mean+covariance"}
    if max(np.max(np.abs(mean0.imag)), np.max(np.abs(cov0.imag)), np.max(np.abs(cov0 - cov0.T))) > 1e-9 * max(1.0, hbar):
        return None  # the parent itself is not a valid moment set (reported by the transition that produced it)
    mean_ref, cov_ref = OS.gauss_child(cls, M, P, d, hbar, mean0.real, cov0.real)
    badm, diffm = _failing(mean1, mean_ref)
    badc, diffc = _failing(cov1, cov_ref)
    out["dev"] = float(max(np.max(diffm), np.max(diffc)))
    if not np.isfinite(out["dev"]):
        out["dev"] = float("inf")
    if badm.any():
        out["ok"] = False
        out["block"] = "mean"
        out["where"], out["dev"] = _worst(badm, diffm)
    elif badc.any():
        out["ok"] = False
        mode_of = np.arange(2 * d) % d
        addressed = np.isin(mode_of, list(M))
        both = addressed[:, None] & addressed[None, :]
        none = (~addressed)[:, None] & (~addressed)[None, :]
        for name, sel in (("addressed", both), ("cross_auxiliary", ~both & ~none), ("auxiliary", none)):
            w = _worst(badc, diffc, sel)
            if w is not None:
                out["block"] = name
                out["where"], out["dev"] = w
                break
    return out
