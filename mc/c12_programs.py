"""C12 helper: the finite alphabet of adaptive programs, serialisable templates, building
live piquasso objects from a template (optionally with ONE armed fault), operations and
result fingerprints.

A *template* is JSON: {"sim": name, "prefix": [...], "body": [...]} where every
instruction is {"cls", "modes" (list | null = all modes), "params": {name: [kind, value]},
"cond": null | [kind, value]} and kind is
  "f" float literal, "l" list literal, "s" expression string, "c" named callable,
  "a" named catalogue array (a fresh copy is handed to the instruction).
"""

import itertools
import random
import re

import numpy as np

from mc import c12_faults as F

D = 4
M_MODES = [3, 1]  # mid-circuit measurement on a non-ascending partial tuple -> active (0, 2)

SIMS = {
    "PureFock": {"cls": "PureFockSimulator", "cutoff": 5, "shots": None},
    "Fock": {"cls": "FockSimulator", "cutoff": 5, "shots": None},
    "Gaussian": {"cls": "GaussianSimulator", "cutoff": 5, "shots": 2},
    # no explicit cutoff: the passive preparation then *infers* one and writes it into the state's own Config copy
    "Passive": {"cls": "PassiveSimulator", "cutoff": None, "shots": None},
}
SIM_ORDER = ["PureFock", "Fock", "Gaussian", "Passive"]


# ---------------------------------------------------------------------------------------
# catalogue of generic values (the only thing VERIF_SEED changes)

_CAT = {}


def _unitary(rng, n):
    z = rng.normal(size=(n, n)) + 1j * rng.normal(size=(n, n))
    q, r = np.linalg.qr(z)
    ph = np.diag(r) / np.abs(np.diag(r))
    return np.ascontiguousarray(q * ph)


def catalogue(seed):
    c = _CAT.get(seed)
    if c is not None:
        return c
    rng = np.random.default_rng(4200 + int(seed))
    ang = [round(0.15 + 0.11 * i + 0.013 * ((7 * seed + 3 * i) % 11), 6) for i in range(8)]
    arrays = {"U1": _unitary(rng, 1), "U2": _unitary(rng, 2), "U4": _unitary(rng, 4)}
    pristine = {k: v.copy() for k, v in arrays.items()}
    U2, U4 = arrays["U2"], arrays["U4"]
    a0, a1 = ang[0], ang[1]

    def lam_affine(x):  # works with and without outcomes
        return a0 + 0.1 * float(sum(x))

    def lam_last(x):
        return a1 * float(x[-1])

    def lam_U_by_len(x):  # "all modes" interferometer: 4 active modes before M, 2 after
        return U4 if len(x) == 0 else U2

    def cond_first_zero(x):
        return len(x) > 0 and x[0] == 0

    def cond_first_negative(x):
        return len(x) > 0 and x[0] < 0

    def cond_true(x):
        return True

    c = {
        "seed": seed,
        "ang": ang,
        "arrays": arrays,
        "pristine": pristine,
        "callables": {
            "lam_affine": lam_affine,
            "lam_last": lam_last,
            "lam_U_by_len": lam_U_by_len,
            "cond_first_zero": cond_first_zero,
            "cond_first_negative": cond_first_negative,
            "cond_true": cond_true,
        },
    }
    _CAT[seed] = c
    return c


def catalogue_intact(cat):
    return [k for k, v in cat["arrays"].items() if not np.array_equal(v, cat["pristine"][k]) or not v.flags.writeable]


# ---------------------------------------------------------------------------------------
# alphabet


def _ins(cls, modes, params=None, cond=None):
    return {"cls": cls, "modes": modes, "params": params or {}, "cond": cond}


def prefix_for(sim, cat):
    """Preparation plus a fixed mixing interferometer (ndarray parameter), so that the
    mid-circuit measurement has several outcomes and later instructions run once per branch."""
    a = cat["ang"]
    mix = _ins("Interferometer", [0, 1, 2, 3], {"matrix": ["a", "U4"]})
    if sim == "PureFock":
        return [_ins("NumberState", None, {"occupation_numbers": ["l", [1, 1, 0, 0]]}), mix]
    if sim == "Passive":
        return [_ins("NumberState", None, {"occupation_numbers": ["l", [2, 1, 1, 0]]}), mix]
    if sim == "Fock":
        return [_ins("Vacuum", None), _ins("Create", [0]), _ins("Create", [1]), mix]
    if sim == "Gaussian":
        return [
            _ins("Vacuum", None),
            _ins("Squeezing", [0], {"r": ["f", 0.2], "phi": ["f", a[2]]}),
            _ins("Squeezing", [1], {"r": ["f", 0.15], "phi": ["f", 0.0]}),
            _ins("Displacement", [3], {"r": ["f", 0.1], "phi": ["f", a[3]]}),
            mix,
        ]
    raise KeyError(sim)


def symbols_for(sim, cat):
    a = cat["ang"]
    gauss = sim == "Gaussian"
    s = {
        "BS": _ins("Beamsplitter", [2, 0], {"theta": ["f", a[4]], "phi": ["f", a[5]]}),
        "PSs": _ins("Phaseshifter", [2], {"phi": ["s", "x[0]*0.1"]}),
        "MZ": _ins("MachZehnder", [0, 2], {"int_": ["s", " x[-1]*0.2 + 0.1"], "ext": ["c", "lam_affine"]}),
        "PSl": _ins(
            "Phaseshifter", [2], {"phi": ["f", a[6]]}, ["c", "cond_first_negative" if gauss else "cond_first_zero"]
        ),
        "Iall": _ins("Interferometer", None, {"matrix": ["c", "lam_U_by_len"]}),
        "Iarr": _ins("Interferometer", [0, 2], {"matrix": ["a", "U2"]}),
        "B1": _ins("Beamsplitter", [0, 1], {"theta": ["c", "lam_affine"], "phi": ["f", a[7]]}),
    }
    if gauss:
        s["Kc"] = _ins("PositionDisplacement", [0], {"x": ["f", 0.1]}, ["s", "x[0] > 0"])
        s["M"] = _ins("HomodyneMeasurement", list(M_MODES), {"phi": ["f", 0.3]})
    else:
        s["Kc"] = _ins("Kerr", [0], {"xi": ["c", "lam_last"]}, ["s", "x[-1] == 1"])
        s["M"] = _ins("ParticleNumberMeasurement", list(M_MODES))
    return s


RICH = [
    ["M", "PSs", "MZ", "Kc"],
    ["BS", "M", "Iall", "PSl"],
    ["Iarr", "M", "MZ", "BS"],
    ["Iall", "PSl", "M", "Kc"],
]


def bodies(tier, sim="PureFock"):
    """Every sequence over the alphabet up to the depth ("every placement"), as lists of
    symbol names, in a deterministic order.  The Fock simulators have no mid-circuit
    measurement, so a body with M before the end is a naturally failing program there."""
    out = [[]]
    if tier == "quick":
        if sim == "Fock":  # no mid-circuit measurement there: only the four RICH programs in the quick tier
            return [list(b) for b in RICH]
        alpha = ["PSs", "MZ", "Iall", "M"]
        for n in (1, 2):
            out += [list(t) for t in itertools.product(alpha, repeat=n)]
    else:
        alpha9 = ["BS", "PSs", "MZ", "Kc", "PSl", "Iall", "Iarr", "M", "B1"]
        for n in (1, 2):
            out += [list(t) for t in itertools.product(alpha9, repeat=n)]
        out += [list(t) for t in itertools.product(alpha9[:-1], repeat=3)]
        small = ["PSs", "MZ", "Iall", "Kc"]
        for pos in range(4):
            for t in itertools.product(small, repeat=3):
                b = list(t)
                b.insert(pos, "M")
                out.append(b)
    for b in RICH:
        if b not in out:
            out.append(list(b))
    return out


def line_bodies(tier, sim="PureFock"):
    """Programs under the line-level ("every crash point") injector."""
    if tier == "quick":
        return {"PureFock": [RICH[0]]}.get(sim, [])
    alpha = ["BS", "PSs", "MZ", "Kc", "PSl", "Iall", "Iarr", "M"]
    out = [[]] + [[s] for s in alpha]
    out += [["M", s] for s in alpha if s != "M"] + [[s, "M"] for s in alpha if s != "M"]
    out += [list(b) for b in RICH]
    out += [["M", "MZ", "PSs"], ["M", "Iall", "Kc"], ["PSs", "M", "MZ"], ["Iall", "M", "Iall"], ["M", "Kc", "PSl", "Iarr"]]
    return out


def template(sim, body, cat):
    sy = symbols_for(sim, cat)
    return {"sim": sim, "prefix": prefix_for(sim, cat), "body": [dict(sy[b], sym=b) for b in body], "name": "-".join(body) or "empty"}


# ---------------------------------------------------------------------------------------
# building live objects


class Env:
    pass


def _param_value(spec, cat, env, label):
    kind, v = spec
    if kind == "f":
        return float(v)
    if kind == "l":
        return list(v)
    if kind == "s":
        return str(v)
    if kind == "c":
        return cat["callables"][v]
    if kind == "a":
        arr = cat["arrays"][v].copy()
        env.arrays[label] = arr
        return arr
    raise KeyError(kind)


def _compile(spec, cat):
    """callable equivalent of a parameter / condition spec (what piquasso would evaluate)."""
    from piquasso.core._expressions import Expression

    kind, v = spec
    if kind == "s":
        return Expression(v), True
    if kind == "c":
        return cat["callables"][v], True
    if kind == "a":
        return cat["arrays"][v].copy(), False
    return (float(v) if kind == "f" else v), False


STAGES = ["condition", "param", "validate_sub", "validate_native", "step_entry", "step_exit"]
STAGE_CLASS = {
    "condition": "condition",
    "param": "parameter_resolution",
    "validate_sub": "validate",
    "validate_native": "validate",
    "step_entry": "simulation_step",
    "step_exit": "simulation_step",
    "line": "line",
    "natural": "natural",
}


def fault_applicable(ins_spec, stage):
    if stage == "param":
        return any(s[0] in ("f", "s", "c") for s in ins_spec["params"].values())
    if stage == "validate_native":
        return ins_spec["cls"] == "Interferometer"
    return True


def _make_instruction(pq, spec, cat, env, k, fault):
    """One live instruction from its spec; `fault` (for this position) may replace a
    parameter / the condition by a probe or the class by the validate-subclass."""
    cls = getattr(pq, spec["cls"])
    stage = fault["stage"] if fault else None
    b = fault["b"] if fault else None
    params = {}
    probed = None
    if stage == "param":
        for name, s in spec["params"].items():
            if s[0] in ("f", "s", "c"):
                probed = name
                break
    elif stage == "validate_native":
        probed = "matrix"
    for name, s in spec["params"].items():
        if name == probed:
            inner, is_callable = _compile(s, cat)
            if stage == "param":
                pr = F.ParamProbe(inner, is_callable, fail_at=b, mode="raise")
            else:
                pr = F.ParamProbe(inner, is_callable, fail_at=b, mode="invalid", invalid=np.ones((1, 2)))
            env.probes.append(pr)
            params[name] = pr
        else:
            params[name] = _param_value(s, cat, env, "instr%d.%s" % (k, name))
    if stage == "validate_sub":
        cls = F.faulty_validate_class(cls)
    ins = cls(**params)
    cond = spec.get("cond")
    if stage == "condition":
        inner = _compile(cond, cat)[0] if cond else None
        pr = F.CondProbe(inner, fail_at=b)
        env.probes.append(pr)
        ins.when(pr)
    elif cond:
        ins.when(cond[1] if cond[0] == "s" else cat["callables"][cond[1]])
    return ins


def _arm_identity_probes(env, fault, instructions):
    if not fault or fault.get("kind") != "stage":
        return
    k = fault["k"]
    ins = instructions[k]
    if fault["stage"] == "validate_sub":
        pr = F.Probe(fail_at=fault["b"])
        F.arm_validate(ins, pr)
        env.probes.append(pr)
    elif fault["stage"] in ("step_entry", "step_exit"):
        pr = F.StepProbe("entry" if fault["stage"] == "step_entry" else "exit", fail_at=fault["b"])
        F.arm_step(ins, pr)
        env.probes.append(pr)


def build(tpl, cat, fault=None, variant="with", split_prefix=False, seed=0):
    """Live objects for one case.  fault: None | {"kind":"stage","k","stage","b"} (k indexes
    prefix+body, or body only when split_prefix) | {"kind":"line","n"} (armed by the caller).
    split_prefix: the prefix is executed on a separate simulator to produce `initial_state`
    and the program under test is the body alone."""
    import piquasso as pq

    env = Env()
    env.tpl, env.fault, env.variant = tpl, fault, variant
    env.probes, env.arrays = [], {}
    simspec = SIMS[tpl["sim"]]
    env.shots = simspec["shots"]
    base = getattr(pq, simspec["cls"])
    env.config = pq.Config(cutoff=simspec["cutoff"], seed_sequence=1000 + seed)
    env.rng_state0 = env.config.rng.bit_generator.state
    pyrandom = getattr(env.config, "_random", None)  # trees where the Config owns a random.Random
    env.pyrandom_state0 = pyrandom.getstate() if isinstance(pyrandom, random.Random) else None
    env.random_state0 = _random_state0()
    specs = list(tpl["body"]) if split_prefix else list(tpl["prefix"]) + list(tpl["body"])
    sf = fault if (fault and fault.get("kind") == "stage") else None
    made = [_make_instruction(pq, s, cat, env, k, sf if (sf and sf["k"] == k) else None) for k, s in enumerate(specs)]
    if variant == "list":
        lst = []
        for ins, s in zip(made, specs):
            lst.append(ins.on_modes(*s["modes"]) if s["modes"] is not None else ins)
        env.program = pq.Program(instructions=lst)
        env.user_list = lst
    else:
        with pq.Program() as prog:
            for ins, s in zip(made, specs):
                (pq.Q(*s["modes"]) if s["modes"] is not None else pq.Q()) | ins
        if variant == "nested":
            env.sub = prog
            with pq.Program() as outer:
                pq.Q() | prog
            env.program = outer
        else:
            env.program = prog
    _arm_identity_probes(env, sf, env.program.instructions)
    needs_faulty_sim = sf is not None and sf["stage"] in ("validate_sub", "step_entry", "step_exit")
    simcls = F.faulty_simulator_class(base) if needs_faulty_sim else base
    env.base_cls = base
    env.sim = simcls(d=D, config=env.config)
    env.initial_state = None
    if split_prefix:
        with pq.Program() as pre:
            for s in tpl["prefix"]:
                ins = _make_instruction(pq, s, cat, env, -1, None)
                (pq.Q(*s["modes"]) if s["modes"] is not None else pq.Q()) | ins
        restore_rng(env)
        env.initial_state = base(d=D, config=env.config).execute(pre).state
    return env


_R0 = None


def _random_state0():
    global _R0
    if _R0 is None:
        r = random.Random(987654321)
        _R0 = r.getstate()
    return _R0


def restore_rng(env):
    """The harness owns the randomness: the shared numpy Generator of the user's Config and
    the global `random` module are put back to fixed states before every execution, so that
    sampled runs are comparable (the rng state is excluded from the property)."""
    env.config.rng.bit_generator.state = env.rng_state0
    if env.pyrandom_state0 is not None:
        env.config._random.setstate(env.pyrandom_state0)
    random.setstate(env.random_state0)


def disarm(env):
    for p in env.probes:
        p.disarm()


# ---------------------------------------------------------------------------------------
# operations

EXEC_OPS = ("execute", "execute_instructions", "execute_initial_state", "simulate")
OTHER_OPS = ("validate", "copy", "as_code", "to_blackbird_code", "nest", "nest_perm")


def op_class(op):
    if op in EXEC_OPS:
        return "execute"
    if op in ("as_code", "to_blackbird_code"):
        return "export"
    if op in ("nest", "nest_perm"):
        return "nest"
    return op


def run_op(env, op):
    import piquasso as pq

    if op == "execute":
        return env.sim.execute(env.program, shots=env.shots)
    if op == "execute_instructions":
        return env.sim.execute_instructions(env.program.instructions, shots=env.shots)
    if op == "execute_initial_state":
        return env.sim.execute_instructions(env.program.instructions, initial_state=env.initial_state, shots=env.shots)
    if op == "simulate":
        return pq.simulate(env.program, D, config=env.config, shots=env.shots)
    if op == "validate":
        return env.sim.validate(env.program)
    if op == "copy":
        return env.program.copy()
    if op == "as_code":
        return pq.as_code(env.program, env.sim, shots=env.shots or 1)
    if op == "to_blackbird_code":
        return env.program.to_blackbird_code()
    if op == "nest":
        with pq.Program() as outer:
            pq.Q() | env.program
        return outer
    if op == "nest_perm":
        with pq.Program() as outer:
            pq.Q(1, 0, 3, 2) | env.program
        return outer
    raise KeyError(op)


SPLIT_OPS = ("execute_initial_state", "to_blackbird_code")  # program under test = body alone


def reexec_op(op):
    if op == "to_blackbird_code":  # exported without the (non-exportable) preparations
        return "execute_initial_state"
    return op if op in EXEC_OPS else "execute"


# ---------------------------------------------------------------------------------------
# result fingerprints

_HEX = re.compile(r"0x[0-9a-fA-F]+")


def _walk_state(out, path, v, depth=0):
    if isinstance(v, np.ndarray):
        out.append((path, np.array(v)))
    elif isinstance(v, (bool, int, float, complex, np.generic)):
        out.append((path, np.asarray(v)))
    elif isinstance(v, (list, tuple)) and depth < 6:
        out.append((path + "#len", np.asarray(len(v))))
        for i, x in enumerate(v):
            _walk_state(out, "%s[%d]" % (path, i), x, depth + 1)
    elif isinstance(v, dict) and depth < 6:
        for k, x in v.items():
            _walk_state(out, "%s[%r]" % (path, k), x, depth + 1)


def state_fields(state):
    out = []
    for k, v in sorted(state.__dict__.items()):
        if k in ("_config", "_connector"):
            continue
        _walk_state(out, k, v)
    return out


def fingerprint(outcome):
    """outcome = ("ret", Result) | ("exc", exception) -> comparable structure."""
    kind, val = outcome
    if kind == "exc":
        return ("exc", type(val).__name__, _HEX.sub("0x", str(val))[:400])
    branches = []
    for br in val.branches:
        branches.append(
            (
                tuple(float(x) for x in br.outcome),
                float(br.frequency),
                state_fields(br.state),
            )
        )
    return ("ret", branches)


def compare_fp(a, b, tol=1e-9):
    """None if equal, else a short description of the first difference."""
    if a[0] != b[0]:
        return "one run %s, the other %s" % (_short(a), _short(b))
    if a[0] == "exc":
        if a[1:] != b[1:]:
            return "different exceptions: %s / %s" % (_short(a), _short(b))
        return None
    if len(a[1]) != len(b[1]):
        return "different number of branches: %d / %d" % (len(a[1]), len(b[1]))
    for i, (x, y) in enumerate(zip(a[1], b[1])):
        if x[0] != y[0]:
            return "branch %d: outcomes %r / %r" % (i, x[0], y[0])
        if abs(x[1] - y[1]) > tol + tol * abs(y[1]):
            return "branch %d: frequencies %r / %r" % (i, x[1], y[1])
        if [p for p, _ in x[2]] != [p for p, _ in y[2]]:
            return "branch %d: state fields differ in structure" % i
        for (p, u), (_, v) in zip(x[2], y[2]):
            if u.shape != v.shape:
                return "branch %d: state field %s shapes %s / %s" % (i, p, u.shape, v.shape)
            if u.size and not np.allclose(u, v, rtol=tol, atol=tol, equal_nan=True):
                return "branch %d: state field %s differs by %.3g" % (i, p, float(np.max(np.abs(u - v))))
    return None


def _short(fp):
    if fp[0] == "exc":
        return "raised %s(%s)" % (fp[1], fp[2][:120])
    return "returned %d branch(es)" % len(fp[1])
