#!/venv/bin/python
"""Compare a pytest junit xml with the stable-pass list of /root/.vp/BASELINE.json.

usage: baseline_compare.py <junit.xml> [<junit2.xml> ...]   (several files = sharded run)
exit 0 iff every stable-pass test passed."""

import json
import sys
import xml.etree.ElementTree as ET


def results(path):
    out = {}
    for tc in ET.parse(path).getroot().iter("testcase"):
        tid = "%s::%s" % (tc.get("classname"), tc.get("name"))
        bad = any(ch.tag in ("failure", "error", "skipped") for ch in tc)
        out[tid] = "fail" if bad else "pass"
    return out


def main():
    base = json.load(open("/root/.vp/BASELINE.json"))
    stable = set(base["stable_pass"])
    res = {}
    for p in sys.argv[1:]:
        res.update(results(p))
    passed = {t for t, r in res.items() if r == "pass"}
    missing = sorted(stable - passed)
    print("stable_pass=%d passed_now=%d stable_and_passed=%d missing_or_failed=%d" % (len(stable), len(passed), len(stable & passed), len(missing)))
    for t in missing[:50]:
        print("  NOT PASSED:", t, res.get(t, "absent"))
    return 0 if not missing else 1


if __name__ == "__main__":
    sys.exit(main())
