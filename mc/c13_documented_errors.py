"""C13 helper: the parameter violations for which piquasso promises an error.

Extracted ONCE BY HAND from the sources of the pinned tree (paths relative to /repo, line
numbers of the promising sentence).  `basis`:

  raises_clause  -- the instruction's docstring has a `Raises:` entry for this violation
  must_sentence  -- the instruction's docstring says the parameter "must be ..."
  error_message  -- no docstring promise, but the instruction's own validation code raises
                    with a message "must ..." / "should ..." for exactly this violation (the
                    promise is made by the library's error text, not by its documentation;
                    the evidence keeps these apart through the rule name and `basis`)

`when`:  construction -- the constructor itself raises (no simulator involved);
         execution    -- raised by Instruction._validate / by the simulation step.

`make(d, cutoff)` returns the spec (see c13_programs) of the offending instruction for a
d-mode simulator, or None when the violation cannot be expressed for that d.  Deliberately
NOT in the table (no promise anywhere, the library executes them silently): non-unitary
Interferometer matrix, non-unitary / non-normalised state vectors, Loss transmissivity
outside [0, 1], an invalid ImperfectPostSelectPhotons detector matrix, a Mean / Covariance
of the wrong length (rejected with InvalidState by the state setter, but never documented).
"""


def _all(d):
    return None


def _occ_bad(d, v=-1):
    return [v] + [0] * (d - 1)


TABLE = [
    # ---------------------------------------------------------------- construction time
    dict(id="NumberState.occupation_numbers:negative", cls="NumberState", param="occupation_numbers",
         basis="raises_clause", doc="piquasso/instructions/preparations.py:212-214", when="construction",
         sentence="InvalidState: If the specified occupation numbers are not all natural numbers.",
         make=lambda d, c: {"cls": "NumberState", "modes": None, "kw": {"occupation_numbers": _occ_bad(d)}}),
    dict(id="NumberState.occupation_numbers:fractional", cls="NumberState", param="occupation_numbers",
         basis="raises_clause", doc="piquasso/instructions/preparations.py:212-214", when="construction",
         sentence="InvalidState: If the specified occupation numbers are not all natural numbers.",
         make=lambda d, c: {"cls": "NumberState", "modes": None, "kw": {"occupation_numbers": _occ_bad(d, 0.5)}}),
    dict(id="FockStateVector.fock_amplitude_map:negative", cls="FockStateVector", param="fock_amplitude_map",
         basis="raises_clause", doc="piquasso/instructions/preparations.py:463-465", when="construction",
         sentence="InvalidState: If the specified occupation numbers are not all natural numbers.",
         make=lambda d, c: {"cls": "FockStateVector", "modes": None,
                            "kw": {"fock_amplitude_map": {"$": "fockmap", "items": [[_occ_bad(d), 1.0]]}}}),
    dict(id="StateVector:neither", cls="StateVector", param="occupation_numbers",
         basis="raises_clause", doc="piquasso/instructions/preparations.py:552-553", when="construction",
         sentence="InvalidParameter: If neither `occupation_numbers` nor `fock_amplitude_map` is provided.",
         make=lambda d, c: {"cls": "StateVector", "modes": None, "kw": {}}),
    dict(id="StateVector:both", cls="StateVector", param="occupation_numbers",
         basis="raises_clause", doc="piquasso/instructions/preparations.py:554-555", when="construction",
         sentence="InvalidParameter: If both `occupation_numbers` and `fock_amplitude_map` are provided.",
         make=lambda d, c: {"cls": "StateVector", "modes": None,
                            "kw": {"occupation_numbers": [0] * d,
                                   "fock_amplitude_map": {"$": "fockmap", "items": [[[0] * d, 1.0]]}}}),
    dict(id="StateVector.occupation_numbers:negative", cls="StateVector", param="occupation_numbers",
         basis="raises_clause", doc="piquasso/instructions/preparations.py:556-557", when="construction",
         sentence="InvalidState: If the specified occupation numbers are not all natural numbers.",
         make=lambda d, c: {"cls": "StateVector", "modes": None, "kw": {"occupation_numbers": _occ_bad(d)}}),
    dict(id="StateVector.fock_amplitude_map:negative", cls="StateVector", param="fock_amplitude_map",
         basis="raises_clause", doc="piquasso/instructions/preparations.py:558-559", when="construction",
         sentence="InvalidState: If the keys in `fock_amplitude_map` are not all natural numbers.",
         make=lambda d, c: {"cls": "StateVector", "modes": None,
                            "kw": {"fock_amplitude_map": {"$": "fockmap", "items": [[_occ_bad(d), 1.0]]}}}),
    dict(id="DensityMatrix.ket:negative", cls="DensityMatrix", param="ket",
         basis="raises_clause", doc="piquasso/instructions/preparations.py:645-647", when="construction",
         sentence='InvalidState: If the specified "bra" or "ket" vectors are not all natural numbers.',
         make=lambda d, c: {"cls": "DensityMatrix", "modes": None, "kw": {"ket": _occ_bad(d), "bra": [0] * d}}),
    dict(id="DensityMatrix.bra:negative", cls="DensityMatrix", param="bra",
         basis="raises_clause", doc="piquasso/instructions/preparations.py:645-647", when="construction",
         sentence='InvalidState: If the specified "bra" or "ket" vectors are not all natural numbers.',
         make=lambda d, c: {"cls": "DensityMatrix", "modes": None, "kw": {"ket": [0] * d, "bra": _occ_bad(d)}}),
    dict(id="GeneraldyneMeasurement.detection_covariance:uncertainty", cls="GeneraldyneMeasurement",
         param="detection_covariance", basis="raises_clause",
         doc="piquasso/instructions/measurements.py:193-196", when="construction",
         sentence="InvalidParameter: When the detection covariance does not satisfy the Robertson-Schroedinger "
                  "uncertainty relation.",
         make=lambda d, c: {"cls": "GeneraldyneMeasurement", "modes": [0],
                            "kw": {"detection_covariance": {"$": "gencov_bad"}}}),
    dict(id="LossyInterferometer.matrix:singular_values", cls="LossyInterferometer", param="matrix",
         basis="raises_clause", doc="piquasso/instructions/channels.py:266-268", when="construction",
         sentence="InvalidParameter: When the singular values are not in the interval [0, 1].",
         make=lambda d, c: {"cls": "LossyInterferometer", "modes": None, "kw": {"matrix": {"$": "sv_too_big", "k": d}}}),
    # ---------------------------------------------------------------- execution time (_validate)
    dict(id="Thermal.mean_photon_numbers:negative", cls="Thermal", param="mean_photon_numbers",
         basis="raises_clause", doc="piquasso/instructions/preparations.py:156-157", when="execution",
         sentence="InvalidParameter: If the mean photon numbers are not positive real numbers.",
         make=lambda d, c: {"cls": "Thermal", "modes": None, "kw": {"mean_photon_numbers": [-0.4] + [0.3] * (d - 1)}}),
    dict(id="DistinguishableNumberState.occupation_numbers:negative", cls="DistinguishableNumberState",
         param="occupation_numbers", basis="raises_clause",
         doc="piquasso/instructions/preparations.py:360-363", when="execution",
         sentence="InvalidState: If the occupation numbers are invalid, or if the particle overlap is not a valid "
                  "scalar overlap or Gram matrix.",
         make=lambda d, c: {"cls": "DistinguishableNumberState", "modes": None,
                            "kw": {"occupation_numbers": _occ_bad(d), "particle_overlap": 0.5}}),
    dict(id="DistinguishableNumberState.particle_overlap:scalar>1", cls="DistinguishableNumberState",
         param="particle_overlap", basis="raises_clause",
         doc="piquasso/instructions/preparations.py:360-363", when="execution",
         sentence="InvalidState: ... if the particle overlap is not a valid scalar overlap or Gram matrix.",
         make=lambda d, c: {"cls": "DistinguishableNumberState", "modes": None,
                            "kw": {"occupation_numbers": [1] + [0] * (d - 1), "particle_overlap": 1.5}}),
    dict(id="DistinguishableNumberState.particle_overlap:scalar<0", cls="DistinguishableNumberState",
         param="particle_overlap", basis="raises_clause",
         doc="piquasso/instructions/preparations.py:360-363", when="execution",
         sentence="InvalidState: ... if the particle overlap is not a valid scalar overlap or Gram matrix.",
         make=lambda d, c: {"cls": "DistinguishableNumberState", "modes": None,
                            "kw": {"occupation_numbers": [1] + [0] * (d - 1), "particle_overlap": -0.1}}),
    dict(id="DistinguishableNumberState.particle_overlap:shape", cls="DistinguishableNumberState",
         param="particle_overlap", basis="raises_clause",
         doc="piquasso/instructions/preparations.py:348-350,360-363", when="execution",
         sentence="an n x n particle-overlap Gram matrix, where n = sum(occupation_numbers) / InvalidState ...",
         make=lambda d, c: {"cls": "DistinguishableNumberState", "modes": None,
                            "kw": {"occupation_numbers": [2] + [0] * (d - 1),
                                   "particle_overlap": {"$": "gram_shape", "k": 2}}}),
    dict(id="DistinguishableNumberState.particle_overlap:nonhermitian", cls="DistinguishableNumberState",
         param="particle_overlap", basis="must_sentence",
         doc="piquasso/instructions/preparations.py:320-325", when="execution",
         sentence="A matrix particle_overlap=G must be a normalized positive semidefinite Gram matrix, G = G^dagger ...",
         make=lambda d, c: {"cls": "DistinguishableNumberState", "modes": None,
                            "kw": {"occupation_numbers": [2] + [0] * (d - 1),
                                   "particle_overlap": {"$": "gram_nonherm", "k": 2}}}),
    dict(id="DistinguishableNumberState.particle_overlap:diagonal", cls="DistinguishableNumberState",
         param="particle_overlap", basis="must_sentence",
         doc="piquasso/instructions/preparations.py:320-325", when="execution",
         sentence="A matrix particle_overlap=G must be a normalized ... Gram matrix, ... G_ii = 1",
         make=lambda d, c: {"cls": "DistinguishableNumberState", "modes": None,
                            "kw": {"occupation_numbers": [2] + [0] * (d - 1),
                                   "particle_overlap": {"$": "gram_diag", "k": 2}}}),
    dict(id="DistinguishableNumberState.particle_overlap:indefinite", cls="DistinguishableNumberState",
         param="particle_overlap", basis="must_sentence",
         doc="piquasso/instructions/preparations.py:320-325", when="execution",
         sentence="A matrix particle_overlap=G must be a normalized positive semidefinite Gram matrix",
         make=lambda d, c: {"cls": "DistinguishableNumberState", "modes": None,
                            "kw": {"occupation_numbers": [2] + [0] * (d - 1),
                                   "particle_overlap": {"$": "gram_indef", "k": 2}}}),
    dict(id="GaussianTransform.passive:nonsymplectic", cls="GaussianTransform", param="passive",
         basis="raises_clause", doc="piquasso/instructions/gates.py:419-420", when="execution",
         sentence="InvalidParameters: Raised if the parameters do not form a symplectic matrix.",
         make=lambda d, c: {"cls": "GaussianTransform", "modes": [0],
                            "kw": {"passive": {"$": "nonsymplectic_passive", "k": 1}, "active": {"$": "zeros", "k": 1}}}),
    dict(id="Graph.adjacency_matrix:nonsymmetric", cls="Graph", param="adjacency_matrix",
         basis="raises_clause", doc="piquasso/instructions/gates.py:985-987", when="execution",
         sentence="InvalidParameter: If the adjacency matrix is not symmetric.",
         make=lambda d, c: None if d < 2 else {"cls": "Graph", "modes": None,
                                                "kw": {"adjacency_matrix": {"$": "nonsymmetric", "k": d}}}),
    dict(id="DeterministicGaussianChannel.X:complex", cls="DeterministicGaussianChannel", param="X",
         basis="raises_clause", doc="piquasso/instructions/channels.py:70-71", when="execution",
         sentence="InvalidParameter: If the specified 'X' and/or 'Y' matrices are invalid.",
         make=lambda d, c: {"cls": "DeterministicGaussianChannel", "modes": [0],
                            "kw": {"X": {"$": "complexX", "k": 1}, "Y": {"$": "array", "data": [[1.5, 0], [0, 1.5]]}}}),
    dict(id="DeterministicGaussianChannel.X:odd_size", cls="DeterministicGaussianChannel", param="X",
         basis="raises_clause", doc="piquasso/instructions/channels.py:70-71", when="execution",
         sentence="InvalidParameter: If the specified 'X' and/or 'Y' matrices are invalid.",
         make=lambda d, c: {"cls": "DeterministicGaussianChannel", "modes": [0],
                            "kw": {"X": {"$": "oddX", "k": 1}, "Y": {"$": "oddX", "k": 1}}}),
    dict(id="DeterministicGaussianChannel.Y:shape_mismatch", cls="DeterministicGaussianChannel", param="Y",
         basis="raises_clause", doc="piquasso/instructions/channels.py:70-71", when="execution",
         sentence="InvalidParameter: If the specified 'X' and/or 'Y' matrices are invalid.",
         make=lambda d, c: {"cls": "DeterministicGaussianChannel", "modes": [0],
                            "kw": {"X": {"$": "array", "data": [[0.5, 0], [0, 0.5]]}, "Y": {"$": "chanX_other", "k": 1}}}),
    dict(id="DeterministicGaussianChannel.Y:inequality", cls="DeterministicGaussianChannel", param="Y",
         basis="raises_clause", doc="piquasso/instructions/channels.py:45-48,70-71", when="execution",
         sentence="The matrices X and Y should satisfy the inequality Y + i Omega >= i X Omega X^T / InvalidParameter ...",
         make=lambda d, c: {"cls": "DeterministicGaussianChannel", "modes": [0],
                            "kw": {"X": {"$": "array", "data": [[0.5, 0], [0, 0.5]]}, "Y": {"$": "chanY_small", "k": 1}}}),
    dict(id="DeterministicGaussianChannel.inequality:transposition", cls="DeterministicGaussianChannel", param="inequality",
         basis="raises_clause", doc="piquasso/instructions/channels.py:45-48,70-71", when="execution",
         sentence="The matrices X and Y should satisfy the inequality Y + i Omega >= i X Omega X^T / InvalidParameter ... "
                  "(X = diag(1, -1), Y = 0 is the non-CP transposition: Y + i Omega - i X Omega X^T = 2 i Omega)",
         make=lambda d, c: {"cls": "DeterministicGaussianChannel", "modes": [0],
                            "kw": {"X": {"$": "array", "data": [[1.0, 0.0], [0.0, -1.0]]}, "Y": {"$": "array", "data": [[0.0, 0.0], [0.0, 0.0]]}}}),
    dict(id="DeterministicGaussianChannel.inequality:amplifier_below_quantum_limit", cls="DeterministicGaussianChannel",
         param="inequality", basis="raises_clause", doc="piquasso/instructions/channels.py:45-48,70-71", when="execution",
         sentence="... should satisfy the inequality Y + i Omega >= i X Omega X^T (X = sqrt(2) I needs Y >= I; Y = 0.5 I)",
         make=lambda d, c: {"cls": "DeterministicGaussianChannel", "modes": [0],
                            "kw": {"X": {"$": "array", "data": [[2 ** 0.5, 0.0], [0.0, 2 ** 0.5]]}, "Y": {"$": "array", "data": [[0.5, 0.0], [0.0, 0.5]]}}}),
    dict(id="Attenuator.mean_thermal_excitation:negative", cls="Attenuator", param="mean_thermal_excitation",
         basis="raises_clause", doc="piquasso/instructions/channels.py:139-140", when="execution",
         sentence="InvalidParameter: If the specified mean thermal excitation is not positive.",
         make=lambda d, c: {"cls": "Attenuator", "modes": [0], "kw": {"theta": 0.3, "mean_thermal_excitation": -0.5}}),
    # ---------------------------------------------------------------- promise made by the error text only
    dict(id="Interferometer.matrix:nonsquare", cls="Interferometer", param="matrix",
         basis="error_message", doc="piquasso/instructions/gates.py:139-142", when="execution",
         sentence='raise InvalidParameter("The interferometer matrix should be a square matrix.")',
         make=lambda d, c: {"cls": "Interferometer", "modes": [0], "kw": {"matrix": {"$": "nonsquare", "k": 1}}}),
    dict(id="UniformLoss.transmissivity:>1", cls="UniformLoss", param="transmissivity",
         basis="error_message", doc="piquasso/instructions/channels.py:237-241", when="execution",
         sentence="The parameter 'transmissivity' must be in the interval [0, 1]",
         make=lambda d, c: {"cls": "UniformLoss", "modes": None, "kw": {"transmissivity": 1.5}}),
    dict(id="UniformLoss.transmissivity:<0", cls="UniformLoss", param="transmissivity",
         basis="error_message", doc="piquasso/instructions/channels.py:237-241", when="execution",
         sentence="The parameter 'transmissivity' must be in the interval [0, 1]",
         make=lambda d, c: {"cls": "UniformLoss", "modes": None, "kw": {"transmissivity": -0.1}}),
    dict(id="UniformLoss.transmissivity:vector", cls="UniformLoss", param="transmissivity",
         basis="error_message", doc="piquasso/instructions/channels.py:228-233", when="execution",
         sentence="The parameter 'transmissivity' must be a single real number in the interval [0, 1]",
         make=lambda d, c: {"cls": "UniformLoss", "modes": None, "kw": {"transmissivity": {"$": "array", "data": [0.5, 0.6]}}}),
    dict(id="ImperfectParticleNumberMeasurement.detector_efficiency_matrix:ndim", cls="ImperfectParticleNumberMeasurement",
         param="detector_efficiency_matrix", basis="error_message",
         doc="piquasso/instructions/measurements.py:125-128", when="execution",
         sentence="The detector efficiency matrix must be a two-dimensional array.",
         make=lambda d, c: {"cls": "ImperfectParticleNumberMeasurement", "modes": None,
                            "kw": {"detector_efficiency_matrix": {"$": "detector_1d", "k": 3}}}),
    dict(id="ImperfectParticleNumberMeasurement.detector_efficiency_matrix:negative", cls="ImperfectParticleNumberMeasurement",
         param="detector_efficiency_matrix", basis="error_message",
         doc="piquasso/instructions/measurements.py:130-134 (docstring 68-75 defines P as conditional probabilities)",
         when="execution",
         sentence="The detector efficiency matrix must contain non-negative probabilities.",
         make=lambda d, c: {"cls": "ImperfectParticleNumberMeasurement", "modes": None,
                            "kw": {"detector_efficiency_matrix": {"$": "detector_negative", "k": 3}}}),
    dict(id="ImperfectParticleNumberMeasurement.detector_efficiency_matrix:column_sums", cls="ImperfectParticleNumberMeasurement",
         param="detector_efficiency_matrix", basis="error_message",
         doc="piquasso/instructions/measurements.py:136-143 (docstring 68-75 defines P as conditional probabilities)",
         when="execution",
         sentence="Each column of the detector efficiency matrix must sum to 1.",
         make=lambda d, c: {"cls": "ImperfectParticleNumberMeasurement", "modes": None,
                            "kw": {"detector_efficiency_matrix": {"$": "detector_colsum", "k": 3}}}),
    dict(id="SNAP.theta:length", cls="SNAP", param="theta",
         basis="error_message",
         doc="piquasso/_simulators/fock/pure/simulation_steps/__init__.py:305-309, fock/general/simulation_steps.py:352-356",
         when="execution",
         sentence="Length of SNAP parameter must be equal to cutoff",
         # NOTE (lead): a theta SHORTER than the cutoff is the violation.  Since the /repo fix "SNAP is not
         # refused on post-measurement branches whose cutoff was reduced" a longer theta is valid (only the
         # first `cutoff` entries are used), so the mutation must shorten it; an EMPTY theta is invalid on every branch, whatever cutoff a preceding measurement leaves.
         make=lambda d, c: {"cls": "SNAP", "modes": [0], "kw": {"theta": {"$": "snap", "k": 0}}}),
]


def rule_name(entry):
    return "param:%s.%s" % (entry["cls"], entry["param"])


def by_id():
    return {e["id"]: e for e in TABLE}


def public_table():
    """JSON-able view (for the evidence)."""
    return [{k: v for k, v in e.items() if k != "make"} for e in TABLE]
