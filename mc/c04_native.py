"""Python side of the standalone native drivers (DESIGN 2.9): build, binary test vectors,
execution with restart after a sanitizer abort, parsing of sanitizer reports.

Used by mc/checks/c04.py and mc/native_sched.py.  No piquasso imports.
"""

import hashlib
import os
import re
import struct
import subprocess
import tempfile

from mc import build, core

DRIVERS = os.path.join(build.VERIF, "drivers")

SAN_FLAGS = ["-O1", "-g", "-fsanitize=address,undefined", "-fno-sanitize-recover=undefined"]
SAN_ENV = {
    "ASAN_OPTIONS": "detect_leaks=0:abort_on_error=0:symbolize=1",
    "UBSAN_OPTIONS": "print_stacktrace=0:halt_on_error=1",
}


def _common_rev():
    with open(os.path.join(DRIVERS, "driver_common.hpp"), "rb") as fh:
        return hashlib.sha1(fh.read()).hexdigest()[:8]


def build_driver(name, builddir, flags=None, tag=""):
    """Compile drivers/<name>.cpp (which #includes $VERIF_REPO/src/*.cpp unmodified)."""
    src = os.path.join(DRIVERS, name + ".cpp")
    fl = list(SAN_FLAGS if flags is None else flags) + ["-DVERIF_DRIVER_REV=0x" + _common_rev()]
    return build.build_driver(name + tag, [src], fl, outdir=builddir, includes=[DRIVERS])


# ---------------------------------------------------------------------------------------
# test vectors


def _pack_i32(*xs):
    return struct.pack("<%di" % len(xs), *[int(x) for x in xs])


def _pack_f64(xs):
    xs = [float(x) for x in xs]
    return struct.pack("<%dd" % len(xs), *xs)


def _complex_entries(matrix):
    out = []
    for row in matrix:
        for z in row:
            z = complex(z)
            out += [z.real, z.imag]
    return out


def perm_vector(kernel, dtype, hw, matrix, rows, cols):
    """kernel: 'permanent' | 'permanent_laplace'; dtype 'float32' | 'float64';
    matrix: nested list / array of complex, shape (len(rows), len(cols))."""
    nr, nc = len(rows), len(cols)
    return (
        _pack_i32(0 if kernel == "permanent" else 1, 0 if dtype == "float32" else 1, hw, nr, nc)
        + _pack_i32(*rows)
        + _pack_i32(*cols)
        + _pack_f64(_complex_entries(matrix))
    )


def sched_vector(kernel, dtype, hw, team, order, matrix, rows, cols):
    """order: 'asc' | 'desc' | explicit list of thread ids."""
    if order in (None, "asc"):
        okind, olist = 0, []
    elif order == "desc":
        okind, olist = 1, []
    else:
        okind, olist = 2, [int(x) for x in order]
    nr, nc = len(rows), len(cols)
    return (
        _pack_i32(0 if kernel == "permanent" else 1, 0 if dtype == "float32" else 1, hw, team or 0, okind, len(olist))
        + _pack_i32(*olist)
        + _pack_i32(nr, nc)
        + _pack_i32(*rows)
        + _pack_i32(*cols)
        + _pack_f64(_complex_entries(matrix))
    )


def tor_vector(kernel, dtype, matrix, displacement=None):
    dim = len(matrix)
    b = _pack_i32(0 if kernel == "torontonian" else 1, 0 if dtype == "float32" else 1, dim)
    b += _pack_f64([x for row in matrix for x in row])
    if kernel != "torontonian":
        b += _pack_f64(displacement)
    return b


def pf_vector(dtype, matrix):
    n = len(matrix)
    return _pack_i32(0 if dtype == "float32" else 1, n) + _pack_f64([x for row in matrix for x in row])


# ---------------------------------------------------------------------------------------
# running

_UBSAN = re.compile(r"^(\S+?):(\d+):(\d+): runtime error: (.*)$")
_ASAN = re.compile(r"ERROR: (AddressSanitizer|ThreadSanitizer|LeakSanitizer|UndefinedBehaviorSanitizer): (\S+)")
_TSAN = re.compile(r"WARNING: ThreadSanitizer: (.+?) \(pid=")
_FRAME = re.compile(r"^\s*#\d+ (?:0x[0-9a-f]+ in )?(\S.*?) (\S+?):(\d+)(?::\d+)?\s*$")


def _ub_kind(msg):
    m = msg.lower()
    for key, kind in (
        ("signed integer overflow", "signed-integer-overflow"),
        ("division by zero", "division-by-zero"),
        ("out of bounds", "index-out-of-bounds"),
        ("shift", "invalid-shift"),
        ("null pointer", "null-pointer"),
        ("misaligned", "misaligned-access"),
        ("not a valid value", "invalid-value"),
        ("outside the range of representable values", "float-cast-overflow"),
        ("variable length array", "vla-bound"),
    ):
        if key in m:
            return kind
    return "undefined-behaviour"


def parse_report(text):
    """Extract {tool, kind, where} from a sanitizer report.  ``where`` is
    '<basename of the repository source file>:<line>' -- the reported line for UBSan, the
    innermost stack frame inside the repository's src/ for ASan/TSan."""
    repo_src = os.path.join(build.REPO, "src") + os.sep
    for line in text.splitlines():
        m = _UBSAN.match(line.strip())
        if m:
            return {"tool": "ubsan", "kind": _ub_kind(m.group(4)), "where": "%s:%s" % (os.path.basename(m.group(1)), m.group(2))}
    tool = kind = None
    for line in text.splitlines():
        m = _ASAN.search(line)
        if m:
            tool = {"AddressSanitizer": "asan", "ThreadSanitizer": "tsan"}.get(m.group(1), m.group(1).lower())
            kind = m.group(2).rstrip(":")
            break
        m = _TSAN.search(line)
        if m:
            tool, kind = "tsan", m.group(1).strip().replace(" ", "-")
            break
    if tool is None:
        return None
    where = "unsymbolized"
    for line in text.splitlines():
        m = _FRAME.match(line)
        if m and (m.group(2).startswith(repo_src) or "/src/" in m.group(2)) and "drivers" not in m.group(2):
            where = "%s:%s" % (os.path.basename(m.group(2)), m.group(3))
            break
    return {"tool": tool, "kind": kind, "where": where}


class DriverRun:
    """Result of one vector: values (list of floats) or error string or sanitizer report."""

    __slots__ = ("values", "error", "report", "report_text", "crashed")

    def __init__(self):
        self.values = None
        self.error = None
        self.report = None
        self.report_text = ""
        self.crashed = None


def run_vectors(exe, vectors, timeout=600, extra_env=None, workdir=None):
    """Run a list of packed vectors through a driver.  Returns a list of DriverRun, one per
    vector.  The process is restarted after every abort (sanitizer report / crash)."""
    n = len(vectors)
    results = [DriverRun() for _ in range(n)]
    if n == 0:
        return results
    workdir = workdir or os.path.join(os.path.dirname(exe), "vec")
    os.makedirs(workdir, exist_ok=True)
    fd, path = tempfile.mkstemp(prefix="v", suffix=".bin", dir=workdir)
    try:
        with os.fdopen(fd, "wb") as fh:
            fh.write(_pack_i32(n))
            for v in vectors:
                fh.write(v)
        env = dict(os.environ)
        env.update(SAN_ENV)
        if extra_env:
            env.update(extra_env)
        first = 0
        restarts = 0
        while first < n:
            try:
                p = subprocess.run([exe, path, str(first)], capture_output=True, text=True, env=env, timeout=timeout, errors="replace")
            except subprocess.TimeoutExpired:
                raise core.HarnessError("HARNESS-DRIVER-TIMEOUT %s (from vector %d)" % (os.path.basename(exe), first))
            cur = None
            done = False
            pending = []
            for line in p.stdout.splitlines():
                if line.startswith("B "):
                    cur = int(line[2:])
                    pending = []
                elif line.startswith("R ") and cur is not None:
                    parts = line.split()
                    idx = int(parts[1])
                    cnt = int(parts[2])
                    vals = [float(x) for x in parts[3 : 3 + cnt]]
                    if idx != cur or len(vals) != cnt:
                        raise core.HarnessError("HARNESS-DRIVER-PROTOCOL bad result line %r" % line)
                    results[idx].values = vals
                    if pending:
                        # a recoverable report printed before the result (TSan warnings)
                        results[idx].report_text = "\n".join(pending)
                        results[idx].report = parse_report(results[idx].report_text)
                    cur = None
                elif line.startswith("E ") and cur is not None:
                    idx = int(line.split()[1])
                    results[idx].error = line.split(" ", 2)[2] if line.count(" ") >= 2 else ""
                    cur = None
                elif line.startswith("DONE "):
                    done = True
                elif line.startswith("DRIVER-ERROR"):
                    raise core.HarnessError("HARNESS-DRIVER %s: %s" % (os.path.basename(exe), line))
                else:
                    pending.append(line)
            if done and cur is None and p.returncode == 0:
                break
            if cur is None:
                raise core.HarnessError(
                    "HARNESS-DRIVER %s exited with %s outside a vector:\n%s" % (os.path.basename(exe), p.returncode, p.stdout[-2000:])
                )
            # vector `cur` died
            text = "\n".join(pending)
            results[cur].report_text = text[-6000:]
            results[cur].report = parse_report(text)
            results[cur].crashed = p.returncode
            first = cur + 1
            restarts += 1
        return results
    finally:
        try:
            os.unlink(path)
        except OSError:
            pass
