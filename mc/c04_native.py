"""Python side of the standalone native drivers (DESIGN 2.9): build, binary test vectors,
execution with restart after a sanitizer abort, parsing of sanitizer reports.

Used by mc/checks/c04.py and mc/native_sched.py.  No piquasso imports.
"""

import hashlib
import os
import re
import struct
import subprocess
import tempfile

from mc import build, core

DRIVERS = os.path.join(build.VERIF, "drivers")

# Two builds of every driver:
#
#  * STRICT: exactly the flags of DESIGN 2.9; the first sanitizer report (UBSan or ASan) kills
#    the process.  Used to CONFIRM and to REPLAY single vectors: its report is what a
#    violation's signature is made of.
#  * SWEEP: the same instrumentation in recover mode.  A sanitizer prints every distinct
#    report once per faulting source location per process and goes on, so a defect that
#    fires on thousands of vectors (the out-of-bounds read in torontonian_common.cpp fires on
#    EVERY torontonian input) costs neither a process / fork per vector nor hides the values
#    and further reports behind it.  Every vector that shows a report or a wrong value in the
#    sweep is re-executed alone under the STRICT build before it is reported.
STRICT_FLAGS = ["-O1", "-g", "-fsanitize=address,undefined", "-fno-sanitize-recover=undefined"]
SWEEP_FLAGS = ["-O1", "-g", "-fsanitize=address,undefined", "-fsanitize-recover=address,undefined"]
SAN_FLAGS = STRICT_FLAGS
SAN_ENV = {
    "ASAN_OPTIONS": "detect_leaks=0:abort_on_error=0:symbolize=0:halt_on_error=0",
    "UBSAN_OPTIONS": "print_stacktrace=0:halt_on_error=0",
}


def _common_rev():
    with open(os.path.join(DRIVERS, "driver_common.hpp"), "rb") as fh:
        return hashlib.sha1(fh.read()).hexdigest()[:8]


def build_driver(name, builddir, flags=None, tag="", sweep=False):
    """Compile drivers/<name>.cpp (which #includes $VERIF_REPO/src/*.cpp unmodified)."""
    if sweep:
        flags, tag = SWEEP_FLAGS, "_sweep"
    src = os.path.join(DRIVERS, name + ".cpp")
    fl = list(SAN_FLAGS if flags is None else flags) + ["-DVERIF_DRIVER_REV=0x" + _common_rev()]
    return build.build_driver(name + tag, [src], fl, outdir=builddir, includes=[DRIVERS])


# ---------------------------------------------------------------------------------------
# test vectors


def _pack_i32(*xs):
    return struct.pack("<%di" % len(xs), *[int(x) for x in xs])


def _pack_f64(xs):
    xs = [float(x) for x in xs]
    return struct.pack("<%dd" % len(xs), *xs)


def _complex_entries(matrix):
    out = []
    for row in matrix:
        for z in row:
            z = complex(z)
            out += [z.real, z.imag]
    return out


def perm_vector(kernel, dtype, hw, matrix, rows, cols):
    """kernel: 'permanent' | 'permanent_laplace'; dtype 'float32' | 'float64';
    matrix: nested list / array of complex, shape (len(rows), len(cols))."""
    nr, nc = len(rows), len(cols)
    return (
        _pack_i32(0 if kernel == "permanent" else 1, 0 if dtype == "float32" else 1, hw, nr, nc)
        + _pack_i32(*rows)
        + _pack_i32(*cols)
        + _pack_f64(_complex_entries(matrix))
    )


def sched_vector(kernel, dtype, hw, team, order, matrix, rows, cols):
    """order: 'asc' | 'desc' | explicit list of thread ids."""
    if order in (None, "asc"):
        okind, olist = 0, []
    elif order == "desc":
        okind, olist = 1, []
    else:
        okind, olist = 2, [int(x) for x in order]
    nr, nc = len(rows), len(cols)
    return (
        _pack_i32(0 if kernel == "permanent" else 1, 0 if dtype == "float32" else 1, hw, team or 0, okind, len(olist))
        + _pack_i32(*olist)
        + _pack_i32(nr, nc)
        + _pack_i32(*rows)
        + _pack_i32(*cols)
        + _pack_f64(_complex_entries(matrix))
    )


def tor_vector(kernel, dtype, matrix, displacement=None):
    dim = len(matrix)
    b = _pack_i32(0 if kernel == "torontonian" else 1, 0 if dtype == "float32" else 1, dim)
    b += _pack_f64([x for row in matrix for x in row])
    if kernel != "torontonian":
        b += _pack_f64(displacement)
    return b


def pf_vector(dtype, matrix):
    n = len(matrix)
    return _pack_i32(0 if dtype == "float32" else 1, n) + _pack_f64([x for row in matrix for x in row])


# ---------------------------------------------------------------------------------------
# running

_UBSAN = re.compile(r"^(\S+?):(\d+):(\d+): runtime error: (.*)$")
_ASAN = re.compile(r"ERROR: (AddressSanitizer|ThreadSanitizer|LeakSanitizer|UndefinedBehaviorSanitizer): (\S+)")
_TSAN = re.compile(r"WARNING: ThreadSanitizer: (.+?) \(pid=")
_FRAME = re.compile(r"^\s*#\d+ (?:0x[0-9a-f]+ in )?(\S.*?) (\S+?):(\d+)(?::\d+)?\s*$")


def _ub_kind(msg):
    m = msg.lower()
    for key, kind in (
        ("signed integer overflow", "signed-integer-overflow"),
        ("division by zero", "division-by-zero"),
        ("out of bounds", "index-out-of-bounds"),
        ("shift", "invalid-shift"),
        ("null pointer", "null-pointer"),
        ("misaligned", "misaligned-access"),
        ("not a valid value", "invalid-value"),
        ("outside the range of representable values", "float-cast-overflow"),
        ("variable length array", "vla-bound"),
    ):
        if key in m:
            return kind
    return "undefined-behaviour"


_RAWFRAME = re.compile(r"^\s*#(\d+) 0x[0-9a-f]+\s+\((\S+)\+0x([0-9a-f]+)\)\s*$")
_A2L_CACHE = {}


def _addr2line(exe, offsets):
    """{offset: [(file, line), ...innermost inlined frame first]} via binutils addr2line
    (ASan's own symbolizer costs seconds per report; the in-process one is switched off)."""
    todo = [o for o in offsets if (exe, o) not in _A2L_CACHE]
    if todo:
        p = subprocess.run(["addr2line", "-e", exe, "-i", "-a"] + ["0x" + o for o in todo], capture_output=True, text=True)
        cur = None
        for line in p.stdout.splitlines():
            line = line.strip()
            if line.startswith("0x"):
                cur = "%x" % int(line, 16)
                _A2L_CACHE[(exe, cur)] = []
            elif cur is not None:
                line = line.split(" (discriminator")[0]
                f, _, l = line.rpartition(":")
                _A2L_CACHE[(exe, cur)].append((f, l))
        for o in todo:
            _A2L_CACHE.setdefault((exe, "%x" % int(o, 16)), [])
    return {o: _A2L_CACHE.get((exe, "%x" % int(o, 16)), []) for o in offsets}


def _in_repo_src(path):
    return (path.startswith(os.path.join(build.REPO, "src") + os.sep) or "/src/" in path) and "/drivers/" not in path and "libsanitizer" not in path


def parse_report(text, exe=None):
    """Extract {tool, kind, where} from a sanitizer report.  ``where`` is
    '<basename of the repository source file>:<line>' -- the reported line for UBSan, the
    innermost stack frame inside the repository's src/ for ASan/TSan."""
    for line in text.splitlines():
        m = _UBSAN.match(line.strip())
        if m:
            return {"tool": "ubsan", "kind": _ub_kind(m.group(4)), "where": "%s:%s" % (os.path.basename(m.group(1)), m.group(2))}
    tool = kind = None
    lines = text.splitlines()
    first = 0
    for k, line in enumerate(lines):
        m = _ASAN.search(line)
        if m:
            tool = {"AddressSanitizer": "asan", "ThreadSanitizer": "tsan"}.get(m.group(1), m.group(1).lower())
            kind = m.group(2).rstrip(":")
            first = k
            break
        m = _TSAN.search(line)
        if m:
            tool, kind = "tsan", m.group(1).strip().replace(" ", "-")
            first = k
            break
    if tool is None:
        return None
    where = "unsymbolized"
    # the first stack trace of the report (frames #0.. until the numbering restarts)
    frames = []
    started = False
    for line in lines[first:]:
        m = _FRAME.match(line)
        r = _RAWFRAME.match(line)
        if m and not r:
            if started and line.strip().startswith("#0 "):
                break
            started = True
            frames.append(("sym", m.group(2), m.group(3)))
        elif r:
            if started and r.group(1) == "0":
                break
            started = True
            frames.append(("raw", r.group(2), r.group(3)))
    raw_offsets = [f[2] for f in frames if f[0] == "raw" and exe and os.path.basename(f[1]) == os.path.basename(exe)]
    table = _addr2line(exe, raw_offsets) if raw_offsets else {}
    for f in frames:
        if f[0] == "sym":
            cands = [(f[1], f[2])]
        else:
            cands = table.get(f[2], [])
        hit = next(((p, l) for p, l in cands if _in_repo_src(p)), None)
        if hit:
            where = "%s:%s" % (os.path.basename(hit[0]), hit[1])
            break
    return {"tool": tool, "kind": kind, "where": where}


class DriverRun:
    """Result of one vector: values (list of floats) or error string or sanitizer report."""

    __slots__ = ("values", "error", "report", "report_text", "crashed", "skipped")

    def __init__(self):
        self.skipped = False
        self.values = None
        self.error = None
        self.report = None
        self.report_text = ""
        self.crashed = None


def run_vectors(exe, vectors, timeout=1800, extra_env=None, workdir=None, max_aborts=40):
    """Run a list of packed vectors through a driver.  Returns a list of DriverRun, one per
    vector.  The process is restarted after every abort (sanitizer report / crash); after
    ``max_aborts`` aborts the remaining vectors are not executed (``skipped``): a tree on which
    dozens of vectors kill the driver is already being reported, and every further death costs
    a process."""
    n = len(vectors)
    results = [DriverRun() for _ in range(n)]
    if n == 0:
        return results
    workdir = workdir or os.path.join(os.path.dirname(exe), "vec")
    os.makedirs(workdir, exist_ok=True)
    fd, path = tempfile.mkstemp(prefix="v", suffix=".bin", dir=workdir)
    try:
        with os.fdopen(fd, "wb") as fh:
            fh.write(_pack_i32(n))
            for v in vectors:
                fh.write(v)
        env = dict(os.environ)
        env.update(SAN_ENV)
        if extra_env:
            env.update(extra_env)
        first = 0
        aborts = 0
        while first < n:
            if aborts >= max_aborts:
                for r in results[first:]:
                    if r.values is None and r.error is None and r.report is None and r.crashed is None:
                        r.skipped = True
                break
            fork_mode = False  # (the drivers can fork per vector, but forking an ASan process is dearer than the capped number of restarts)
            try:
                p = subprocess.run(
                    [exe, path, str(first), "1" if fork_mode else "0"], capture_output=True, text=True, env=env, timeout=timeout, errors="replace"
                )
            except subprocess.TimeoutExpired:
                raise core.HarnessError("HARNESS-DRIVER-TIMEOUT %s (from vector %d)" % (os.path.basename(exe), first))
            cur = None
            done = False
            pending = []
            for line in p.stdout.splitlines():
                if line.startswith("B "):
                    cur = int(line[2:])
                    pending = []
                elif line.startswith("R ") and cur is not None:
                    parts = line.split()
                    idx = int(parts[1])
                    cnt = int(parts[2])
                    vals = [float(x) for x in parts[3 : 3 + cnt]]
                    if idx != cur or len(vals) != cnt:
                        raise core.HarnessError("HARNESS-DRIVER-PROTOCOL bad result line %r" % line)
                    results[idx].values = vals
                    if pending:
                        # a recoverable report printed before the result (TSan warnings)
                        results[idx].report_text = "\n".join(pending)[-6000:]
                        results[idx].report = parse_report(results[idx].report_text, exe)
                    cur = None
                elif line.startswith("E ") and cur is not None:
                    idx = int(line.split()[1])
                    results[idx].error = line.split(" ", 2)[2] if line.count(" ") >= 2 else ""
                    cur = None
                elif line.startswith("X ") and cur is not None:
                    idx = int(line.split()[1])
                    text = "\n".join(pending)
                    results[idx].report_text = text[-6000:]
                    results[idx].report = parse_report(text, exe)
                    results[idx].crashed = int(line.split()[2])
                    aborts += 1
                    cur = None
                elif line.startswith("DONE "):
                    done = True
                elif line.startswith("DRIVER-ERROR"):
                    raise core.HarnessError("HARNESS-DRIVER %s: %s" % (os.path.basename(exe), line))
                else:
                    pending.append(line)
            if done and cur is None and p.returncode == 0:
                break
            if cur is None:
                raise core.HarnessError(
                    "HARNESS-DRIVER %s exited with %s outside a vector:\n%s" % (os.path.basename(exe), p.returncode, p.stdout[-2000:])
                )
            # vector `cur` died and took the driver with it
            text = "\n".join(pending)
            results[cur].report_text = text[-6000:]
            results[cur].report = parse_report(text, exe)
            results[cur].crashed = p.returncode
            first = cur + 1
            aborts += 1
        return results
    finally:
        try:
            os.unlink(path)
        except OSError:
            pass
