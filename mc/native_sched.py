"""Schedule control of the OpenMP job loop of the native permanent (DESIGN 2.8).

Built by the C04 builder for the C11 check.  The driver drivers/sched_driver.cpp #includes
$VERIF_REPO/src/permanent.cpp and permanent_laplace.cpp UNMODIFIED, compiled with -fopenmp;
the GOMP entry points the compiler emits (GOMP_parallel, omp_get_num_threads,
omp_get_thread_num, omp_get_max_threads) are defined by the driver itself, and
std::thread::hardware_concurrency() is interposed at link time.  So the harness decides

  * ``hw``           what hardware_concurrency() returns -> the kernel's job count
                     min(4*hw, idx_max)   (idx_max = prod(r'_i + 1) over the rows after the
                     kernel split one copy off the smallest non-zero row; see job_count())
  * ``team``         how many threads the "runtime" grants (<= the num_threads request; a
                     thread then runs several consecutive jobs, static schedule)
  * ``thread_order`` the order in which the threads of the team run (each runs to completion:
                     the loop body has no barrier, so thread interleavings below the
                     granularity "whole static chunk of one thread" cannot change the result
                     unless there is a data race -- which the TSan build looks for).

Two builds (cached in the build directory of the current source hash):

  mode="asan"  -O1 -g -fsanitize=address,undefined -fno-sanitize-recover=undefined,
               threads run sequentially in the requested order (deterministic);
  mode="tsan"  -O1 -g -fsanitize=thread -DSHIM_REAL_THREADS: the team runs as free-running
               std::threads started in the requested order; any ThreadSanitizer warning is
               returned in ``sanitizer``.

API
---
permanent_with_forced_jobs(matrix, rows, cols, hw, thread_order="asc", team=None,
                           dtype="float64", laplace=False, mode="asan") -> dict
    one call = one process; returns
      {"value": complex (permanent) | [complex, ...] (Laplace variant),
       "jobs": number of threads the kernel requested (= its job count),
       "team": team size actually used, "regions": number of parallel regions entered,
       "sanitizer": None | {"tool", "kind", "where", "text"}, "error": None | str}

run_schedules(cases, mode="asan") -> list of such dicts
    batch form (one process for all cases); a case is a dict with keys
    matrix, rows, cols, hw and optionally thread_order, team, dtype, laplace.

job_count(rows, hw)               -> the job count the kernel will use (Python mirror; the
                                     driver's "jobs" field is the ground truth)
all_thread_orders(team, limit)    -> every permutation of range(team) (capped at ``limit``)
enumerate_schedules(rows, hws, max_orders=24)
                                  -> [(hw, team, order)] covering every job count reachable
                                     with the given hw values, every team size 1..jobs and
                                     every thread order (all permutations up to max_orders,
                                     otherwise ascending / descending / rotations)
"""

import itertools
import math

from mc import build, c04_native as N

TSAN_FLAGS = ["-O1", "-g", "-fsanitize=thread", "-fopenmp", "-DSHIM_REAL_THREADS", "-pthread"]
ASAN_FLAGS = ["-O1", "-g", "-fsanitize=address,undefined", "-fno-sanitize-recover=undefined", "-fopenmp"]

_EXE = {}


def driver(mode="asan", builddir=None):
    key = (mode, builddir)
    if key not in _EXE:
        bd = builddir or build.ensure_built()
        if mode == "asan":
            _EXE[key] = N.build_driver("sched_driver", bd, flags=ASAN_FLAGS, tag="_asan")
        elif mode == "tsan":
            _EXE[key] = N.build_driver("sched_driver", bd, flags=TSAN_FLAGS, tag="_tsan")
        else:
            raise ValueError(mode)
    return _EXE[key]


def job_count(rows, hw):
    """min(4*hw, prod(r'_i + 1)) with r' = rows after one copy of the smallest non-zero row
    was split off (src/permanent.cpp).  1 for an all-zero row vector (no parallel region)."""
    r = [int(x) for x in rows]
    nz = [i for i, x in enumerate(r) if x > 0]
    if not nz:
        return 0
    i = min(nz, key=lambda i: (r[i], i))
    r[i] -= 1
    idx_max = math.prod(x + 1 for x in r)
    return min(4 * int(hw), idx_max)


def all_thread_orders(team, limit=None):
    out = []
    for p in itertools.permutations(range(team)):
        out.append(list(p))
        if limit and len(out) >= limit:
            break
    return out


def enumerate_schedules(rows, hws, max_orders=24):
    seen = set()
    out = []
    for hw in hws:
        jobs = job_count(rows, hw)
        if jobs in seen:
            continue
        seen.add(jobs)
        for team in range(1, max(jobs, 1) + 1):
            if math.factorial(team) <= max_orders:
                orders = all_thread_orders(team)
            else:
                orders = [list(range(team)), list(range(team))[::-1]]
                orders += [list(range(k, team)) + list(range(k)) for k in range(1, min(team, max_orders - 2))]
            for o in orders:
                out.append((hw, team, o))
    return out


def run_schedules(cases, mode="asan", builddir=None, timeout=600):
    exe = driver(mode, builddir)
    vecs = []
    for c in cases:
        vecs.append(
            N.sched_vector(
                "permanent_laplace" if c.get("laplace") else "permanent",
                c.get("dtype", "float64"),
                c["hw"],
                c.get("team") or 0,
                c.get("thread_order", "asc"),
                c["matrix"],
                list(c["rows"]),
                list(c["cols"]),
            )
        )
    env = None
    if mode == "tsan":
        env = {"TSAN_OPTIONS": "halt_on_error=0:report_signal_unsafe=0:symbolize=0:exitcode=0"}  # exitcode=0: a warning is parsed from the output, it must not look like a crashed driver
    runs = N.run_vectors(exe, vecs, timeout=timeout, extra_env=env)
    out = []
    for c, r in zip(cases, runs):
        d = {"value": None, "jobs": None, "team": None, "regions": None, "sanitizer": None, "error": r.error}
        if r.values is not None:
            d["jobs"], d["team"], d["regions"] = int(r.values[0]), int(r.values[1]), int(r.values[2])
            vals = r.values[3:]
            zs = [complex(vals[2 * i], vals[2 * i + 1]) for i in range(len(vals) // 2)]
            d["value"] = zs if c.get("laplace") else (zs[0] if zs else None)
        if r.report is not None or (r.crashed is not None and r.values is None):
            rep = dict(r.report or {"tool": "crash", "kind": "exit-%s" % r.crashed, "where": "unknown"})
            rep["text"] = r.report_text
            d["sanitizer"] = rep
        out.append(d)
    return out


def permanent_with_forced_jobs(matrix, rows, cols, hw, thread_order="asc", team=None, dtype="float64", laplace=False, mode="asan", builddir=None):
    return run_schedules(
        [{"matrix": matrix, "rows": rows, "cols": cols, "hw": hw, "thread_order": thread_order, "team": team, "dtype": dtype, "laplace": laplace}],
        mode=mode,
        builddir=builddir,
    )[0]


if __name__ == "__main__":  # smoke test:  /venv/bin/python -m mc.native_sched
    m = [[1, 1j, 0.5], [0.5, 2, -1], [1j, 1, 0.25]]
    rows, cols = (2, 1, 3), (3, 2, 1)
    base = None
    n = 0
    for hw, team, order in enumerate_schedules(rows, (1, 2, 3), max_orders=6):
        r = permanent_with_forced_jobs(m, rows, cols, hw, order, team)
        assert r["sanitizer"] is None and r["error"] is None, r
        assert r["jobs"] == job_count(rows, hw), (r, job_count(rows, hw))
        base = base if base is not None else r["value"]
        assert abs(r["value"] - base) <= 1e-12 * abs(base), (r, base)
        n += 1
    print("ok: %d schedules, value %r" % (n, base))
