"""C15 'history' family (helper of mc/checks/c15.py).

Every other family of C15 exercises a decomposition as ONE call whose result is used
immediately.  This family enumerates call HISTORIES: for every decomposition entry point
(`site`), every dimension d and every ordered pair (plus all ordered triples of the first
three) of DIFFERENT representative inputs of that dimension,

    r_A = call(A); snapshot(r_A); r_B = call(B); snapshot(r_B); [r_C = call(C); ...]

and only THEN

  * every returned object is compared bit for bit with the snapshot taken right after its own
    call (sub = result_aliased_by_later_call: a later call changed a result handed out
    earlier -- module-level cache / shared mutable template filled in place), and
  * every returned object is pushed through the reconstruction oracle of its site
    (sub = result_wrong_after_call_history: the result of a call is wrong although the same
    call alone, in the 'single' pass of the same work item, reconstructs its input).

Representatives are picked from the structured families of c15.py (same generators, a few
per dimension); an input whose single call already violates its oracle is excluded from the
history oracles (the structured families report it) and counted.
"""

import copy
import itertools

SITES = {
    "clements": (
        "clements",
        "inverse_clements",
        "instructions_from_decomposition",
        "get_weights_from_interferometer",
        "get_weights_from_decomposition",
        "get_decomposition_from_weights",
        "get_interferometer_from_weights",
    ),
    "takagi": ("takagi",),
    "williamson": ("williamson",),
    "euler": ("euler",),
}

KINDS = tuple(SITES)


# =======================================================================================
# representatives


def _pick(gen, want):
    """first (label, M) of a c15 family generator whose label contains all items of `want`"""
    from mc import core

    for label, M in gen:
        if all(label.get(k) == v for k, v in want.items()):
            return label, M
    raise core.HarnessError("HARNESS-SELFTEST C15 history: no family member with label %r" % (want,))


def representatives(kind, tier, seed):
    """{dimension: [(family, label, matrix), ...]} -- all matrices of one list have the same
    shape and are pairwise different (self-tested)"""
    import numpy as np
    from mc import core
    from mc.checks import c15 as C

    out = {}

    def add(d, fam, n, want, gen):
        label, M = _pick(gen(fam, n, tier, seed), want)
        out.setdefault(d, []).append((fam, label, np.array(M, copy=True)))

    if kind == "clements":
        g = C._generic_angles(seed)
        add(1, "d1", 0, {"z": complex(1)}, C._clements_cases)
        add(1, "d1", 0, {"z": complex(1j)}, C._clements_cases)
        add(1, "d1", 0, {"z": complex(np.exp(1j * g[0]))}, C._clements_cases)
        add(1, "d1", 0, {"z": -1.0, "dtype": "float64"}, C._clements_cases)
        for d in (2, 3, 4):
            pat = ("1j", "-1", "1", "1j")[:d]
            cat = C._block_catalogue(d - 1, seed)
            add(d, "identity", 0, {"d": d, "dtype": None}, C._clements_cases)
            add(d, "perm_diag", d, {"perm": list(range(d))[::-1], "diag": list(pat)}, C._clements_cases)
            add(d, "perm_sign_real", d, {"perm": list(range(1, d)) + [0], "signs": [(-1) ** k for k in range(d)]}, C._clements_cases)
            add(d, "block_diag", d, {"composition": [1, d - 1], "blocks": ["i", cat[-1][0]]}, C._clements_cases)
            add(d, "givens1", d, {"modes": [0, d - 1], "theta": g[0], "phi": g[1]}, C._clements_cases)
            add(d, "generic", 0, {"d": d, "haar": 0}, C._clements_cases)
    elif kind == "takagi":
        for n in (1, 2, 3, 4):
            add(n, "zero", 0, {"n": n, "dtype": "complex128"}, C._takagi_cases)
            add(n, "lambda_identity", 0, {"n": n, "lambda": complex(2.5), "dtype": "float64"}, C._takagi_cases)
            blocks = {1: ["i"], 2: ["G2*"], 3: ["i", "G2*"], 4: ["X", "G2*"]}[n]
            add(n, "direct_sum", n, {"blocks": blocks, "dtype": "complex128"}, C._takagi_cases)
            frame = "D" if n == 1 else "RD"
            add(n, "UDUt", n, {"frame": frame, "singular_values": [2.5, 2.5, 1.0, 0.0][:n], "dtype": "complex128"}, C._takagi_cases)
            add(n, "generic", 0, {"n": n, "complex_symmetric": 0}, C._takagi_cases)
            add(n, "generic", 0, {"n": n, "real_symmetric": 0, "dtype": "float64"}, C._takagi_cases)
    elif kind == "williamson":
        for d in (1, 2, 3) + ((4,) if tier == "thorough" else ()):
            rot = "rotation:D" if d == 1 else "rotation:R"
            add(d, "SDSt", d, {"S": "identity", "symplectic_values": [1.0] * d}, C._williamson_cases)
            add(d, "SDSt", d, {"S": rot, "symplectic_values": [2.5, 1.0, 4.0, 1.0][:d]}, C._williamson_cases)
            add(d, "SDSt", d, {"S": "squeezer_distinct", "symplectic_values": [2.5] * d}, C._williamson_cases)
            add(d, "SDSt", d, {"S": "bloch_messiah", "symplectic_values": [1.0, 2.5, 4.0, 2.5][:d]}, C._williamson_cases)
            add(d, "generic", 0, {"d": d, "generic": 0}, C._williamson_cases)
    elif kind == "euler":
        for d in (1, 2, 3):
            add(d, "frames", d, {"last": "I", "first": "I", "squeezings": [0.0] * d}, C._euler_cases)
            add(d, "frames", d, {"last": "H*", "first": "D", "squeezings": [0.4] * d}, C._euler_cases)
            if d == 1:
                add(d, "frames", d, {"last": "D", "first": "H*", "squeezings": [0.9]}, C._euler_cases)
            else:
                add(d, "frames", d, {"last": "R", "first": "F", "squeezings": [0.4, 0.9, 0.0][:d]}, C._euler_cases)
            add(d, "gate_products", d, {"gates": [["S", [0], [0.3, C.PI / 2]]]}, C._euler_cases)
            if d >= 2:
                add(d, "gate_products", d, {"gates": [["B", [0, 1], [C.PI / 4, 0.0]], ["S2", [1, 0], [1.2, C.PI / 2]]]}, C._euler_cases)
            add(d, "generic", 0, {"d": d, "generic": 0}, C._euler_cases)
    else:
        raise ValueError(kind)
    for d, reps in out.items():
        for (fa, la, A), (fb, lb, B) in itertools.combinations(reps, 2):
            if A.shape != B.shape or np.array_equal(A, B):
                raise core.HarnessError("HARNESS-SELFTEST C15 history: representatives %r and %r of %s d=%d are not different inputs of one shape" % (la, lb, kind, d))
    return out


def sequences(nreps):
    """index tuples: every ordered pair of different representatives and every ordered
    triple of the first three"""
    seqs = list(itertools.permutations(range(nreps), 2))
    seqs += list(itertools.permutations(range(min(nreps, 3)), 3))
    return seqs


# =======================================================================================
# entry points: prepare(input) -> argument, call(argument) -> result, arrays(result) ->
# the numbers the result is made of (copied), verify(result, input) -> error or None


def _dec_numbers(dec):
    import numpy as np

    bs = [[float(b.modes[0]), float(b.modes[1]), float(np.asarray(b.params[0])), float(np.asarray(b.params[1]))] for b in dec.beamsplitters]
    ps = [[float(p.mode), float(np.asarray(p.phi))] for p in dec.phaseshifters]
    return [np.array(bs, dtype=float).reshape(len(bs), 4), np.array(ps, dtype=float).reshape(len(ps), 2)]


def _instr_numbers(ins):
    import numpy as np

    rows = []
    for i in ins:
        name = type(i).__name__
        modes = list(i.modes) + [-1] * (2 - len(i.modes))
        params = dict(i.params)
        rows.append([{"Phaseshifter": 0.0, "Beamsplitter": 1.0}.get(name, 9.0), float(modes[0]), float(modes[1]),
                     float(np.asarray(params.get("theta", 0.0))), float(np.asarray(params.get("phi", 0.0)))])
    return [np.array(rows, dtype=float).reshape(len(rows), 5)]


def _unitary_of_instructions(ins, d):
    from mc.refmodel import decompref as R

    return R.unitary_of_gate_list([(type(i).__name__, tuple(i.modes), dict(i.params)) for i in ins], d)


class Site:
    def __init__(self, name):
        import numpy as np
        import piquasso as pq

        self.name = name
        self.conn = pq.NumpyConnector()
        self.np = np

    # -- argument handed to the entry point (independent deep copies: the preparation itself
    #    must not be able to alias anything between the calls of a history)
    def prepare(self, M):
        np = self.np
        from piquasso.decompositions import clements as C

        M = np.array(M, copy=True)
        if self.name in ("inverse_clements", "instructions_from_decomposition", "get_weights_from_decomposition"):
            return copy.deepcopy(C.clements(M, self.conn))
        if self.name in ("get_decomposition_from_weights", "get_interferometer_from_weights"):
            return np.array(C.get_weights_from_interferometer(M, self.conn), copy=True)
        return M

    def call(self, arg, d):
        np = self.np
        from piquasso.decompositions import clements as C
        from piquasso._math import decompositions as D

        n = self.name
        if n == "clements":
            return C.clements(arg, self.conn)
        if n == "inverse_clements":
            return C.inverse_clements(arg, self.conn, np.complex128)
        if n == "instructions_from_decomposition":
            return C.instructions_from_decomposition(arg)
        if n == "get_weights_from_interferometer":
            return C.get_weights_from_interferometer(arg, self.conn)
        if n == "get_weights_from_decomposition":
            return C.get_weights_from_decomposition(arg, d, self.conn)
        if n == "get_decomposition_from_weights":
            return C.get_decomposition_from_weights(arg, d, self.conn)
        if n == "get_interferometer_from_weights":
            return C.get_interferometer_from_weights(arg, d, self.conn, np.complex128)
        if n == "takagi":
            return D.takagi(arg, self.conn)
        if n == "williamson":
            return D.williamson(arg, self.conn)
        if n == "euler":
            return D.euler(arg, self.conn)
        raise ValueError(n)

    def arrays(self, res):
        """the numbers of a result, copied (snapshot)"""
        np = self.np
        n = self.name
        if n in ("clements", "get_decomposition_from_weights"):
            return _dec_numbers(res)
        if n == "instructions_from_decomposition":
            return _instr_numbers(res)
        if n in ("takagi", "williamson", "euler"):
            return [np.array(np.asarray(x), copy=True) for x in res]
        return [np.array(np.asarray(res), copy=True)]

    def verify(self, res, M):
        """None if the result reconstructs the input M (default tolerance), else text"""
        np = self.np
        from piquasso.decompositions import clements as C
        from mc.checks import c15 as K
        from mc.refmodel import decompref as R

        n = self.name
        M = np.asarray(M)
        scale = max(1.0, R.spectral_norm(M))
        tol = K.TOL + K.TOL * scale
        d = len(M)

        def close(got, what, ref=M, t=tol):
            got = np.asarray(got)
            if got.shape != np.shape(ref) or not R.all_finite(got):
                return "%s has shape %s / non-finite entries" % (what, got.shape)
            e = R.maxabs(got - ref)
            return None if e <= t else "max|%s - input| = %.3e > %.1e" % (what, e, t)

        if n in ("clements", "get_decomposition_from_weights"):
            return close(C.inverse_clements(res, self.conn, np.complex128), "inverse_clements(result)") or close(
                _unitary_of_instructions(C.instructions_from_decomposition(res), d), "documented gates of instructions_from_decomposition(result)")
        if n in ("inverse_clements", "get_interferometer_from_weights"):
            return close(res, "result")
        if n == "instructions_from_decomposition":
            return close(_unitary_of_instructions(res, d), "product of the documented gate matrices of the returned list")
        if n in ("get_weights_from_interferometer", "get_weights_from_decomposition"):
            w = np.asarray(res)
            if w.shape != (d * d,) or np.iscomplexobj(w) or not R.all_finite(w):
                return "weight vector is not a finite real vector of length d^2"
            return close(C.get_interferometer_from_weights(np.array(w, copy=True), d, self.conn, np.complex128), "get_interferometer_from_weights(result)")
        if n == "takagi":
            s, U = (np.asarray(x) for x in res)
            if s.shape != (d,) or U.shape != (d, d) or not R.all_finite(s, U):
                return "shapes %s %s / non-finite" % (s.shape, U.shape)
            if np.iscomplexobj(s) or not np.all(s >= 0):
                return "singular values %s" % (s,)
            if not R.unitarity_defect(U) <= 2 * K.TOL:
                return "max|U U^+ - 1| = %.3e" % R.unitarity_defect(U)
            return close(U @ np.diag(s) @ U.T, "U diag(s) U^T")
        if n == "williamson":
            S, Dm = (np.asarray(x) for x in res)
            if S.shape != M.shape or Dm.shape != M.shape or not R.all_finite(S, Dm):
                return "shapes %s %s / non-finite" % (S.shape, Dm.shape)
            S, Dm = S.real, Dm.real
            m = d // 2
            ns = max(1.0, R.spectral_norm(S) ** 2)
            es = R.maxabs(S @ R.omega_xxpp(m) @ S.T - R.omega_xxpp(m))
            if not es <= K.TOL + K.TOL * ns:
                return "max|S Omega S^T - Omega| = %.3e" % es
            dd = np.diag(Dm)
            ds = max(1.0, float(np.max(np.abs(dd))))
            if not (R.maxabs(Dm - np.diag(dd)) <= K.TOL * ds and R.maxabs(dd[:m] - dd[m:]) <= K.TOL + K.TOL * ds and bool(np.all(dd > 0))):
                return "D is not a positive diagonal paired per mode"
            return close(S @ Dm @ S.T, "S D S^T")
        if n == "euler":
            Ul, sq, Uf = (np.asarray(x) for x in res)
            m = d // 2
            if Ul.shape != (m, m) or Uf.shape != (m, m) or sq.shape != (m,) or not R.all_finite(Ul, sq, Uf):
                return "shapes %s %s %s / non-finite" % (Ul.shape, sq.shape, Uf.shape)
            if np.iscomplexobj(sq) or not np.all(sq >= 0):
                return "squeezings %s" % (sq,)
            if not max(R.unitarity_defect(Ul), R.unitarity_defect(Uf)) <= 2 * K.TOL:
                return "passive factors are not unitary"
            return close(R.euler_recompose(Ul, sq.real, Uf), "U_last Sq(r) U_first")
        raise ValueError(n)


def _dim(kind, M):
    return len(M) if kind in ("clements", "takagi") else len(M) // 2


def _same(a, b):
    import numpy as np

    if len(a) != len(b):
        return False
    for x, y in zip(a, b):
        if x.shape != y.shape or x.dtype != y.dtype or not np.array_equal(x, y, equal_nan=True):
            return False
    return True


def single_ok(kind, site, M):
    """does the call alone (nothing between call and use) satisfy the site's oracle?"""
    s = Site(site)
    try:
        res = s.call(s.prepare(M), _dim(kind, M))
        return s.verify(res, M) is None
    except Exception:
        return False


def eval_history(kind, site, mats, oks):
    """one history.  Returns a list of failures {"sub", "site", "detail", "position"}; `oks[i]`
    says whether input i passes its oracle in a single call (else it is only checked for
    aliasing, not for correctness)."""
    s = Site(site)
    d = _dim(kind, mats[0])
    fails = []
    results, snaps = [], []
    try:
        args = [s.prepare(M) for M in mats]
        for a in args:
            r = s.call(a, d)
            results.append(r)
            snaps.append(s.arrays(r))
    except Exception as e:
        if all(oks):
            fails.append({"sub": "exception_after_call_history", "site": site, "exc": type(e).__name__, "position": len(results),
                          "detail": "call %d of the history raised %r although every input passes alone" % (len(results) + 1, e)})
        return fails
    # (1) nothing handed out earlier may have been changed by a later call -- compared BEFORE
    # any further library call is made by the oracles below
    changed = []
    for i, r in enumerate(results):
        now = s.arrays(r)
        if not _same(now, snaps[i]):
            changed.append(i)
            fails.append({"sub": "result_aliased_by_later_call", "site": site, "position": i,
                          "detail": "the result of call %d of %d is no longer what that call returned after the later call(s): %s"
                          % (i + 1, len(mats), _diff_text(snaps[i], now))})
    # (2) every result, used only now, must still satisfy the reconstruction oracle
    for i, r in enumerate(results):
        if i in changed or not oks[i]:
            continue
        try:
            err = s.verify(r, mats[i])
        except Exception as e:
            err = "the oracle's use of the result raised %r" % (e,)
        if err:
            fails.append({"sub": "result_wrong_after_call_history", "site": site, "position": i,
                          "detail": "result of call %d of %d (correct when called alone) used after the history: %s" % (i + 1, len(mats), err)})
    return fails


def _diff_text(before, now):
    import numpy as np

    for k, (x, y) in enumerate(zip(before, now)):
        if x.shape != y.shape:
            return "array %d changed shape %s -> %s" % (k, x.shape, y.shape)
        if not np.array_equal(x, y, equal_nan=True):
            with np.errstate(invalid="ignore"):
                return "array %d: %d of %d entries differ, max|change| = %.3e" % (k, int(np.sum(x != y)), x.size, float(np.nanmax(np.abs(x - y))))
    return "number of arrays changed"
