"""Rebuild piquasso's native kernels from /repo's *current working tree*.

The /venv install is editable for Python sources but ships prebuilt .so files, so an
edit of /repo/src/*.cpp would be invisible to the checks.  ensure_built() hashes the
native sources and compiles the four extension modules into /verif/build/<hash>/;
install_native() preloads them into sys.modules *before* `import piquasso` so that the
library under test runs kernels compiled from the tree being checked.

A compile error is a broken build (BuildError -> exit 2), never a VIOLATION.
"""

import hashlib
import importlib.util
import os
import subprocess
import sys
from concurrent.futures import ThreadPoolExecutor

REPO = os.environ.get("VERIF_REPO", "/repo")
VERIF = os.path.dirname(os.path.dirname(os.path.abspath(__file__)))
BUILD_ROOT = os.path.join(VERIF, "build")

PY_INC = "/root/.pyenv/versions/3.12.1/include/python3.12"
SITE = "/venv/lib/python3.12/site-packages"
PYBIND_INC = SITE + "/tensorflow/include/external/pybind11/include"
JAXLIB_INC = SITE + "/jaxlib/include"
EXT = ".cpython-312-x86_64-linux-gnu.so"


class BuildError(Exception):
    pass


def _native_sources():
    files = []
    for root in (os.path.join(REPO, "src"), os.path.join(REPO, "piquasso", "_math")):
        for dirpath, dirnames, filenames in os.walk(root):
            dirnames[:] = sorted(d for d in dirnames if d not in ("cuda", "__pycache__", "hafnian", "jax"))
            for fn in sorted(filenames):
                if fn.endswith((".cpp", ".hpp", ".h")):
                    files.append(os.path.join(dirpath, fn))
    return files


def source_hash():
    h = hashlib.sha1()
    for f in _native_sources():
        h.update(os.path.relpath(f, REPO).encode())  # identical sources share one build
        with open(f, "rb") as fh:
            h.update(fh.read())
    h.update(b"v3")
    return h.hexdigest()[:16]


def _modules(src):
    m = os.path.join(REPO, "piquasso", "_math")
    return {
        "permanent": [m + "/permanent.cpp", src + "/permanent.cpp", src + "/permanent_laplace.cpp"],
        "torontonian": [
            m + "/torontonian.cpp",
            src + "/torontonian.cpp",
            src + "/loop_torontonian.cpp",
            src + "/torontonian_common.cpp",
        ],
        "pfaffian": [m + "/pfaffian.cpp", src + "/pfaffian.cpp"],
        "_jax_perm_core": [src + "/jax_perm/jax_perm_core.cpp", src + "/permanent.cpp"],
    }


def _compile(name, sources, outdir):
    out = os.path.join(outdir, name + EXT)
    if os.path.exists(out):
        return out
    tmp = out + ".tmp%d" % os.getpid()
    cmd = [
        "g++", "-O2", "-std=c++17", "-fopenmp", "-fPIC", "-shared", "-fvisibility=hidden",
        "-I", os.path.join(REPO, "src"), "-I", PY_INC, "-I", PYBIND_INC, "-I", JAXLIB_INC,
        *sources, "-o", tmp,
    ]
    p = subprocess.run(cmd, capture_output=True, text=True)
    if p.returncode != 0:
        raise BuildError("compile of %s failed:\n%s" % (name, p.stderr[-4000:]))
    os.replace(tmp, out)
    return out


def ensure_built(verbose=False):
    h = source_hash()
    outdir = os.path.join(BUILD_ROOT, h)
    os.makedirs(outdir, exist_ok=True)
    mods = _modules(os.path.join(REPO, "src"))
    todo = {n: s for n, s in mods.items() if not os.path.exists(os.path.join(outdir, n + EXT))}
    if todo:
        if verbose:
            print("building native modules %s into %s" % (sorted(todo), outdir), flush=True)
        with ThreadPoolExecutor(4) as ex:
            list(ex.map(lambda kv: _compile(kv[0], kv[1], outdir), todo.items()))
    # prune old builds (keep the 12 most recent, never one younger than 6 h: concurrent
    # runs against scratch worktrees may still be compiling into theirs) -- disk is limited
    try:
        import time

        ds = sorted(
            (d for d in os.listdir(BUILD_ROOT) if os.path.isdir(os.path.join(BUILD_ROOT, d)) and len(d) == 16),
            key=lambda d: os.path.getmtime(os.path.join(BUILD_ROOT, d)),
        )
        for d in ds[:-12]:
            if d != h and time.time() - os.path.getmtime(os.path.join(BUILD_ROOT, d)) > 6 * 3600:
                import shutil

                shutil.rmtree(os.path.join(BUILD_ROOT, d), ignore_errors=True)
    except OSError:
        pass
    return outdir


_FULLNAMES = {
    "permanent": "piquasso._math.permanent",
    "torontonian": "piquasso._math.torontonian",
    "pfaffian": "piquasso._math.pfaffian",
    "_jax_perm_core": "piquasso.jax_extensions._jax_perm_core",
}


def install_native(outdir=None):
    """Preload freshly built native modules; must be called before `import piquasso`
    touches them (piquasso/__init__ imports lazily enough: the parent packages are
    imported first here, then the extension modules are replaced)."""
    if outdir is None:
        outdir = ensure_built()
    # import piquasso's Python sources from REPO's working tree through sys.path (not through
    # the static module map of the editable-install finder, which would miss new files and
    # cannot be pointed at a scratch worktree)
    sys.meta_path[:] = [f for f in sys.meta_path if type(f).__name__ != "ScikitBuildRedirectingFinder"]
    if "piquasso" in sys.modules and not getattr(sys.modules["piquasso"], "__file__", "").startswith(REPO + os.sep):
        raise BuildError("piquasso was imported before install_native() from %s" % sys.modules["piquasso"].__file__)
    if sys.path[0] != REPO:
        sys.path.insert(0, REPO)
    for short, full in _FULLNAMES.items():
        if full in sys.modules and getattr(sys.modules[full], "__verif_built__", False):
            continue
        path = os.path.join(outdir, short + EXT)
        spec = importlib.util.spec_from_file_location(full, path)
        mod = importlib.util.module_from_spec(spec)
        spec.loader.exec_module(mod)
        mod.__verif_built__ = True
        sys.modules[full] = mod
    return outdir


def build_driver(name, sources, flags, outdir=None, includes=()):
    """Compile a standalone native driver (sanitizer builds etc.) into the build dir."""
    if outdir is None:
        outdir = ensure_built()
    h = hashlib.sha1()
    for s in sources:
        with open(s, "rb") as fh:
            h.update(fh.read())
    h.update(" ".join(flags).encode())
    out = os.path.join(outdir, "%s-%s" % (name, h.hexdigest()[:10]))
    if os.path.exists(out):
        return out
    tmp = out + ".tmp%d" % os.getpid()
    cmd = ["g++", "-std=c++17", "-I", os.path.join(REPO, "src")]
    for i in includes:
        cmd += ["-I", i]
    cmd += [*flags, *sources, "-o", tmp]
    p = subprocess.run(cmd, capture_output=True, text=True)
    if p.returncode != 0:
        raise BuildError("compile of driver %s failed:\n%s" % (name, p.stderr[-4000:]))
    os.replace(tmp, out)
    return out


if __name__ == "__main__":
    print(ensure_built(verbose=True))
