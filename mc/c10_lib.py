"""Private helpers of check C10 (automatic derivatives equal the true derivatives).

A *circuit* is a JSON-able dict

    {"d": 2, "cutoff": 4, "input": "vac" | "num", "batch": None | "prep" | "apply",
     "gates": [["D", [0]], ["B", [1, 0]]]}

and is executed by `make_function(kind, circuit)` -> f(x) where x is the flat vector of all
gate parameters (in gate order) and f returns the flat vector of every differentiable output
(all Fock probabilities, mean photon number, mean position of every mode, norm; for batched
circuits the same for every state of the batch).  `kind` selects the connector: "np" (oracle),
"tf" / "tff" (TensorFlow eager / decorate_with=tf.function), "jax".

Nothing here decides anything randomly: the only seed-dependent things are the two "generic"
lattice coordinates and the generic base point / matrices.
"""

import itertools
import math

import numpy as np

# name -> (piquasso class, arity, parameter names, parameter scales, jax_supported)
PI2 = math.pi / 2
GATES = {
    "D": ("Displacement", 1, ("r", "phi"), (0.6, PI2)),
    "S": ("Squeezing", 1, ("r", "phi"), (0.5, PI2)),
    "P": ("Phaseshifter", 1, ("phi",), (PI2,)),
    "K": ("Kerr", 1, ("xi",), (1.0,)),
    "Q": ("QuadraticPhase", 1, ("s",), (0.5,)),
    "C": ("CubicPhase", 1, ("gamma",), (0.3,)),
    "I1": ("Interferometer", 1, ("w0",), (PI2,)),
    "B": ("Beamsplitter", 2, ("theta", "phi"), (PI2, PI2)),
    "X": ("CrossKerr", 2, ("xi",), (1.0,)),
    "S2": ("Squeezing2", 2, ("r", "phi"), (0.4, PI2)),
    "I2": ("Interferometer", 2, ("w0", "w1", "w2"), (PI2, PI2, PI2)),
    "I3": ("Interferometer", 3, ("w0", "w1", "w2", "w3", "w4", "w5"), (PI2,) * 6),
}
# gates that piquasso routes through euler()/takagi() (schur): no JAX differentiation rule
EULER_GATES = ("Q", "S2")
ORDER = ("D", "S", "P", "K", "Q", "C", "I1", "B", "X", "S2", "I2", "I3")


def lattice(seed):
    """5-point lattice in [-1, 1]: the three fixed points -1, 0, 1 and two 'generic' interior points
    (one negative, one positive) taken from a seed-indexed catalogue."""
    cat_neg = (-0.45, -0.37, -0.58, -0.29, -0.66)
    cat_pos = (0.3, 0.41, 0.23, 0.62, 0.52)
    s = int(seed) % 5
    return (-1.0, cat_neg[s], 0.0, cat_pos[s], 1.0)


def base_point(seed, p):
    """generic base point (in lattice units, every coordinate non-zero and pairwise different) through
    which the axis-aligned lines of a reduced lattice run."""
    cat = (0.37, -0.52, 0.71, -0.23, 0.44, 0.63, -0.81, 0.29, -0.34, 0.57, 0.48, -0.67)
    s = int(seed) % len(cat)
    return tuple(cat[(s + 5 * i) % len(cat)] * (1 + 0.013 * (i // len(cat))) for i in range(p))


def param_info(circuit):
    """list of (gate index, gate key, param name, scale) for the flat parameter vector"""
    out = []
    for gi, (g, modes) in enumerate(circuit["gates"]):
        _, _, names, scales = GATES[g]
        for n, s in zip(names, scales):
            out.append((gi, g, n, s))
    if circuit.get("batch") == "prep":
        out.append((-1, "prep", "r", 0.6))
        out.append((-1, "prep", "phi", PI2))
    if circuit.get("batch") == "apply":
        # the circuit's gates are applied per batch element with separate parameters: double them
        out = [(gi, g, n + "@%d" % b, s) for b in range(2) for (gi, g, n, s) in out]
    return out


def lattice_points(circuit, seed, full_limit):
    """parameter points (in absolute units) of a circuit.  Full tensor grid when 5**p <= full_limit,
    otherwise all axis-aligned lines through the generic base point and through the origin plus the
    all-equal diagonal.  Returns (points, kind)."""
    info = param_info(circuit)
    p = len(info)
    L = lattice(seed)
    scales = np.array([s for (_, _, _, s) in info])
    if 5**p <= full_limit:
        pts = [np.array(t) for t in itertools.product(L, repeat=p)]
        kind = "full"
    else:
        base = np.array(base_point(seed, p))
        seen = set()
        pts = []

        def add(v):
            k = tuple(np.round(v, 12))
            if k not in seen:
                seen.add(k)
                pts.append(np.array(v, dtype=float))

        for v in L:
            add(np.full(p, v))
        for origin in (base, np.zeros(p)):
            for i in range(p):
                for v in L:
                    q = origin.copy()
                    q[i] = v
                    add(q)
        kind = "axis+diag"
    return [q * scales for q in pts], kind


# ---------------------------------------------------------------------------------------
# circuits


def mode_tuples(d, k):
    return list(itertools.permutations(range(d), k))


def alphabet(d, with_i3=False):
    """every (gate key, ordered mode tuple) on d modes"""
    out = []
    for g in ORDER:
        ar = GATES[g][1]
        if ar > d or (g == "I3" and not with_i3):
            continue
        for modes in mode_tuples(d, ar):
            out.append((g, list(modes)))
    return out


def number_input(d):
    return {1: [2], 2: [2, 1], 3: [1, 0, 2]}[d]


def describe(circuit):
    s = "d%d c%d %s%s: " % (circuit["d"], circuit["cutoff"], circuit["input"], ("/batch-" + circuit["batch"]) if circuit.get("batch") else "")
    return s + " ".join("%s%s" % (g, tuple(m)) for g, m in circuit["gates"])


def jax_unsupported(circuit):
    return any(g in EULER_GATES for g, _ in circuit["gates"])


# ---------------------------------------------------------------------------------------
# execution

_CONN = {}


def connector(kind):
    """one long-lived connector per kind and worker (the way a training loop uses them; for
    decorate_with=tf.function this is also what makes the traces reusable)"""
    import piquasso as pq

    if kind not in _CONN:
        if kind == "np":
            _CONN[kind] = pq.NumpyConnector()
        elif kind == "tf":
            _CONN[kind] = pq.TensorflowConnector()
        elif kind == "tff":
            import tensorflow as tf

            _CONN[kind] = pq.TensorflowConnector(decorate_with=tf.function)
        elif kind == "jax":
            _CONN[kind] = pq.JaxConnector()
        else:
            raise ValueError(kind)
    return _CONN[kind]


def _bs(xp, theta, phi):
    t = xp.cos(theta) + 0j
    r = xp.exp(1j * phi) * xp.sin(theta)
    return [[t, -xp.conj(r)], [r, t]]


def _embed(xp, m2, idx, n):
    """n x n matrix equal to the identity except for the 2x2 block m2 (list of lists of scalars) on
    rows/cols idx; built as a sum of scalar * constant unit matrices so that it is differentiable
    with every array library"""
    out = np.zeros((n, n), dtype=complex)
    for k in range(n):
        if k not in idx:
            out[k, k] = 1.0
    total = out
    for a in range(2):
        for b in range(2):
            unit = np.zeros((n, n), dtype=complex)
            unit[idx[a], idx[b]] = 1.0
            total = total + m2[a][b] * unit
    return total


def interferometer_matrix(xp, key, w):
    """unitary built from a real weight vector with the connector's array library"""
    if key == "I1":
        unit = np.ones((1, 1), dtype=complex)
        return xp.exp(1j * w[0]) * unit
    if key == "I2":
        m = _embed(xp, _bs(xp, w[0], w[1]), (0, 1), 2)
        ph = np.zeros((2, 2), dtype=complex)
        ph[1, 1] = 1.0
        e0 = np.zeros((2, 2), dtype=complex)
        e0[0, 0] = 1.0
        phase = ph + xp.exp(1j * w[2]) * e0
        return phase @ m
    if key == "I3":
        a = _embed(xp, _bs(xp, w[0], w[1]), (0, 1), 3)
        b = _embed(xp, _bs(xp, w[2], w[3]), (1, 2), 3)
        c = _embed(xp, _bs(xp, w[4], w[5]), (0, 1), 3)
        return a @ b @ c
    raise ValueError(key)


def _gate(pq, xp, key, params):
    cls = GATES[key][0]
    if cls == "Interferometer":
        return pq.Interferometer(interferometer_matrix(xp, key, params))
    names = GATES[key][2]
    return getattr(pq, cls)(**dict(zip(names, params)))


def _apply_gates(pq, xp, circuit, xs, offset=0):
    k = offset
    for g, modes in circuit["gates"]:
        n = len(GATES[g][2])
        pq.Q(*modes) | _gate(pq, xp, g, [xs[k + i] for i in range(n)])
        k += n
    return k


def _prepare_input(pq, circuit, which=None):
    which = which or circuit["input"]
    if which == "vac":
        pq.Q() | pq.Vacuum()
    else:
        pq.Q() | pq.NumberState(number_input(circuit["d"]))


def build_program(pq, xp, circuit, xs):
    """the piquasso program of a circuit at parameter values xs (scalars of the AD library)"""
    d = circuit["d"]
    batch = circuit.get("batch")
    if not batch:
        with pq.Program() as program:
            _prepare_input(pq, circuit)
            _apply_gates(pq, xp, circuit, xs)
        return program
    if batch == "prep":
        # two differently prepared states, the first one with differentiable preparation parameters
        n = len(xs)
        with pq.Program() as first:
            pq.Q() | pq.Vacuum()
            pq.Q(d - 1) | pq.Displacement(r=xs[n - 2], phi=xs[n - 1])
        with pq.Program() as second:
            pq.Q() | pq.NumberState(number_input(d))
        with pq.Program() as program:
            pq.Q() | pq.BatchPrepare([first, second])
            _apply_gates(pq, xp, circuit, xs)
        return program
    if batch == "apply":
        with pq.Program() as first:
            pq.Q() | pq.Vacuum()
            pq.Q(0) | pq.Displacement(r=0.4, phi=0.3)
        with pq.Program() as second:
            pq.Q() | pq.NumberState(number_input(d))
        subs = []
        k = 0
        for b in range(2):
            with pq.Program() as sub:
                k = _apply_gates(pq, xp, circuit, xs, offset=k)
            subs.append(sub)
        with pq.Program() as program:
            pq.Q() | pq.BatchPrepare([first, second])
            pq.Q() | pq.BatchApply(subs)
        return program
    raise ValueError(batch)


def output_names(circuit):
    from mc.refmodel import fockref

    d, c = circuit["d"], circuit["cutoff"]
    one = ["p%s" % (tuple(v),) for v in fockref.basis(d, c)] + ["mean_photon_number"] + ["mean_position(%d)" % m for m in range(d)] + ["norm"]
    if circuit.get("batch"):
        return ["b%d:%s" % (b, n) for b in range(2) for n in one]
    return one


def output_class(name):
    name = name.split(":")[-1]
    if name.startswith("p("):
        return "fock_probabilities"
    if name.startswith("mean_position"):
        return "mean_position"
    return name


def collect_outputs(xp, state, circuit, stack, concat):
    """flat vector of every differentiable output of the final state"""
    d = circuit["d"]
    if not circuit.get("batch"):
        scalars = [state.mean_photon_number()] + [state.mean_position(m) for m in range(d)] + [state.norm]
        return concat([state.fock_probabilities, stack(scalars)])
    probs = state.fock_probabilities  # list, one vector per batch element
    mpn = state.mean_photon_number()
    pos = [state.mean_position(m) for m in range(d)]
    norm = state.norm
    parts = []
    for b in range(2):
        parts.append(probs[b])
        parts.append(stack([mpn[b]] + [pos[m][b] for m in range(d)] + [norm[b]]))
    return concat(parts)


def simulator(kind, circuit):
    import piquasso as pq

    return pq.PureFockSimulator(
        d=circuit["d"], config=pq.Config(cutoff=circuit["cutoff"], seed_sequence=1), connector=connector(kind)
    )


def numpy_function(circuit):
    """f(x) -> float64 output vector of the NumPy-connector simulation (the oracle's primitive)"""
    import piquasso as pq

    sim = simulator("np", circuit)

    def f(x):
        program = build_program(pq, np, circuit, [float(v) for v in x])
        state = sim.execute(program).state
        out = collect_outputs(np, state, circuit, lambda s: np.array(s, dtype=float), np.concatenate)
        return np.asarray(out, dtype=float)

    return f


def tf_run(kind, circuit, x, want_jacobian=True, pfor=False):
    """(output vector, jacobian list or None) of the TensorFlow simulation: eager custom-gradient rules
    (kind 'tf') or autodiff through tf.function-decorated steps (kind 'tff').  The whole output vector
    is assembled INSIDE the tape (slicing afterwards would silently give None gradients)."""
    import tensorflow as tf
    import piquasso as pq

    conn = connector(kind)
    xp = conn.np
    sim = simulator(kind, circuit)
    variables = [tf.Variable(float(v), dtype=tf.float64) for v in x]
    with tf.GradientTape(persistent=True) as tape:
        program = build_program(pq, xp, circuit, variables)
        state = sim.execute(program).state
        out = collect_outputs(
            xp, state, circuit, lambda s: tf.stack([tf.cast(v, tf.float64) for v in s]),
            lambda parts: tf.concat([tf.cast(v, tf.float64) for v in parts], 0),
        )
    if not want_jacobian:
        return out.numpy(), None
    if pfor:
        # TensorFlow's default: the backward pass is traced and vectorised, so the hand-written gradient
        # functions receive SYMBOLIC upstream tensors (their `else` branches)
        jac = tape.jacobian(out, variables, unconnected_gradients=tf.UnconnectedGradients.NONE)
    else:
        jac = tape.jacobian(out, variables, experimental_use_pfor=False)
    del tape
    return out.numpy(), [None if j is None else j.numpy() for j in jac]


def jax_function(circuit):
    """f(x: jnp vector) -> jnp output vector through the JAX connector"""
    import jax.numpy as jnp
    import piquasso as pq

    sim = simulator("jax", circuit)

    def f(x):
        program = build_program(pq, jnp, circuit, [x[i] for i in range(x.shape[0])])
        state = sim.execute(program).state
        return collect_outputs(jnp, state, circuit, lambda s: jnp.stack([jnp.asarray(v) for v in s]), lambda parts: jnp.concatenate([jnp.asarray(v) for v in parts]))

    return f


# ---------------------------------------------------------------------------------------
# oracle


def central(f, x, h):
    x = np.asarray(x, dtype=float)
    cols = []
    for i in range(len(x)):
        e = np.zeros_like(x)
        e[i] = h
        cols.append((f(x + e) - f(x - e)) / (2 * h))
    return np.stack(cols, axis=1)


def richardson(f, x, h=1e-3):
    """central differences at h and h/2, Richardson-extrapolated (error O(h^4)).  Also returns a
    self-consistency indicator of the ORACLE: the largest difference to the same extrapolation from
    (h/2, h/4).  For a smooth function the two agree to ~1e-10; a kink or jump of the NumPy simulation
    inside the stencil (a branch switch of a matrix decomposition) makes them differ by ~jump/h."""
    a = central(f, x, h)
    b = central(f, x, h / 2)
    c = central(f, x, h / 4)
    r1 = (4 * b - a) / 3
    r2 = (4 * c - b) / 3
    return r1, float(np.max(np.abs(r1 - r2))) if a.size else 0.0


def compare(ad, fd, tol=1e-6):
    """indices (row, col) where |ad - fd| > tol * (1 + |fd|) or ad is not finite"""
    ad = np.asarray(ad, dtype=float)
    bad = ~np.isfinite(ad) | (np.abs(np.where(np.isfinite(ad), ad, 0.0) - fd) > tol * (1 + np.abs(fd)))
    return [tuple(int(v) for v in ij) for ij in np.argwhere(bad)]


# ---------------------------------------------------------------------------------------
# permanent


def perm_reference(A, rows, cols):
    """permanent of A with row/column multiplicities, by definition (sum over permutations of the
    expanded matrix); independent of piquasso"""
    ri = [i for i, m in enumerate(rows) for _ in range(m)]
    ci = [j for j, m in enumerate(cols) for _ in range(m)]
    n = len(ri)
    assert n == len(ci)
    if n == 0:
        return 1.0 + 0.0j
    total = 0.0 + 0.0j
    for perm in itertools.permutations(range(n)):
        term = 1.0 + 0.0j
        for k in range(n):
            term *= A[ri[k]][ci[perm[k]]]
        total += term
    return total


def multiplicity_pairs(n, max_total):
    out = []
    for t in range(max_total + 1):
        vecs = [v for v in itertools.product(range(t + 1), repeat=n) if sum(v) == t]
        for r in vecs:
            for c in vecs:
                out.append((r, c))
    return out


def perm_matrices(n, seed):
    """catalogue of n x n complex matrices: generic dense, real, with zero entries, unitary-like"""
    s = int(seed)
    k = np.arange(n * n).reshape(n, n)
    generic = np.cos(1.3 * k + 0.7 + 0.37 * s) * 0.8 + 1j * np.sin(2.1 * k + 0.2 + 0.53 * s) * 0.7
    real = (np.cos(0.9 * k + 1.1 + 0.41 * s) * 0.9).astype(complex)
    holes = generic.copy()
    for i in range(n):
        holes[i, (i + 1) % n] = 0.0
    if n == 1:
        holes = np.zeros((1, 1), dtype=complex)
    q, _ = np.linalg.qr(generic + np.eye(n))
    return {"generic": generic, "real": real, "zeros": holes, "unitary": q}
