"""C12 helper: array immutability of every matrix function reachable from the NumPy
connector (and the decompositions): the bytes of every array argument -- and of the
buffer it is a view of -- are unchanged after the call, for contiguous / Fortran /
strided / offset-view / read-only inputs, float64 and complex128 (float32 / complex64 in
the thorough tier); a read-only input must not produce a write error.
"""

import re

import numpy as np

from mc import c12_snapshot as S

WRITE_ERROR = re.compile(
    r"(assignment destination is read-only|Cannot modify readonly|buffer source array is read-only|"
    r"output array is read-only|array is read-only|is not writeable|WRITEABLE)",
    re.I,
)

FUNCTIONS = [
    "permanent",
    "permanent_laplace",
    "hafnian",
    "loop_hafnian",
    "loop_hafnian_batch",
    "pfaffian",
    "torontonian",
    "loop_torontonian",
    "takagi",
    "williamson",
    "euler",
    "clements",
]

LAYOUTS_2D = ["C", "F", "strided", "offset", "readonly", "readonly_strided", "readonly_F"]
LAYOUTS_1D = ["C", "strided", "readonly"]


def sizes(fn, tier):
    big = tier != "quick"
    if fn in ("permanent", "permanent_laplace"):
        return [1, 2, 3] + ([4, 5, 6] if big else [])
    if fn in ("hafnian", "loop_hafnian", "loop_hafnian_batch"):
        return [2, 4] + ([3, 5, 6] if big else [])
    if fn == "pfaffian":
        return [2, 3, 4, 6] + ([8, 10] if big else [])
    if fn in ("torontonian", "loop_torontonian"):
        return [1, 2] + ([3, 4] if big else [])  # number of modes, matrix is 2n x 2n
    if fn in ("williamson", "euler"):
        return [1, 2] + ([3] if big else [])
    return [1, 2, 3] + ([4, 5] if big else [])  # takagi, clements


def dtypes(fn, tier):
    big = tier != "quick"
    if fn in ("permanent", "permanent_laplace"):
        return ["complex128", "float64"] + (["complex64"] if big else [])
    if fn in ("hafnian", "loop_hafnian"):
        return ["complex128", "float64"]
    if fn == "loop_hafnian_batch":
        return ["complex128"]
    if fn in ("pfaffian", "torontonian", "loop_torontonian"):
        return ["float64", "complex128"] + (["float32"] if big else [])
    if fn == "takagi":
        return ["complex128", "float64"]
    if fn in ("williamson", "euler"):
        return ["float64"]
    return ["complex128", "float64"]  # clements


def _rng(seed, fn, n):
    return np.random.default_rng([int(seed), FUNCTIONS.index(fn), n])


def _unitary(rng, n, real=False):
    z = rng.normal(size=(n, n)) + (0 if real else 1j * rng.normal(size=(n, n)))
    q, r = np.linalg.qr(z)
    d = np.diag(r)
    return q * (d / np.abs(d))


def make_args(fn, n, dtype, seed):
    """Canonical (C-contiguous, own-data) arguments: list of (name, array) plus a tuple of
    trailing non-array arguments."""
    rng = _rng(seed, fn, n)
    real = np.dtype(dtype).kind == "f"

    def cast(a):
        return np.ascontiguousarray(a.real if real else a).astype(dtype)

    if fn in ("permanent", "permanent_laplace"):
        m = _unitary(rng, n, real)
        rows = np.ones(n, dtype=np.int64)
        cols = np.ones(n, dtype=np.int64)
        if n >= 3:
            rows[0], rows[1] = 2, 0
        return [("matrix", cast(m)), ("rows", rows), ("cols", cols)], ()
    if fn in ("hafnian", "loop_hafnian", "loop_hafnian_batch"):
        z = rng.normal(size=(n, n)) + 1j * rng.normal(size=(n, n))
        m = 0.3 * (z + z.T)
        occ = np.ones(n, dtype=np.int64)
        if fn == "hafnian" and n % 2:
            occ[0] = 2
        if fn == "hafnian":
            return [("matrix", cast(m)), ("occupation_numbers", occ)], ()
        diag = 0.2 * (rng.normal(size=n) + 1j * rng.normal(size=n))
        if fn == "loop_hafnian":
            return [("matrix", cast(m)), ("diagonal", cast(diag)), ("occupation_numbers", occ)], ()
        occ[-1] = 0
        return [("matrix", cast(m)), ("diagonal", cast(diag)), ("occupation_numbers", occ)], (4,)
    if fn == "pfaffian":
        z = rng.normal(size=(n, n))
        return [("matrix", cast((z - z.T).astype(complex)))], ()
    if fn in ("torontonian", "loop_torontonian"):
        z = rng.normal(size=(2 * n, 2 * n))
        m = 0.1 * (z + z.T) / (2 * n)
        args = [("matrix", cast(m.astype(complex)))]
        if fn == "loop_torontonian":
            args.append(("displacement_vector", cast(0.1 * rng.normal(size=2 * n).astype(complex))))
        return args, ()
    if fn == "takagi":
        z = rng.normal(size=(n, n)) + 1j * rng.normal(size=(n, n))
        return [("matrix", cast(z + z.T))], ()
    if fn == "williamson":
        z = rng.normal(size=(2 * n, 2 * n))
        return [("matrix", cast((z @ z.T + 2 * n * np.eye(2 * n)).astype(complex)))], ()
    if fn == "euler":
        # a symplectic matrix in the xxpp ordering: passive . squeezing . passive
        u1, u2 = _unitary(rng, n), _unitary(rng, n)
        r = 0.1 + 0.2 * rng.random(n)

        def passive(u):
            return np.block([[u.real, -u.imag], [u.imag, u.real]])

        sq = np.diag(np.concatenate([np.exp(-r), np.exp(r)]))
        return [("symplectic", cast((passive(u1) @ sq @ passive(u2)).astype(complex)))], ()
    if fn == "clements":
        return [("U", cast(_unitary(rng, n, real)))], ()
    raise KeyError(fn)


def layout(a, how):
    """(array to pass, owner whose bytes are watched)"""
    if how == "C":
        v = a.copy()
        return v, v
    if how in ("F", "readonly_F"):
        v = np.asfortranarray(a.copy())
        if how == "readonly_F":
            v.flags.writeable = False
        return v, v
    if how in ("strided", "readonly_strided"):
        shape = tuple(2 * s for s in a.shape)
        big = np.full(shape, 7, dtype=a.dtype)
        sl = tuple(slice(None, None, 2) for _ in a.shape)
        big[sl] = a
        if how == "readonly_strided":
            big.flags.writeable = False
        return big[sl], big
    if how == "offset":
        shape = tuple(s + 2 for s in a.shape)
        big = np.full(shape, 7, dtype=a.dtype)
        sl = tuple(slice(1, -1) for _ in a.shape)
        big[sl] = a
        return big[sl], big
    if how == "readonly":
        v = a.copy()
        v.flags.writeable = False
        return v, v
    raise KeyError(how)


def caller(fn):
    import piquasso as pq

    conn = pq.NumpyConnector()
    if fn in ("permanent", "permanent_laplace", "hafnian", "loop_hafnian", "loop_hafnian_batch", "pfaffian"):
        f = getattr(conn, fn)
        return lambda *a: f(*a)
    if fn in ("torontonian", "loop_torontonian"):
        import piquasso._math.torontonian as T

        return getattr(T, fn)
    if fn in ("takagi", "williamson", "euler"):
        import piquasso._math.decompositions as Dm

        f = getattr(Dm, fn)
        return lambda m: f(m, conn)
    if fn == "clements":
        from piquasso.decompositions.clements import clements

        return lambda m: clements(m, conn)
    raise KeyError(fn)


def cases(fn, tier):
    """Every (n, dtype, layout assignment): each array argument in turn takes every layout
    while the others are contiguous, plus all arguments in the same layout."""
    out = []
    for n in sizes(fn, tier):
        for dt in dtypes(fn, tier):
            names = [nm for nm, _ in make_args(fn, n, dt, 0)[0]]
            seen = set()
            for i, nm in enumerate(names):
                lays = LAYOUTS_2D if i == 0 or nm in ("matrix",) else LAYOUTS_1D
                for lay in lays:
                    assign = tuple(lay if j == i else "C" for j in range(len(names)))
                    if assign not in seen:
                        seen.add(assign)
                        out.append({"fn": fn, "n": n, "dtype": dt, "layouts": list(assign)})
            for lay in LAYOUTS_1D:
                assign = tuple(lay for _ in names)
                if assign not in seen:
                    seen.add(assign)
                    out.append({"fn": fn, "n": n, "dtype": dt, "layouts": list(assign)})
    return out


def run_case(case, seed):
    """-> (status, problems) ; status in ok / unsupported:<Exc> ; problems = list of
    (sub, argument, detail)."""
    fn = case["fn"]
    args, extra = make_args(fn, case["n"], case["dtype"], seed)
    passed, owners, names = [], [], []
    for (nm, a), lay in zip(args, case["layouts"]):
        v, owner = layout(a, lay)
        passed.append(v)
        owners.append(owner)
        names.append(nm)
    before = [(S.array_leaf(v), S.array_leaf(o)) for v, o in zip(passed, owners)]
    f = caller(fn)
    status = "ok"
    problems = []
    try:
        f(*passed, *extra)
    except Exception as e:  # noqa: BLE001 - classification below
        msg = "%s: %s" % (type(e).__name__, e)
        if WRITE_ERROR.search(msg) and "No matching definition" not in msg:
            ro = [nm for nm, lay in zip(names, case["layouts"]) if lay.startswith("readonly")]
            problems.append(("readonly_write_error", ro[0] if ro else names[0], msg[:300]))
            status = "write_error"
        else:
            status = "unsupported:" + type(e).__name__
    after = [(S.array_leaf(v), S.array_leaf(o)) for v, o in zip(passed, owners)]
    for nm, b, a, lay in zip(names, before, after, case["layouts"]):
        if b != a:
            what = "bytes" if (b[0][-2:] != a[0][-2:] or b[1][-2:] != a[1][-2:]) else "flags/shape"
            problems.append(("array_mutated", nm, "%s of argument '%s' (layout %s) changed" % (what, nm, lay)))
    return status, problems
