"""Deterministic kernels under every thread count / work partition (part iv of the C11 check;
private helper of mc/checks/c11.py).  No piquasso imports in this module: the kernels run either
in the standalone schedule driver (mc/native_sched.py) or in a child process
(mc/c11_child.py) whose environment fixes the thread counts.

Matrices are exact Gaussian rationals (p + q i)/16, so the float handed to the kernel IS the
number the exact reference (mc/refmodel/kernels.py) uses.
"""

import json
import math
import os
import random
import subprocess
import sys

from mc import build
from mc.core import HarnessError
from mc.refmodel import kernels as K

DEN = 16


def _rnd(vseed, *tag):
    return random.Random("c11|%d|%s" % (vseed, "|".join(str(t) for t in tag)))


def _entry(r):
    while True:
        p, q = r.randint(-24, 24), r.randint(-24, 24)
        if p or q:
            return (p, q)


def generic(vseed, k, l, tag):
    r = _rnd(vseed, "generic", k, l, tag)
    return ([[_entry(r) for _ in range(l)] for _ in range(k)], DEN)


def generic_symmetric(vseed, m, tag):
    r = _rnd(vseed, "sym", m, tag)
    a = [[None] * m for _ in range(m)]
    for i in range(m):
        for j in range(i, m):
            a[i][j] = a[j][i] = _entry(r)
    return (a, DEN)


def to_complex(mat):
    num, den = mat
    return [[complex(e[0] / den, e[1] / den) for e in row] for row in num]


def frac_to_complex(fr):
    return complex(float(fr[0]), float(fr[1]))


# ---------------------------------------------------------------------------------------
# the native permanent: catalogue of (matrix, rows, cols)

# rows of the catalogue with the size idx_max of the Gray-code range (after the kernel split one
# copy off the smallest non-zero row): 1, 2, 3, 3, 4, 6, 8, 9, 18, 24, 24, 32, 48, 60, 64, 75, 120, 128
PERM_ROWS = [
    (1,),
    (1, 1),
    (2, 1),
    (2, 0, 1),
    (1, 1, 1),
    (2, 2),
    (3, 1, 1),
    (2, 2, 1),
    (2, 2, 2),
    (3, 2, 2),
    (2, 1, 1, 1, 1),
    (3, 3, 2),
    (3, 3, 3),
    (4, 3, 3),
    (1, 1, 1, 1, 1, 1, 1),
    (4, 4, 3),
    (5, 4, 4),
    (1, 1, 1, 1, 1, 1, 1, 1),
]


def idx_max(rows):
    r = [int(x) for x in rows]
    nz = [i for i, x in enumerate(r) if x > 0]
    if not nz:
        return 0
    i = min(nz, key=lambda i: (r[i], i))
    r[i] -= 1
    return math.prod(x + 1 for x in r)


def _cols_for(total, ncols, variant):
    """A column multiplicity vector with the given total (deterministic, not uniform)."""
    cols = [total // ncols] * ncols
    for i in range(total - sum(cols)):
        cols[(i * 2 + variant) % ncols] += 1
    if variant % 2 and ncols > 1 and cols[0] > 0:
        cols[0] -= 1
        cols[-1] += 1
    return tuple(cols)


def perm_catalogue(vseed, tier):
    """[(name, kernel, mat, rows, cols)]  kernel in {"permanent", "permanent_laplace"}."""
    out = []
    for ri, rows in enumerate(PERM_ROWS):
        n = sum(rows)
        if tier == "quick" and idx_max(rows) in (24, 120) and len(rows) == 3:
            continue
        ncols = max(1, min(len(rows), 3))
        for variant in range(1 if tier == "quick" else 2):
            cols = _cols_for(n, ncols, variant)
            mat = generic(vseed, len(rows), ncols, "p%d.%d" % (ri, variant))
            out.append(("perm_r%s_c%s_v%d" % ("".join(map(str, rows)), "".join(map(str, cols)), variant), "permanent", mat, rows, cols))
            colsl = _cols_for(n + 1, ncols, variant)
            out.append(("lap_r%s_c%s_v%d" % ("".join(map(str, rows)), "".join(map(str, colsl)), variant), "permanent_laplace", mat, rows, colsl))
    if len({c[0] for c in out}) != len(out):
        raise HarnessError("catalogue names are not unique")
    return out


_FAMILY = {}


def idx_family(maxk=64, maxmult=28):
    """{k: rows} -- for every k <= maxk that can be written as a product of factors <= maxmult + 1 a row multiplicity
    vector (multiplicities <= maxmult, smallest total) whose Gray-code range has exactly k indices, so that the job count
    k = idx_max is reached (with 4*hw >= k every job is a single index).  Not reachable: k with a prime factor
    > maxmult + 1 (31, 37, 41, 43, 47, 53, 59, 61, 62): they need a row multiplicity >= 30, where the kernel's ``int``
    binomial arithmetic (binomial_coeff * prev_value) leaves the int range -- a C04 matter, kept out of this catalogue."""
    import itertools

    key = (maxk, maxmult)
    if key not in _FAMILY:
        best = {}
        for L in range(1, 6):
            for rows in itertools.combinations_with_replacement(range(maxmult, 0, -1), L):
                k = idx_max(rows)
                if 1 <= k <= maxk and (k not in best or (sum(rows), len(rows)) < (sum(best[k]), len(best[k]))):
                    best[k] = rows
        _FAMILY[key] = best
    return _FAMILY[key]


def family_catalogue(vseed):
    """[(name, kernel, mat, rows, cols)] for the idx_max family (the permanent and the Laplace variant)."""
    out = []
    for k, rows in sorted(idx_family().items()):
        n = sum(rows)
        ncols = max(1, min(len(rows), 2))
        mat = generic(vseed, len(rows), ncols, "f%d" % k)
        cols = _cols_for(n, ncols, 0)
        out.append(("fam%d_perm_r%s" % (k, "_".join(map(str, rows))), "permanent", mat, rows, cols))
        colsl = _cols_for(n + 1, ncols, 0)
        out.append(("fam%d_lap_r%s" % (k, "_".join(map(str, rows))), "permanent_laplace", mat, rows, colsl))
    return out


def family_schedules(rows, tier):
    """The family is about the job count k = idx_max (quick: only that one; thorough: also the smaller multiples of 4),
    with a few team sizes and orders."""
    im = idx_max(rows)
    jobs_hw = {im: (im + 3) // 4 if im > 1 else 1}
    if tier != "quick":
        for hw in range(1, 17):
            if 4 * hw < im:
                jobs_hw.setdefault(4 * hw, hw)
    out = []
    for jobs, hw in sorted(jobs_hw.items()):
        teams = sorted({1, 2, 3, max(1, jobs // 2), max(1, jobs - 1), jobs} & set(range(1, jobs + 1)))
        for team in teams:
            for order in team_orders(team, 4)[: (6 if tier != "quick" else 3)]:
                out.append((hw, team, order))
    return out


def perm_reference(kernel, mat, rows, cols):
    """(reference value(s) as complex, natural scale(s))"""
    cm = K.matrix_to_complex(mat) if hasattr(K, "matrix_to_complex") else to_complex(mat)
    if kernel == "permanent":
        ref = frac_to_complex(K.permanent_exact(mat, rows, cols))
        return [ref], [max(abs(ref), K.glynn_scale(cm, rows, cols))]
    refs = K.permanent_laplace_exact(mat, rows, cols)
    vals, scales = [], []
    for l, r in enumerate(refs):
        if r is None:
            vals.append(None)
            scales.append(None)
            continue
        cl = list(cols)
        cl[l] -= 1
        v = frac_to_complex(r)
        vals.append(v)
        scales.append(max(abs(v), K.glynn_scale(cm, rows, cl)))
    return vals, scales


def job_counts(rows, hws):
    """{job count: smallest hw producing it} for the given hardware_concurrency values."""
    im = idx_max(rows)
    out = {}
    for hw in hws:
        j = min(4 * hw, im)
        out.setdefault(j, hw)
    return out


def team_orders(team, max_orders):
    """Every permutation of the thread ids for teams of <= 4 threads; for larger teams ascending, descending,
    evens-then-odds and rotations (``max_orders`` in total)."""
    import itertools

    if team <= 4:
        return [list(p) for p in itertools.permutations(range(team))]
    orders = [list(range(team)), list(range(team))[::-1], list(range(0, team, 2)) + list(range(1, team, 2))]
    step = max(1, team // max(1, max_orders - 3))
    k = 1
    while len(orders) < max_orders and k < team:
        orders.append(list(range(k, team)) + list(range(k)))
        k += step
    return orders


def schedules(rows, tier):
    """[(hw, team, order)] : every job count reachable with hw = 1..16 (4*hw up to 64) -- plus hw = 17, 32 so that
    idx_max itself is reached for the larger cases --, every team size (quick: a subset), thread orders."""
    hws = list(range(1, 17)) + [17, 32, 64]
    out = []
    for jobs, hw in sorted(job_counts(rows, hws).items()):
        if jobs <= 0:
            continue
        if tier == "quick":
            teams = sorted({1, 2, 3, 4, max(1, jobs // 2), max(1, jobs - 1), jobs} & set(range(1, jobs + 1)))
            mo = 4
        else:
            teams = list(range(1, jobs + 1))
            mo = 8
        for team in teams:
            for order in team_orders(team, mo):
                out.append((hw, team, order))
    return out


# ---------------------------------------------------------------------------------------
# hafnians (numba prange)


HAF_OCCS = [
    (1, 1, 1, 1),
    (2, 2, 2, 2),
    (3, 1, 2, 2),
    (4, 4, 2, 2),
    (3, 3, 3, 3),
    (2, 2, 2, 2, 2),
    (4, 4, 4, 4),
    (1, 1, 1, 1, 1, 1, 1, 1),
]

LHAF_OCCS = [
    (1, 1, 1),
    (2, 2, 2, 1),
    (3, 2, 2, 2),
    (4, 3, 2, 2),
    (3, 3, 3, 3),
    (2, 2, 2, 2, 1),
    (4, 4, 3, 3),
]


def haf_catalogue(vseed, tier):
    out = []
    occs = HAF_OCCS[:5] if tier == "quick" else HAF_OCCS
    for i, occ in enumerate(occs):
        m = len(occ)
        A = generic_symmetric(vseed, m, "h%d" % i)
        out.append({"name": "haf_%s" % "".join(map(str, occ)), "kind": "hafnian", "A": A, "occ": list(occ)})
        out.append({"name": "hafbatch_%s" % "".join(map(str, occ)), "kind": "hafnian_batch", "A": A, "occ": list(occ), "cutoff": 5})
    loccs = LHAF_OCCS[:4] if tier == "quick" else LHAF_OCCS
    for i, occ in enumerate(loccs):
        m = len(occ)
        A = generic_symmetric(vseed, m, "l%d" % i)
        r = _rnd(vseed, "diag", i)
        diag = ([_entry(r) for _ in range(m)], DEN)
        out.append({"name": "lhaf_%s" % "".join(map(str, occ)), "kind": "loop_hafnian", "A": A, "diag": diag, "occ": list(occ)})
        out.append({"name": "lhafbatch_%s" % "".join(map(str, occ)), "kind": "loop_hafnian_batch", "A": A, "diag": diag, "occ": list(occ), "cutoff": 5})
    return out


def haf_reference(case):
    """(exact value or None for the batch variants, natural scale)"""
    A = case["A"]
    occ = case["occ"]
    absA = [[abs(complex(e[0], e[1])) / A[1] for e in row] for row in A[0]]
    if case["kind"] == "hafnian":
        return frac_to_complex(K.hafnian_exact(A, occ)), K.matchings_abs_float(absA, None, occ)
    if case["kind"] == "loop_hafnian":
        d = case["diag"]
        absD = [abs(complex(e[0], e[1])) / d[1] for e in d[0]]
        return frac_to_complex(K.loop_hafnian_exact(A, d, occ)), K.matchings_abs_float(absA, absD, occ)
    return None, None


# ---------------------------------------------------------------------------------------
# child processes with an explicit environment


def child_env(**over):
    """The fixed environment of mc/run.py minus every thread setting, plus ``over``."""
    env = dict(os.environ)
    for k in ("OMP_NUM_THREADS", "OMP_THREAD_LIMIT", "NUMBA_NUM_THREADS", "OMP_DYNAMIC", "OMP_WAIT_POLICY", "GOMP_SPINCOUNT", "NUMBA_THREADING_LAYER"):
        env.pop(k, None)
    env["OMP_WAIT_POLICY"] = "passive"  # 64 spinning threads on a shared machine help nobody
    env["GOMP_SPINCOUNT"] = "0"
    for k, v in over.items():
        if v is None:
            env.pop(k, None)
        else:
            env[k] = str(v)
    return env


def run_child(mode, payload, builddir, env, timeout=1800):
    import tempfile

    work = os.path.join(builddir, "vec")
    os.makedirs(work, exist_ok=True)
    fd, path = tempfile.mkstemp(prefix="c11_", suffix=".json", dir=work)
    outpath = path + ".out"
    try:
        with os.fdopen(fd, "w") as fh:
            json.dump(payload, fh)
        cmd = [sys.executable, os.path.join(build.VERIF, "mc", "c11_child.py"), mode, path, outpath, builddir]
        try:
            p = subprocess.run(cmd, capture_output=True, text=True, env=env, timeout=timeout)
        except subprocess.TimeoutExpired:
            raise HarnessError("HARNESS-CHILD-TIMEOUT c11_child %s" % mode)
        if p.returncode != 0 or not os.path.exists(outpath):
            raise HarnessError("HARNESS-CHILD c11_child %s exited with %s:\n%s\n%s" % (mode, p.returncode, p.stdout[-1500:], p.stderr[-2500:]))
        with open(outpath) as fh:
            return json.load(fh)
    finally:
        for f in (path, outpath):
            try:
                os.unlink(f)
            except OSError:
                pass


def hex_to_complex(h):
    return complex(float.fromhex(h[0]), float.fromhex(h[1]))


def run_tsan_schedules(cases, builddir, timeout=3000):
    """native_sched.run_schedules(mode="tsan") with ``exitcode=0`` in TSAN_OPTIONS: ThreadSanitizer otherwise lets the
    driver exit with 66 AFTER the last vector, which the driver protocol reads as a crash outside a vector.  Same result dicts."""
    from mc import c04_native as N
    from mc import native_sched as NS

    exe = NS.driver("tsan", builddir)
    vecs = [
        N.sched_vector(
            "permanent_laplace" if c.get("laplace") else "permanent", c.get("dtype", "float64"), c["hw"], c.get("team") or 0,
            c.get("thread_order", "asc"), c["matrix"], list(c["rows"]), list(c["cols"]),
        )
        for c in cases
    ]
    env = {"TSAN_OPTIONS": "halt_on_error=0:report_signal_unsafe=0:symbolize=0:exitcode=0"}
    runs = N.run_vectors(exe, vecs, timeout=timeout, extra_env=env)
    out = []
    for c, r in zip(cases, runs):
        d = {"value": None, "jobs": None, "team": None, "regions": None, "sanitizer": None, "error": r.error}
        if r.values is not None:
            d["jobs"], d["team"], d["regions"] = int(r.values[0]), int(r.values[1]), int(r.values[2])
            vals = r.values[3:]
            zs = [complex(vals[2 * i], vals[2 * i + 1]) for i in range(len(vals) // 2)]
            d["value"] = zs if c.get("laplace") else (zs[0] if zs else None)
        if r.report is not None or (r.crashed is not None and r.values is None):
            rep = dict(r.report or {"tool": "crash", "kind": "exit-%s" % r.crashed, "where": "unknown"})
            rep["text"] = r.report_text
            if rep.get("where") in (None, "unsymbolized", "unknown"):
                rep["where"] = tsan_where(r.report_text, exe)
            d["sanitizer"] = rep
        out.append(d)
    return out


def tsan_where(text, exe):
    """'<file>:<line>' of the innermost frame of the FIRST stack of an unsymbolized ThreadSanitizer report that lies in
    the repository's src/ (frames look like '#0 <null> <null> (sched_driver_tsan-xxxx+0xecaa)'); resolved with addr2line."""
    import re

    base = os.path.basename(exe)
    offsets = []
    started = False
    for line in (text or "").splitlines():
        m = re.match(r"^\s*#(\d+) .*\((\S+?)\+0x([0-9a-f]+)\)", line)
        if m:
            started = True
            if m.group(2) == base:
                offsets.append(m.group(3))
        elif started:
            break  # end of the first stack
    if not offsets:
        return "unsymbolized"
    try:
        p = subprocess.run(["addr2line", "-e", exe, "-i"] + ["0x" + o for o in offsets], capture_output=True, text=True, timeout=120)
    except Exception:
        return "unsymbolized"
    srcdir = os.path.join(build.REPO, "src") + os.sep
    for line in p.stdout.splitlines():
        line = line.strip().split(" (discriminator")[0]
        f, _, l = line.rpartition(":")
        if f.startswith(srcdir) or ("/src/" in f and "/drivers/" not in f and "libsanitizer" not in f and not f.startswith("/usr")):
            return "%s:%s" % (os.path.basename(f), l)
    return "unsymbolized"
