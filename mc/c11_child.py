"""Child process of the C11 check (part iv): runs kernels / a seeded sampling run of the REAL
library under the thread settings of its environment and writes the values as hex floats.

    c11_child.py numba <payload.json> <out.json> <builddir>   hafnians for numba.set_num_threads(1..N)
    c11_child.py omp   <payload.json> <out.json> <builddir>   pybind permanent under OMP_* of the environment

Not imported by anything; started by mc/c11_kernels.py:run_child with an explicit environment.
"""

import json
import os
import sys

VERIF = os.path.dirname(os.path.dirname(os.path.abspath(__file__)))
sys.path.insert(0, VERIF)


def _hex(z):
    z = complex(z)
    return [z.real.hex(), z.imag.hex()]


def _mat(mat):
    import numpy as np

    num, den = mat
    return np.array([[complex(e[0] / den, e[1] / den) for e in row] for row in num], dtype=np.complex128)


def _vec(vec):
    import numpy as np

    num, den = vec
    return np.array([complex(e[0] / den, e[1] / den) for e in num], dtype=np.complex128)


def _sampling_obs(program_name, seed, shots, vseed):
    import piquasso as pq
    from mc import c11_engine as E, c11_programs as P

    spec = P.make(program_name, vseed)
    del pq
    return E.run_history(spec, seed, shots)


def main_numba(payload):
    import numba
    import numpy as np
    from piquasso._math import hafnian as H

    out = {"max_threads": numba.config.NUMBA_NUM_THREADS, "values": {}, "samples": {}}
    threads = [n for n in payload["threads"] if n <= numba.config.NUMBA_NUM_THREADS]
    out["threads"] = threads
    for case in payload["cases"]:
        A = _mat(case["A"])
        occ = np.array(case["occ"], dtype=np.int64)
        res = {}
        diag = _vec(case["diag"]) if "diag" in case else None
        for n in threads:
            numba.set_num_threads(n)
            if numba.get_num_threads() != n:
                raise SystemExit("set_num_threads(%d) not effective" % n)
            distinct = []
            # the reduction is free-running: repeat the call, every DISTINCT result vector is reported
            for _ in range(payload.get("reps", 1) if n > 1 else 1):
                if case["kind"] == "hafnian":
                    v = [H.hafnian_with_reduction(A, occ)]
                elif case["kind"] == "hafnian_batch":
                    v = list(H.hafnian_with_reduction_batch(A, occ, case["cutoff"]))
                elif case["kind"] == "loop_hafnian":
                    v = [H.loop_hafnian_with_reduction(A, diag, occ)]
                else:
                    v = list(H.loop_hafnian_with_reduction_batch(A, diag, occ, case["cutoff"]))
                hv = [_hex(x) for x in v]
                if hv not in distinct:
                    distinct.append(hv)
            res[str(n)] = distinct
        out["values"][case["name"]] = res
    for s in payload.get("sampling", []):
        res = {}
        for n in s["threads"]:
            if n > numba.config.NUMBA_NUM_THREADS:
                continue
            numba.set_num_threads(n)
            res[str(n)] = _sampling_obs(s["program"], s["seed"], s["shots"], payload["vseed"])
        out["samples"]["%s|%d|%d" % (s["program"], s["seed"], s["shots"])] = res
    try:
        out["threading_layer"] = numba.threading_layer()
    except Exception as e:  # no parallel function ran
        out["threading_layer"] = "unknown (%s)" % (e,)
    return out


def main_omp(payload):
    import numpy as np
    from piquasso._math import permanent as PM

    out = {"values": {}, "samples": {}, "env": {k: os.environ.get(k) for k in ("OMP_NUM_THREADS", "OMP_THREAD_LIMIT")}}
    for case in payload["cases"]:
        A = _mat(case["mat"])
        rows = np.array(case["rows"], dtype=np.int32)
        cols = np.array(case["cols"], dtype=np.int32)
        if case["kernel"] == "permanent":
            v = [PM.permanent(A, rows, cols)]
        else:
            v = list(PM.permanent_laplace(A, rows, cols))
        out["values"][case["name"]] = [_hex(x) for x in v]
    for s in payload.get("sampling", []):
        out["samples"]["%s|%d|%d" % (s["program"], s["seed"], s["shots"])] = _sampling_obs(s["program"], s["seed"], s["shots"], payload["vseed"])
    return out


def main():
    mode, inpath, outpath, builddir = sys.argv[1:5]
    from mc import build

    build.install_native(builddir)
    with open(inpath) as fh:
        payload = json.load(fh)
    out = main_numba(payload) if mode == "numba" else main_omp(payload)
    tmp = outpath + ".tmp"
    with open(tmp, "w") as fh:
        json.dump(out, fh)
    os.replace(tmp, outpath)


if __name__ == "__main__":
    main()
