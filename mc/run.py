#!/venv/bin/python
"""Entry point of every check:

    /venv/bin/python /verif/mc/run.py C06 --tier quick
    /venv/bin/python /verif/mc/run.py replay /verif/replays/C06/<sha>.json
    /venv/bin/python /verif/mc/run.py setup

Re-executes itself once with a fixed environment (hash seed, thread counts, quiet
TF/JAX), rebuilds the native kernels from /repo's working tree, runs the check module
mc/checks/<id>.py:run(ctx, builddir) and lets ctx.finish() write the evidence.

exit 0: property held on everything explored (KNOWN-FINDING lines allowed)
exit 1: at least one `VIOLATION property=<id> replay=<path>` line
exit 2: broken build / harness error (HARNESS-... line) -- never a violation
"""

import argparse
import importlib
import json
import os
import sys
import traceback

VERIF = os.path.dirname(os.path.dirname(os.path.abspath(__file__)))

FIXED_ENV = {
    "PYTHONHASHSEED": "0",
    "TF_CPP_MIN_LOG_LEVEL": "3",
    "JAX_PLATFORMS": "cpu",
    "OMP_NUM_THREADS": "1",
    # the native permanent requests num_threads(4*hardware_concurrency) on every call, which
    # ignores OMP_NUM_THREADS; the thread limit keeps the same job arithmetic on one thread
    # (checks that vary threads/partitions override this in their own subprocesses)
    "OMP_THREAD_LIMIT": "1",
    "NUMBA_NUM_THREADS": "1",
    "OPENBLAS_NUM_THREADS": "1",
    "MKL_NUM_THREADS": "1",
    "TF_NUM_INTRAOP_THREADS": "1",
    "TF_NUM_INTEROP_THREADS": "1",
    "XLA_FLAGS": "--xla_force_host_platform_device_count=1",
    "PYTHONDONTWRITEBYTECODE": "1",
    "NUMBA_CACHE_DIR": os.path.join(VERIF, "build", "numba_cache"),
    "CUDA_VISIBLE_DEVICES": "",
    "PYTHONWARNINGS": "ignore",
}


def _numba_source_hash():
    """numba invalidates its on-disk cache per FILE: a change in one file is invisible to cached
    callers in another file that inlined the old callee (seen with a seeded change of
    piquasso/_math/combinatorics.py:arr_comb, used by indices.py).  The cache directory is therefore
    keyed by the contents of every piquasso source file that uses numba."""
    import hashlib

    repo = os.environ.get("VERIF_REPO", "/repo")
    h = hashlib.sha1()
    root = os.path.join(repo, "piquasso")
    for dirpath, dirnames, filenames in os.walk(root):
        dirnames[:] = sorted(d for d in dirnames if d != "__pycache__")
        for fn in sorted(filenames):
            if fn.endswith(".py"):
                path = os.path.join(dirpath, fn)
                try:
                    with open(path, "rb") as fh:
                        data = fh.read()
                except OSError:
                    continue
                if b"numba" in data or b"nb.njit" in data:
                    h.update(os.path.relpath(path, repo).encode())
                    h.update(data)
    return h.hexdigest()[:12]


def _prune_numba_caches(root, keep):
    try:
        ds = sorted((d for d in os.listdir(root) if os.path.isdir(os.path.join(root, d))), key=lambda d: os.path.getmtime(os.path.join(root, d)))
        import shutil
        import time

        for d in ds[:-keep]:
            if time.time() - os.path.getmtime(os.path.join(root, d)) > 3 * 3600:
                shutil.rmtree(os.path.join(root, d), ignore_errors=True)
    except OSError:
        pass


def _reexec():
    if os.environ.get("VERIF_REEXEC") == "1":
        return
    env = dict(os.environ)
    env.update(FIXED_ENV)
    cache_root = os.path.join(VERIF, "build", "numba_cache")
    env["NUMBA_CACHE_DIR"] = os.path.join(cache_root, _numba_source_hash())
    os.makedirs(env["NUMBA_CACHE_DIR"], exist_ok=True)
    os.utime(env["NUMBA_CACHE_DIR"], None)
    _prune_numba_caches(cache_root, keep=8)
    env["VERIF_REEXEC"] = "1"
    os.execve(sys.executable, [sys.executable, os.path.abspath(__file__)] + sys.argv[1:], env)


def main():
    _reexec()
    sys.path.insert(0, VERIF)
    from mc import build, core

    ap = argparse.ArgumentParser()
    ap.add_argument("what")
    ap.add_argument("path", nargs="?")
    ap.add_argument("--tier", default=os.environ.get("VERIF_TIER", "quick"), choices=["quick", "thorough"])
    ap.add_argument("--seed", type=int, default=int(os.environ.get("VERIF_SEED", "0") or 0))
    ap.add_argument("--only", default=None, help="restrict to a named sub-exploration (development aid)")
    args = ap.parse_args()

    os.chdir(VERIF)
    core.serialise_numba_cache()
    try:
        builddir = build.ensure_built(verbose=(args.what == "setup"))
    except build.BuildError as e:
        print("HARNESS-BUILD-FAILED: %s" % e)
        return core.EXIT_HARNESS

    if args.what == "setup":
        for d in ("evidence", "replays"):
            os.makedirs(os.path.join(VERIF, d), exist_ok=True)
        build.install_native(builddir)
        from mc import warmup

        try:
            warmup.main()
        except Exception as e:  # best effort only
            print("warm-up skipped: %r" % (e,))
        print("setup ok: native modules in %s" % builddir)
        return 0

    if args.what == "replay":
        with open(args.path) as fh:
            payload = json.load(fh)
        prop = payload["property"]
        mod = importlib.import_module("mc.checks.%s" % prop.lower())
        build.install_native(builddir)
        ctx = core.Check(prop, payload.get("tier", "quick"), payload.get("seed", 0), getattr(mod, "LEVEL", "model_checking"))
        mod.replay(ctx, payload["case"], payload["signature"])
        if ctx.violations:
            for v in ctx.violations:
                print("REPLAY-REPRODUCED property=%s signature=%s\n  %s" % (prop, json.dumps(core.jsonable(v.signature), sort_keys=True), v.message))
            return core.EXIT_VIOLATION
        print("REPLAY-PASSED property=%s (the recorded case no longer violates)" % prop)
        return 0

    prop = args.what.upper()
    mod = importlib.import_module("mc.checks.%s" % prop.lower())
    ctx = core.Check(prop, args.tier, args.seed, getattr(mod, "LEVEL", "model_checking"))
    ctx.only = args.only
    try:
        coverage = mod.run(ctx, builddir)
        return ctx.finish(coverage)
    except core.HarnessError as e:
        print("HARNESS-ERROR property=%s: %s" % (prop, e))
        return core.EXIT_HARNESS
    except Exception:
        print("HARNESS-ERROR property=%s: unexpected exception in the check\n%s" % (prop, traceback.format_exc()))
        return core.EXIT_HARNESS


if __name__ == "__main__":
    sys.exit(main())
