"""C13 helper: family "adaptive_param" -- documented parameter violations that only come into
existence when an OUTCOME-DEPENDENT parameter (a callable of the earlier measurement outcomes,
or an expression string) is resolved on a branch.

piquasso/api/simulator.py validates constant parameters up front (_validate_instruction_parameters)
and outcome-dependent ones per branch, right after Instruction._resolve_params
(_apply_instruction_to_branches).  The constant-parameter mutations of c13_reject never reach the
second path.  Here, for every entry of the documented-error table (c13_documented_errors.TABLE)
whose instruction class overrides Instruction._validate (the error is raised by the validation
rule, not inside a simulation step), the programs

    pnm      [n-photon preparation, Interferometer(all), ParticleNumberMeasurement(mode m), I(p = f)]
             on the simulators that allow that measurement mid-circuit; f(x) = invalid value if
             x[-1] == k else valid value, for every k in 0..n and k = "always"; shots None / 1 / 2
    homodyne [Vacuum, Interferometer(all), HomodyneMeasurement(mode m), I(p = f)], f = always invalid,
             shots 1 / 2 (GaussianSimulator: its mid-circuit measurements have continuous outcomes)
    nomeas   [preparation, Interferometer(all), I(p = f)] resp. [I(p = f), Interferometer(all)] for
             a preparation I; f = always invalid (resolved with the empty outcome tuple), shots 1

are generated together with their CONTROL (f returns the valid value on every branch).  Every kw of
the instruction whose valid and invalid values differ is made outcome-dependent and they switch
together.  Scalar parameters are also written as expression strings
"good + (bad - good) * (x[-1] == k)".

The callables log what they returned (c13_programs.ADAPTIVE_LOG), so the expectation of a case is
decided by what happened on the real run: an invalid value was handed to the library on some branch
-> a PiquassoException and no Result; never (outcome k not reached with these shots) -> executes.
"""

import inspect

from mc import c13_documented_errors as DE
from mc import c13_programs as P

PNM = "ParticleNumberMeasurement"


def _has_validate_rule(cls):
    from piquasso.api.instruction import Instruction

    return cls._validate is not Instruction._validate


def entries(simname):
    """Table entries that apply: execution-time, class in the simulator's _instruction_map and the
    class overrides Instruction._validate."""
    sim = P.sim_class(simname)
    have = {c.__name__ for c in sim._instruction_map}
    out, skipped = [], []
    for e in DE.TABLE:
        if e["when"] != "execution" or e["cls"] not in have:
            continue
        (out if _has_validate_rule(P.universe()[e["cls"]]) else skipped).append(e)
    return out, skipped


def _defaults(name):
    sig = inspect.signature(P.universe()[name].__init__)
    return {k: p.default for k, p in sig.parameters.items() if p.default is not inspect.Parameter.empty}


def _is_scalar(v):
    return isinstance(v, (int, float)) and not isinstance(v, bool)


def _switching_kw(name, bad_kw, good_kw, selector, form):
    """kw dict of the instruction: constant where valid and invalid agree, outcome-dependent
    elsewhere.  None if the form cannot express it (expression strings: scalars only)."""
    dflt = _defaults(name)
    keys = list(dict.fromkeys(list(bad_kw) + list(good_kw)))
    kw, n = {}, 0
    for k in keys:
        if k not in bad_kw:
            kw[k] = good_kw[k]
            continue
        if k in good_kw:
            g = good_kw[k]
        elif k in dflt and (dflt[k] is None or _is_scalar(dflt[k])):
            g = dflt[k]
        else:
            return None
        b = bad_kw[k]
        if b == g:
            kw[k] = g
            continue
        if form == "expr":
            if not (_is_scalar(b) and _is_scalar(g)):
                return None
            kw[k] = {"$": "adaptive_expr", "when": selector, "bad": b, "good": g}
        else:
            kw[k] = {"$": "adaptive", "when": selector, "bad": b, "good": g}
        n += 1
    return kw if n else None


def _prep(simname, d, n):
    occ = [0] * d
    fermi = simname.startswith("fermionic")
    for i in range(n):
        if fermi:
            occ[i] = 1
        else:
            occ[i % d] += 1
    if simname == "GaussianSimulator":
        return {"cls": "Vacuum", "modes": None, "kw": {}}
    if simname == "FockSimulator":
        return {"cls": "DensityMatrix", "modes": None, "kw": {"ket": occ, "bra": occ}}
    return {"cls": "NumberState", "modes": None, "kw": {"occupation_numbers": occ}}


def _mix(d):
    return {"cls": "Interferometer", "modes": None, "kw": {"matrix": {"$": "unitary", "k": d}}}


def frames(simname, d, cutoff, tier):
    """(variant, prefix specs, remaining modes, photons n, measured mode, selectors, shots list)"""
    sim = P.sim_class(simname)
    mid = {c.__name__ for c in sim._measurement_classes_allowed_mid_circuit}
    fermi = simname.startswith("fermionic")
    out = []
    n0 = 0 if simname == "GaussianSimulator" else 1
    out.append(("nomeas", [_prep(simname, d, n0), _mix(d)], list(range(d)), n0, None, ["always"], [1]))
    measured = [0] if d == 1 else [0, d - 1]
    if d >= 2 and PNM in mid:
        photons = range(1, cutoff) if tier == "thorough" else range(1, min(cutoff, 3))
        for n in photons:
            if fermi and n > d:
                continue
            for m in measured:
                rest = [x for x in range(d) if x != m]
                ks = list(range(0, (1 if fermi else n) + 1)) + ["always"]
                out.append(("pnm", [_prep(simname, d, n), _mix(d), {"cls": PNM, "modes": [m], "kw": {}}], rest, n, m, ks, [None, 1, 2]))
    if d >= 2 and "HomodyneMeasurement" in mid:
        for m in measured:
            rest = [x for x in range(d) if x != m]
            hom = {"cls": "HomodyneMeasurement", "modes": [m], "kw": P.valid_kw("HomodyneMeasurement", 1, d, cutoff, 0, simname)}
            out.append(("homodyne", [_prep(simname, d, 0), _mix(d), hom], rest, 0, m, ["always"], [1, 2]))
    return out


def cases(simname, d, cutoff, seed, tier):
    """Yields groups (key, control_cases, reject_cases): the controls of one (entry, frame, form)
    -- one per shots value -- and the cases whose callable may return the invalid value."""
    sim = P.sim_class(simname)
    none_ok = sim._measurement_classes_allowed_with_shots_none
    ents, _ = entries(simname)
    for variant, prefix, rest, n, m, selectors, shots_list in frames(simname, d, cutoff, tier):
        for e in ents:
            cls = P.universe()[e["cls"]]
            kind = P.kind_of(cls)
            if kind == "prep":
                if variant != "nomeas":
                    continue
                bad = e["make"](d, cutoff)
            else:
                bad = e["make"](len(rest), cutoff)
            if bad is None:
                continue
            if kind == "prep":
                modes = bad["modes"]
            elif bad["modes"] is None:
                modes = None if kind == "meas" else list(rest)
            else:
                modes = [rest[i] for i in bad["modes"]]
            k = (d if kind == "prep" else len(rest)) if modes is None else len(modes)
            good_kw = P.valid_kw(e["cls"], k, d, cutoff, seed, simname, 1 if (kind == "prep" and e["cls"] != "Thermal") else 0)
            for form in ("callable", "expr"):
                def prog(selector):
                    kw = _switching_kw(e["cls"], bad["kw"], good_kw, selector, form)
                    if kw is None:
                        return None
                    ins = {"cls": e["cls"], "modes": modes, "kw": kw}
                    return [ins, _mix(d)] if kind == "prep" else prefix + [ins]

                if prog("never") is None:
                    continue
                shots_ok = [s for s in shots_list if not (s is None and kind == "meas" and not issubclass(cls, none_ok))]
                base = {"kind": "adaptive_param", "sim": simname, "d": d, "cutoff": cutoff, "init": None, "route": "on_modes",
                        "rule": DE.rule_name(e), "entry": e["id"], "variant": variant, "form": form, "photons": n, "measured": m}
                controls = [dict(base, program=prog("never"), shots=s, selector="never", expect="accept") for s in shots_ok]
                rejects = []
                for sel in selectors:
                    for s in shots_ok:
                        if form == "expr" and not (s is None or sel == "always"):
                            continue  # an expression string cannot log: only where the expectation is known
                        rejects.append(dict(base, program=prog(sel), shots=s, selector=sel,
                                            expect="by_log" if form == "callable" else "by_callable_twin"))
                yield (e["id"], variant, n, m, form), controls, rejects
