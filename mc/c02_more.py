"""C02, non-passive families: Fock-space categorical samplers (pure, mixed, imperfect
detectors), fermionic samplers, Gaussian threshold / general-dyne / photon-number samplers,
Fock homodyne.  Case generation + per-case check; the shared judgement lives in
mc/checks/c02.py."""

import itertools
import json
import math


def _c02():
    from mc.checks import c02

    return c02


# =======================================================================================
# catalogue


def _gauss_states(seed):
    """Named Gaussian states as gate lists (documented gate conventions); the numbers are
    'generic' functions of the seed."""
    e = 0.013 * seed
    return {
        "sq_disp_1": dict(d=1, gates=[["S", 0, 0.45 + e, 0.6], ["D", 0, 0.5, 0.3 + e]]),
        "sq_1": dict(d=1, gates=[["S", 0, 0.4 + e, 1.1]]),
        "thermal_sq_disp_1": dict(d=1, gates=[["T", [0.35 + e]], ["S", 0, 0.3, 0.4], ["D", 0, 0.4, -0.7]]),
        "pure_2": dict(d=2, gates=[["S", 0, 0.5 + e, 0.3], ["S", 1, 0.25, -0.9], ["D", 0, 0.4, 0.5], ["D", 1, 0.3, -1.2 + e], ["BS", 0, 1, 0.7, 0.4]]),
        "pure_2_nodisp": dict(d=2, gates=[["S", 0, 0.5 + e, 0.3], ["S", 1, 0.3, -0.9], ["BS", 0, 1, 0.6, 0.4]]),
        "mixed_2": dict(d=2, gates=[["T", [0.3, 0.1 + e]], ["S", 0, 0.4, 0.2], ["BS", 0, 1, 0.8, -0.3], ["D", 1, 0.35, 0.9]]),
        "pure_3": dict(d=3, gates=[["S", 0, 0.5 + e, 0.3], ["S", 1, 0.3, -0.9], ["S", 2, 0.2, 2.0], ["D", 0, 0.4, 0.5], ["D", 2, 0.3, -1.0],
                                   ["BS", 0, 1, 0.7, 0.4], ["BS", 1, 2, 0.5, -0.6], ["R", 0, 0.8]]),
        "pure_3_nodisp": dict(d=3, gates=[["S", 0, 0.5 + e, 0.3], ["S", 1, 0.3, -0.9], ["S", 2, 0.2, 2.0],
                                          ["BS", 0, 1, 0.7, 0.4], ["BS", 1, 2, 0.5, -0.6], ["R", 0, 0.8]]),
        # small squeezing: photon-number tails below 1e-6 at measurement_cutoff 6..8
        "small_1": dict(d=1, gates=[["S", 0, 0.16 + 0.2 * e, 0.6], ["D", 0, 0.3, 0.3]]),
        "small_thermal_1": dict(d=1, gates=[["T", [0.06 + 0.2 * e]], ["S", 0, 0.12, 0.4], ["D", 0, 0.25, -0.7]]),
        "small_2": dict(d=2, gates=[["S", 0, 0.16 + 0.2 * e, 0.3], ["S", 1, 0.1, -0.9], ["D", 0, 0.25, 0.5], ["D", 1, 0.2, -1.2], ["BS", 0, 1, 0.7, 0.4]]),
    }


def cases(tier, seed, sub):
    c02 = _c02()
    quick = tier == "quick"
    out = []

    def add(family, **kw):
        c = dict(family=family, sub=sub, shots=1)
        c.update(kw)
        out.append(c)

    if sub == "fock_pnm":
        P3 = [[1.0, 0.1, 0.2], [0.0, 0.9, 0.2], [0.0, 0.0, 0.6]]
        P4 = [[1.0, 0.15, 0.05, 0.1], [0.0, 0.85, 0.25, 0.2], [0.0, 0.0, 0.7, 0.3], [0.0, 0.0, 0.0, 0.4]]
        specs = [
            dict(d=2, terms=[[0.6, 0.0, [1, 1]], [0.0, 0.8, [2, 0]]]),
            dict(d=3, terms=[[0.5, 0.0, [1, 1, 0]], [0.3, 0.4, [0, 2, 0]], [-0.2, 0.67, [1, 0, 1]]]),
            dict(d=3, terms=[[0.8, 0.0, [2, 1, 0]], [0.0, -0.6, [1, 1, 1]]]),
        ]
        if not quick:
            specs.append(dict(d=3, terms=[[0.7, 0.1, [1, 1, 0]], [0.3, -0.4, [0, 0, 1]], [0.5, 0.0, [0, 0, 0]]]))
        for si, sp in enumerate(specs):
            d = sp["d"]
            U = c02._generic_unitary(d, seed, 80 + si)
            subsets = c02._ordered_subsets(d)
            for modes in subsets:
                for sim in ("pure", "mixed"):
                    add("fock", sim=sim, d=d, terms=sp["terms"], U=c02._c2j(U), measured=list(modes), detector=None)
                if quick and (len(modes) == 3 and modes != (2, 0, 1) or len(modes) == 2 and list(modes) != sorted(modes) and si == 1):
                    continue
                n = max(sum(t[2]) for t in sp["terms"])
                P = P3 if n <= 2 else P4
                for sim in ("pure", "mixed", "passive") if len(sp["terms"]) == 2 or not quick else ("pure",):
                    if sim == "passive" and any(sum(t[2]) != sum(sp["terms"][0][2]) for t in sp["terms"]):
                        continue
                    add("fock", sim=sim, d=d, terms=sp["terms"], U=c02._c2j(U), measured=list(modes), detector=P)
        U = c02._generic_unitary(2, seed, 90)
        for sim in ("pure", "mixed"):
            add("fock", sim=sim, d=2, terms=specs[0]["terms"], U=c02._c2j(U), measured=[1, 0], detector=None, shots=2)
            add("fock", sim=sim, d=2, terms=specs[0]["terms"], U=c02._c2j(U), measured=[1, 0], detector=P3, shots=2)
            add("fock", sim=sim, d=2, terms=specs[0]["terms"], U=c02._c2j(U), measured=[0], detector=P3, shots=3)

    elif sub == "fermionic_pnm":
        inputs = {2: [[1, 0], [1, 1]], 3: [[1, 1, 0], [0, 1, 0], [1, 0, 1]]}
        if not quick:
            inputs[4] = [[1, 1, 0, 0], [0, 1, 0, 1], [1, 1, 1, 0]]
        for d, inps in sorted(inputs.items()):
            for ii, inp in enumerate(inps):
                U = c02._generic_unitary(d, seed, 100 + ii)
                subsets = c02._ordered_subsets(d)
                if d == 4:
                    subsets = [s for s in subsets if len(s) <= 2 or list(s) == sorted(s) or s[0] == max(s)]
                for modes in subsets:
                    for sim in ("fock", "gaussian"):
                        add("fermionic", sim=sim, d=d, input=inp, U=c02._c2j(U), measured=list(modes))
        U = c02._generic_unitary(2, seed, 110)
        for sim in ("fock", "gaussian"):
            add("fermionic", sim=sim, d=2, input=[1, 0], U=c02._c2j(U), measured=[1, 0], shots=2)

    elif sub == "gauss_dyne":
        states = _gauss_states(seed)
        names = ["sq_disp_1", "pure_2", "mixed_2", "pure_3"] if not quick else ["sq_disp_1", "mixed_2", "pure_3"]
        sm_lattice = [
            [[1.0, 0.0], [0.0, 1.0]],
            [[2.0, 0.5], [0.5, 0.625]],
            [[0.25, 0.0], [0.0, 4.0]],
        ]
        for name in names:
            st = states[name]
            d = st["d"]
            subsets = c02._ordered_subsets(d)
            if quick and d == 3:
                subsets = [s for s in subsets if len(s) != 3 or s in ((0, 1, 2), (2, 0, 1))]
            for hbar in (2.0, 1.0, 0.63):
                for modes in subsets:
                    meas = [dict(kind="heterodyne"), dict(kind="homodyne", phi=0.0, z=1e-4), dict(kind="homodyne", phi=0.7, z=0.5)]
                    meas += [dict(kind="generaldyne", sigma_m=sm) for sm in (sm_lattice[1:] if quick else sm_lattice)]
                    for m in meas:
                        add("gauss_dyne", state=name, d=d, gates=st["gates"], hbar=hbar, measured=list(modes), meas=m)
        add("gauss_dyne", state="pure_2", d=2, gates=states["pure_2"]["gates"], hbar=1.0, measured=[1, 0], meas=dict(kind="heterodyne"), shots=2)

    elif sub == "gauss_threshold":
        states = _gauss_states(seed)
        names = ["sq_disp_1", "pure_2", "pure_2_nodisp", "mixed_2", "pure_3", "pure_3_nodisp"]
        for name in names:
            st = states[name]
            d = st["d"]
            subsets = c02._ordered_subsets(d)
            if quick and d == 3:
                subsets = [s for s in subsets if len(s) < 3 or s in ((0, 1, 2), (2, 0, 1))]
            for hbar in (2.0, 1.0, 0.63):
                if quick and hbar == 0.63 and d == 3:
                    continue
                for modes in subsets:
                    add("gauss_threshold", route="torontonian", state=name, d=d, gates=st["gates"], hbar=hbar, measured=list(modes))
        add("gauss_threshold", route="torontonian", state="pure_2", d=2, gates=states["pure_2"]["gates"], hbar=2.0, measured=[1, 0], shots=2)
        # hafnian route = thresholded photon-number chain (normal draws from the lattice)
        orders = [6, 8] if quick else [12, 16]
        for name, modes, cutoff in (("small_1", [0], 8), ("small_2", [0, 1], 7), ("small_2", [1, 0], 7), ("small_2", [1], 8)):
            if quick and modes == [1, 0]:
                continue
            st = states[name]
            add("gauss_pnm", threshold=True, state=name, d=st["d"], gates=st["gates"], hbar=2.0, measured=modes, cutoff=cutoff, orders=orders)

    elif sub == "gauss_pnm":
        states = _gauss_states(seed)
        orders = [6, 8] if quick else [12, 16]
        plan = [
            ("small_1", [0], 8, 2.0),
            ("small_thermal_1", [0], 8, 2.0),
            ("small_2", [0, 1], 7, 2.0),
            ("small_2", [1], 8, 2.0),
            ("small_1", [0], 8, 1.0),
            ("small_1", [0], 8, 0.63),
        ]
        if not quick:
            plan += [("small_2", [1, 0], 7, 2.0), ("small_2", [0], 8, 2.0)]
        for name, modes, cutoff, hbar in plan:
            st = states[name]
            add("gauss_pnm", threshold=False, state=name, d=st["d"], gates=st["gates"], hbar=hbar, measured=modes, cutoff=cutoff, orders=orders)

    elif sub == "fock_homodyne":
        specs = [
            dict(d=1, cutoff=5, terms=[[0.6, 0.0, [0]], [0.0, 0.5, [1]], [0.4, -0.3, [2]]]),
            dict(d=2, cutoff=4, terms=[[0.6, 0.0, [0, 0]], [0.5, 0.2, [1, 1]], [0.1, -0.4, [2, 0]], [0.3, 0.0, [0, 1]]]),
        ]
        us = [0.02, 0.1, 0.3, 0.5, 0.7, 0.9, 0.98] if not quick else [0.1, 0.5, 0.9]
        for sp in specs:
            d = sp["d"]
            for hbar in (2.0, 1.0) if quick else (2.0, 1.0, 0.63):
                for modes in c02._ordered_subsets(d):
                    add("fock_homodyne", d=d, cutoff=sp["cutoff"], terms=sp["terms"], hbar=hbar, measured=list(modes), us=us)
    return out


# =======================================================================================
# dispatch


def check_case(ctx, case):
    return {
        "fock": _check_fock,
        "fermionic": _check_fermionic,
        "gauss_dyne": _check_gauss_dyne,
        "gauss_threshold": _check_gauss_threshold,
        "gauss_pnm": _check_gauss_pnm,
        "fock_homodyne": _check_fock_homodyne,
    }[case["family"]](ctx, case)


def _twice(ctx, case, one_run, judge):
    """Run, judge; a violation is re-run once and must be judged identically."""
    from mc import core

    ex = one_run()
    verdict = judge(ex, True)
    if verdict:
        ctx._c02_recheck = True
        try:
            ex2 = one_run()
        finally:
            ctx._c02_recheck = False
        verdict2 = judge(ex2, False)
        if [v[0] for v in verdict] != [v[0] for v in verdict2]:
            raise core.HarnessError("HARNESS-NONDETERMINISM case %s judged %r then %r" % (case["id"], verdict, verdict2))
    return verdict


def _order_feats(case, d_total):
    m = case["measured"]
    return {
        "measured": "all" if len(m) == d_total else "subset",
        "order": "ascending" if list(m) == sorted(m) else "permuted",
    }


# =======================================================================================
# Fock-space categorical samplers


def _check_fock(ctx, case):
    import numpy as np
    import piquasso as pq
    from mc.refmodel import bornlaw as B
    from mc.refmodel import fockborn as F

    c02 = _c02()
    d = case["d"]
    U = c02._j2c(case["U"])
    terms = [(complex(t[0], t[1]), tuple(t[2])) for t in case["terms"]]
    nmax = max(sum(o) for _, o in terms)
    sim = case["sim"]
    P = case["detector"]
    shots = case["shots"]

    # reference
    if sim == "pure":
        amps = F.amplitudes(U, terms)
        law, _ = F.law_from_amplitudes(amps, case["measured"])
    elif sim == "mixed":
        w = np.array([abs(c) ** 2 for c, _ in terms])
        w = w / w.sum()
        law = {}
        for wi, (_, occ) in zip(w, terms):
            li = B.marginal(B.indistinguishable_law(U, occ), case["measured"])
            for k, v in li.items():
                law[k] = law.get(k, 0.0) + wi * v
    else:  # passive simulator: single number state (first term)
        law = B.marginal(B.indistinguishable_law(U, terms[0][1]), case["measured"])
    if P is not None:
        law = B.apply_detectors(law, P)
    expected = c02._product_law(law, shots)

    def fn():
        with pq.Program() as program:
            if sim == "pure":
                for c, occ in terms:
                    pq.Q(all) | pq.StateVector(list(occ)) * c
            elif sim == "mixed":
                w = np.array([abs(c) ** 2 for c, _ in terms])
                w = w / w.sum()
                for wi, (_, occ) in zip(w, terms):
                    pq.Q(all) | pq.DensityMatrix(ket=tuple(occ), bra=tuple(occ)) * float(wi)
            else:
                pq.Q(all) | pq.NumberState(list(terms[0][1]))
            pq.Q(all) | pq.Interferometer(U)
            if P is None:
                pq.Q(*case["measured"]) | pq.ParticleNumberMeasurement()
            else:
                pq.Q(*case["measured"]) | pq.ImperfectParticleNumberMeasurement(detector_efficiency_matrix=np.array(P))
        if sim == "pure":
            simulator = pq.PureFockSimulator(d=d, config=pq.Config(cutoff=nmax + 1))
        elif sim == "mixed":
            simulator = pq.FockSimulator(d=d, config=pq.Config(cutoff=nmax + 1))
        else:
            simulator = pq.PassiveSimulator(d=d)
        return c02._samples_key(simulator.execute(program, shots=shots))

    site = {
        "pure": "fock.pure.particle_number_measurement",
        "mixed": "fock.general.particle_number_measurement",
        "passive": "passive.particle_number_measurement",
    }[sim]
    if P is not None:
        site += "+imperfect_detectors"
    feats = _order_feats(case, d)
    feats["order_site"] = "passive.simulation_steps.particle_number_measurement" if sim == "passive" else site

    def one_run():
        # sequences for Generator.choice(size=k) (imperfect detectors pair the draws of different
        # modes positionally); random.choices(k) is binned at once -> multisets are exact
        return c02.explore_case(ctx, case, fn)

    def judge(ex, report):
        return c02._judge_discrete(ctx, case, ex, expected, site, feats, n_entries=len(case["measured"]), report=report)

    _twice(ctx, case, one_run, judge)


# =======================================================================================
# fermionic samplers


def _fermionic_law(U, inp, measured):
    """Free fermions: P(out) = |det U[out, in]|^2 for the documented a' = U a."""
    import numpy as np

    d = len(inp)
    a = [m for m, n in enumerate(inp) if n]
    n = len(a)
    law = {}
    for b in itertools.combinations(range(d), n):
        amp = np.linalg.det(U[np.ix_(list(b), a)]) if n else 1.0
        occ = tuple(1 if m in b else 0 for m in range(d))
        k = tuple(occ[m] for m in measured)
        law[k] = law.get(k, 0.0) + abs(amp) ** 2
    return law


def _check_fermionic(ctx, case):
    import piquasso as pq

    c02 = _c02()
    d = case["d"]
    U = c02._j2c(case["U"])
    shots = case["shots"]
    expected = c02._product_law(_fermionic_law(U, case["input"], case["measured"]), shots)

    def fn():
        with pq.Program() as program:
            pq.Q(all) | pq.NumberState(list(case["input"]))
            pq.Q(all) | pq.Interferometer(U)
            pq.Q(*case["measured"]) | pq.ParticleNumberMeasurement()
        if case["sim"] == "fock":
            simulator = pq.fermionic.PureFockSimulator(d=d, config=pq.Config(cutoff=d + 1))
        else:
            simulator = pq.fermionic.GaussianSimulator(d=d)
        return c02._samples_key(simulator.execute(program, shots=shots))

    site = "fermionic.%s.particle_number_measurement" % case["sim"]
    feats = _order_feats(case, d)
    feats["order_site"] = site

    def one_run():
        return c02.explore_case(ctx, case, fn)

    def judge(ex, report):
        return c02._judge_discrete(ctx, case, ex, expected, site, feats, n_entries=len(case["measured"]), report=report)

    _twice(ctx, case, one_run, judge)


# =======================================================================================
# Gaussian: building the program and the reference from one gate list


def _gauss_reference(case, dense_levels=None):
    from mc.refmodel import gaussmeas as G

    ref = G.GaussRef(case["d"], case["hbar"])
    dense = None
    if dense_levels:
        from mc.refmodel import fockborn as F

        dense = F.DenseFock(case["d"], dense_levels)
    for g in case["gates"]:
        for target in (ref, dense):
            if target is None:
                continue
            if g[0] == "T":
                target.thermal(g[1])
            elif g[0] == "S":
                target.squeeze(g[1], g[2], g[3])
            elif g[0] == "D":
                target.displace(g[1], g[2], g[3])
            elif g[0] == "BS":
                target.beamsplitter(g[1], g[2], g[3], g[4])
            elif g[0] == "R":
                target.phaseshift(g[1], g[2])
            else:
                raise ValueError(g)
    return ref, dense


def _gauss_program(case, measurement):
    import piquasso as pq

    with pq.Program() as program:
        first = case["gates"][0]
        if first[0] == "T":
            pq.Q(all) | pq.Thermal(list(first[1]))
        else:
            pq.Q(all) | pq.Vacuum()
        for g in case["gates"]:
            if g[0] == "S":
                pq.Q(g[1]) | pq.Squeezing(r=g[2], phi=g[3])
            elif g[0] == "D":
                pq.Q(g[1]) | pq.Displacement(r=g[2], phi=g[3])
            elif g[0] == "BS":
                pq.Q(g[1], g[2]) | pq.Beamsplitter(theta=g[3], phi=g[4])
            elif g[0] == "R":
                pq.Q(g[1]) | pq.Phaseshifter(phi=g[2])
        pq.Q(*case["measured"]) | measurement
    return program


# =======================================================================================
# general-dyne family: the recorded multivariate_normal arguments ARE the law


def _check_gauss_dyne(ctx, case):
    import numpy as np
    import piquasso as pq
    from mc import core
    from mc.choice import ChoiceController

    c02 = _c02()
    ref, _ = _gauss_reference(case)
    m = case["meas"]
    k = len(case["measured"])
    shots = case["shots"]
    if m["kind"] == "heterodyne":
        sm, phi = np.eye(2), 0.0
    elif m["kind"] == "homodyne":
        sm, phi = np.diag([m["z"] ** 2, 1.0 / m["z"] ** 2]), m["phi"]
    else:
        sm, phi = np.array(m["sigma_m"], dtype=float), 0.0
    exp_mean, exp_cov = ref.generaldyne_law(case["measured"], sm, phi)

    def lattice(mean, cov, size, call_index):
        # one answer per shot: mean + distinct offsets per coordinate, so that any reordering of
        # the entries on the way to Result.samples is visible
        j = call_index[1]
        return [np.asarray(mean, dtype=float) + 0.125 * (1 + np.arange(len(mean))) + 0.5 * j], [1.0]

    def fn():
        if m["kind"] == "heterodyne":
            meas = pq.HeterodyneMeasurement()
        elif m["kind"] == "homodyne":
            meas = pq.HomodyneMeasurement(phi=m["phi"], z=m["z"])
        else:
            meas = pq.GeneraldyneMeasurement(detection_covariance=np.array(m["sigma_m"], dtype=float))
        program = _gauss_program(case, meas)
        simulator = pq.GaussianSimulator(d=case["d"], config=pq.Config(hbar=case["hbar"]))
        return c02._samples_key(simulator.execute(program, shots=shots))

    site = "gaussian._get_generaldyne_samples"
    relation = [None]

    def one_run():
        ctl = ChoiceController()
        ctl.lattices["multivariate_normal"] = lattice
        return c02.explore_case(ctx, case, fn, controller=ctl)

    def judge(ex, report):
        viol = []
        if ex.n_paths != 1 and shots == 1:
            raise core.HarnessError("general-dyne case %s has %d paths (expected a single draw)" % (case["id"], ex.n_paths))
        p = ex.paths[0]
        if p.exception is not None:
            if c02._unsupported(p.exception):
                if report:
                    ctx.count("unsupported_cells")
                return []
            viol.append(("exception", "sampler raised %r" % (p.exception,)))
        else:
            recs = [r for r in p.records if r[0] == "multivariate_normal"]
            if len(recs) != 1:
                raise core.HarnessError("HARNESS-UNCAPTURED general-dyne case %s: %d multivariate_normal calls recorded" % (case["id"], len(recs)))
            got_mean, got_cov, size = recs[0][1]["mean"], recs[0][1]["cov"], recs[0][1]["size"]
            if got_mean.shape != exp_mean.shape or got_cov.shape != exp_cov.shape:
                viol.append(("shape", "multivariate_normal got mean of shape %s, cov %s for %d measured modes" % (got_mean.shape, got_cov.shape, k)))
            else:
                if np.iscomplexobj(got_mean) and np.abs(np.imag(got_mean)).max() > 1e-12 or np.iscomplexobj(got_cov) and np.abs(np.imag(got_cov)).max() > 1e-12:
                    viol.append(("mean", "complex arguments handed to multivariate_normal"))
                got_mean, got_cov = np.real(got_mean), np.real(got_cov)
                ms = 1e-9 * (1.0 + np.abs(exp_mean).max())
                cs = 1e-9 * (1.0 + np.abs(exp_cov).max())
                em = np.abs(got_mean - exp_mean).max()
                ec = np.abs(got_cov - exp_cov).max()
                if em > ms:
                    viol.append(("mean", "mean handed to multivariate_normal differs from the quantum mean by %.3e: got %s expected %s" % (em, np.round(got_mean, 9).tolist(), np.round(exp_mean, 9).tolist())))
                if ec > cs:
                    hint = ""
                    relation[0] = "other"
                    if np.abs(got_cov - 2.0 * exp_cov).max() <= 2 * cs:
                        relation[0] = "twice"
                        hint = " -- it is exactly TWICE the outcome covariance (sigma + hbar*sigma_m)/2: the 2*Cov-convention matrix sigma + sigma_m was passed as a covariance"
                    viol.append(("cov", "covariance handed to multivariate_normal differs from (sigma+sigma_m)/2 by %.3e (scale %.3e)%s; got diag %s expected diag %s" % (
                        ec, np.abs(exp_cov).max(), hint, np.round(np.diag(got_cov), 9).tolist(), np.round(np.diag(exp_cov), 9).tolist())))
            if tuple(size or ()) != (shots,):
                viol.append(("shape", "multivariate_normal size=%r for shots=%d" % (size, shots)))
            # entries of the returned samples: the lattice answers, in order, one per quadrature
            want = []
            for j in range(shots):
                want.append(tuple(float(x) for x in (np.real(recs[0][1]["mean"]) + 0.125 * (1 + np.arange(2 * k)) + 0.5 * j)))
            if sorted(p.result) != sorted(tuple(want)):
                viol.append(("shape", "samples %r are not the %d-entry draws %r (one x and one p per measured mode, in program order)" % (p.result, 2 * k, want)))
        if report:
            ctx.note_distinct(json.dumps(c02._case_key(case), sort_keys=True))
            ctx.sample({"case": c02._case_key(case), "paths": ex.n_paths})
            for oracle, msg in viol:
                feats = {"relation": relation[0]} if oracle == "cov" else {"measurement": m["kind"]}
                ctx.violation(c02._sig(case, site, oracle, **feats), {"case": case}, "%s [%s]: %s" % (case["id"], site, msg))
        return viol

    _twice(ctx, case, one_run, judge)


# =======================================================================================
# threshold detection by the torontonian chain


def _check_gauss_threshold(ctx, case):
    import piquasso as pq

    c02 = _c02()
    ref, _ = _gauss_reference(case)
    shots = case["shots"]
    expected = c02._product_law(ref.threshold_law(case["measured"]), shots)

    def fn():
        program = _gauss_program(case, pq.ThresholdMeasurement())
        simulator = pq.GaussianSimulator(d=case["d"], config=pq.Config(hbar=case["hbar"], use_torontonian=True))
        return c02._samples_key(simulator.execute(program, shots=shots))

    site = "gaussian._generate_threshold_samples_using_torontonian"
    feats = _order_feats(case, case["d"])
    feats["order_site"] = site
    feats["displaced"] = any(g[0] == "D" for g in case["gates"])

    def one_run():
        return c02.explore_case(ctx, case, fn)

    def judge(ex, report):
        return c02._judge_discrete(ctx, case, ex, expected, site, feats, n_entries=len(case["measured"]), report=report)

    _twice(ctx, case, one_run, judge)


# =======================================================================================
# Gaussian photon-number sampler (loop-hafnian chain with heterodyne unravelling)


def _gh(n):
    """Gauss-Hermite nodes/weights for the standard normal."""
    import numpy as np

    x, w = np.polynomial.hermite_e.hermegauss(n)
    return x, w / np.sqrt(2 * np.pi)


def _pnm_lattices(case, ref, order):
    """Lattices for the two normal(size=2d) draws of gaussian._generate_sample so that the
    marginal law of the photon numbers is a Gauss-Hermite quadrature of the exact path law.

    Reading _generate_sample: draw 0 (z1, thermal unravelling) enters through
    pure_mean = mean + sqrt_cov_1 z1, draw 1 (z2, heterodyne outcomes) through
    evolved_mean = pure_mean + chol(T + 1) z2, and the photon-number law depends on z2 only
    through the heterodyne outcomes of the modes 2..k of the measured tuple.
      k = 1: the law does not depend on z2; it depends on z1 only if the reduced state is
             mixed -> 2-D product lattice on z1;
      k = 2, pure: z1 is irrelevant (sqrt_cov_1 = 0); 2-D lattice on (x_2, p_2), lifted to z2
             through the reference's own Cholesky factor."""
    import numpy as np

    k = len(case["measured"])
    mean2, V = ref.xxpp_hbar2(case["measured"])
    nu = np.sqrt(np.abs(np.linalg.eigvals(_omega(k) @ V)))  # symplectic eigenvalues (pairs)
    mixed = bool(np.max(nu) > 1.0 + 1e-9)
    x, w = _gh(order)
    zero = np.zeros(2 * k)
    if k == 1:
        if not mixed:
            # independence of both draws is part of what is checked: three answers each
            pts = [zero, np.array([0.7, -0.4]), np.array([-1.1, 0.9])]
            return {0: (pts, [1.0 / 3] * 3), 1: (pts, [1.0 / 3] * 3)}, "nominal"
        pts, wts = [], []
        for (a, wa), (b, wb) in itertools.product(zip(x, w), repeat=2):
            pts.append(np.array([a, b]))
            wts.append(wa * wb)
        return {0: (pts, wts), 1: ([zero], [1.0])}, "gh-z1"
    if k == 2 and not mixed:
        L = np.linalg.cholesky(V + np.eye(4))
        Sigma = (L @ L.T)[np.ix_([1, 3], [1, 3])]
        M = np.linalg.cholesky(Sigma)
        Linv = np.linalg.inv(L)
        pts, wts = [], []
        for (a, wa), (b, wb) in itertools.product(zip(x, w), repeat=2):
            v = M @ np.array([a, b])
            target = np.array([0.0, v[0], 0.0, v[1]])
            pts.append(Linv @ target)
            wts.append(wa * wb)
        return {0: ([zero], [1.0]), 1: (pts, wts)}, "gh-heterodyne"
    raise NotImplementedError("quadrature lattice for %d measured modes, mixed=%s" % (k, mixed))


def _omega(k):
    import numpy as np

    return np.block([[np.zeros((k, k)), np.eye(k)], [-np.eye(k), np.zeros((k, k))]])


def _check_gauss_pnm(ctx, case):
    import numpy as np
    import piquasso as pq
    from mc import core
    from mc.choice import ChoiceController
    from mc.refmodel import bornlaw as B

    c02 = _c02()
    threshold = case["threshold"]
    cutoff = case["cutoff"]
    levels = 18 if case["d"] == 2 else 30
    ref, dense = _gauss_reference(case, dense_levels=levels)
    born, tail = dense.number_law(case["measured"], cutoff=cutoff)
    top = sum(p for occ, p in dense.probabilities().items() if max(occ) >= levels - 2)
    if tail > 2e-6 or top > 1e-9:
        raise core.HarnessError("HARNESS-TAIL case %s: photon-number tail %.3e beyond measurement_cutoff / %.3e at the reference truncation" % (case["id"], tail, top))
    if threshold:
        # click law from the Gaussian formula (no truncation), cross-checked with the dense state
        expected1 = ref.threshold_law(case["measured"])
        full, _ = dense.number_law(case["measured"])
        chk = {}
        for occ, p in full.items():
            kk = tuple(1 if n else 0 for n in occ)
            chk[kk] = chk.get(kk, 0.0) + p
        if B.compare_laws(chk, expected1)[0] > 1e-7:
            raise core.HarnessError("HARNESS-SELFTEST reference models disagree on the click law of %s" % case["id"])
    else:
        expected1 = born
        # Gaussian vacuum probability vs dense state: self-test of the two reference models
        if abs(ref.vacuum_probability(range(case["d"])) - dense.probabilities()[(0,) * case["d"]]) > 1e-8:
            raise core.HarnessError("HARNESS-SELFTEST reference models disagree on the vacuum probability of %s" % case["id"])
    expected = {(k,): v for k, v in expected1.items()}

    def fn():
        meas = pq.ThresholdMeasurement() if threshold else pq.ParticleNumberMeasurement()
        program = _gauss_program(case, meas)
        simulator = pq.GaussianSimulator(d=case["d"], config=pq.Config(hbar=case["hbar"], measurement_cutoff=cutoff, use_torontonian=False))
        return c02._samples_key(simulator.execute(program, shots=1))

    site = "gaussian._generate_sample" + ("(threshold via hafnian)" if threshold else "")
    feats = _order_feats(case, case["d"])
    feats["order_site"] = site
    feats["hbar"] = "2" if case["hbar"] == 2.0 else "not2"

    def law_for(order):
        lat, mode = _pnm_lattices(case, ref, order)
        ctl = ChoiceController()
        ctl.lattices["normal"] = lambda size, ci: lat[ci]
        ex = c02.explore_case(ctx, case, fn, controller=ctl)
        return ex, mode

    def one_run():
        exs = []
        for order in case["orders"]:
            ex, mode = law_for(order)
            exs.append(ex)
            if mode == "nominal":
                break
        return exs, mode

    def judge(run, report):
        exs, mode = run
        atol = 1e-5
        if mode == "nominal":
            # every answer of the normal draws must give the same, exact law
            ex = exs[0]
            groups = {}
            for p in ex.paths:
                lat_choices = tuple(pt.taken for pt in p.points if pt.kind == "lattice")
                groups.setdefault(lat_choices, []).append(p)
            verdicts = []
            for gkey, paths in sorted(groups.items()):
                sub = _SubEx(paths)
                v = c02._judge_discrete(ctx, case, sub, expected, site, feats, n_entries=len(case["measured"]), report=report and not verdicts, atol=atol)
                verdicts += v
                report_first = False
            if report:
                ctx.assume("Gaussian photon-number sampler: law compared with the dense-Fock Born law at 1e-5 (renormalisation over measurement_cutoff; the exact tail is computed and kept below 2e-6)")
            return verdicts
        laws = []
        for ex in exs:
            for p in ex.paths:
                if p.exception is not None:
                    return c02._judge_discrete(ctx, case, ex, expected, site, feats, n_entries=len(case["measured"]), report=report, atol=atol)
            laws.append(ex.law())
        conv = B.compare_laws(laws[0], laws[1])[0]
        err = B.compare_laws(laws[1], expected)[0]
        if conv > 1e-6:
            # an unconverged quadrature cannot be judged: harness error, never a violation
            raise core.HarnessError("HARNESS-QUADRATURE case %s: Gauss-Hermite orders %r differ by %.3e (law error %.3e)" % (case["id"], case["orders"], conv, err))
        if report:
            ctx.assume("Gaussian photon-number sampler: the normal draws range over Gauss-Hermite product lattices with their weights; two orders must agree to 1e-6 (else HARNESS-QUADRATURE), tolerance against the Born law 1e-5")
            ctx.extra["max_quadrature_disagreement"] = max(ctx.extra.get("max_quadrature_disagreement", 0.0), conv)
        return c02._judge_discrete(ctx, case, exs[1], expected, site, feats, n_entries=len(case["measured"]), report=report, atol=atol)

    _twice(ctx, case, one_run, judge)


class _SubEx:
    """A group of paths (one lattice answer) presented as an exploration with renormalised
    probabilities."""

    def __init__(self, paths):
        total = sum(p.prob for p in paths)
        self.paths = [_P(p, total) for p in paths]
        self.n_paths = len(paths)
        self.mass = 1.0
        self.n_choice_points = 1


class _P:
    def __init__(self, p, total):
        self.prob = p.prob / total
        self.result = p.result
        self.exception = p.exception
        self.records = p.records


# =======================================================================================
# Fock homodyne (inverse-CDF sampler): CDF_exact(sample(u)) = u on a lattice of uniforms


def _check_fock_homodyne(ctx, case):
    import numpy as np
    import piquasso as pq
    from mc import core
    from mc.choice import ChoiceController
    from mc.refmodel import fockborn as F

    c02 = _c02()
    d = case["d"]
    hbar = case["hbar"]
    modes = case["measured"]
    k = len(modes)
    terms = [(complex(t[0], t[1]), tuple(t[2])) for t in case["terms"]]
    norm = math.sqrt(sum(abs(c) ** 2 for c, _ in terms))
    terms = [(c / norm, o) for c, o in terms]
    us = case["us"]
    grid = list(itertools.product(us, repeat=k))

    def lattice(size, ci):
        return [np.array(g) for g in grid], [1.0 / len(grid)] * len(grid)

    def fn():
        with pq.Program() as program:
            for c, occ in terms:
                pq.Q(all) | pq.StateVector(list(occ)) * c
            pq.Q(*modes) | pq.HomodyneMeasurement()
        simulator = pq.PureFockSimulator(d=d, config=pq.Config(cutoff=case["cutoff"], hbar=hbar))
        res = simulator.execute(program, shots=1)
        return tuple(tuple(float(x) for x in s) for s in res.samples)

    site = "fock.pure.homodyne_measurement"
    feats = _order_feats(case, d)
    feats["order_site"] = site
    feats["modes_measured"] = "one" if k == 1 else "several"

    # reference: |psi(x_1..x_d)|^2 in units x = q/sqrt(hbar); conditional CDFs by quadrature on a grid
    xs = np.linspace(-9.0, 9.0, 3601)
    dx = xs[1] - xs[0]
    nmax = max(max(o) for _, o in terms)
    phis = np.array([F.hermite_function(n, xs) for n in range(nmax + 1)])

    def cond_cdf_value(prev_x, x_new):
        """P(X_j <= x_new | X_1..X_{j-1} = prev_x) for the measured modes in program order;
        unmeasured modes are traced out."""
        j = len(prev_x)
        others = [m for m in range(d) if m not in modes[: j + 1]]
        # density over x on the grid: sum over Fock indices of the traced-out modes
        dens = np.zeros_like(xs)
        groups = {}
        for c, occ in terms:
            key = tuple(occ[m] for m in others)
            groups.setdefault(key, []).append((c, occ))
        for key, ts in groups.items():
            amp = np.zeros_like(xs, dtype=complex)
            for c, occ in ts:
                f = c
                for i, xv in enumerate(prev_x):
                    f = f * F.hermite_function(occ[modes[i]], np.array([xv]))[0]
                amp = amp + f * phis[occ[modes[j]]]
            dens += np.abs(amp) ** 2
        total = _trapz(dens, xs)
        mask = xs <= x_new
        part = _trapz(dens[mask], xs[mask])
        # last partial cell
        i0 = int(np.searchsorted(xs, x_new, side="right")) - 1
        if 0 <= i0 < len(xs) - 1:
            frac = (x_new - xs[i0]) / dx
            di = dens[i0] + (dens[i0 + 1] - dens[i0]) * frac
            part += 0.5 * (dens[i0] + di) * (x_new - xs[i0])
        return part / total

    tol = 5e-4

    def one_run():
        ctl = ChoiceController()
        ctl.lattices["uniform_array"] = lattice
        return c02.explore_case(ctx, case, fn, controller=ctl)

    def judge(ex, report):
        viol = []
        worst = 0.0
        for p in ex.paths:
            if p.exception is not None:
                if c02._unsupported(p.exception):
                    if report:
                        ctx.count("unsupported_cells")
                    return []
                viol.append(("exception", "sampler raised %r" % (p.exception,)))
                break
            rec = [r for r in p.records if r[0] == "uniform_array"]
            if len(rec) != 1:
                raise core.HarnessError("HARNESS-UNCAPTURED Fock homodyne case %s: %d uniform(size) calls" % (case["id"], len(rec)))
            u = rec[0][1]["answer"].reshape(-1)
            sample = p.result[0]
            if len(sample) != k:
                viol.append(("shape", "sample %r has %d entries for %d measured modes" % (sample, len(sample), k)))
                break
            xq = [s / math.sqrt(hbar) for s in sample]
            for j in range(k):
                cdf = cond_cdf_value(xq[:j], xq[j])
                err = abs(cdf - u[j])
                worst = max(worst, err)
                if err > tol:
                    viol.append(("cdf", "uniforms %r -> sample %r: exact conditional CDF of entry %d at the returned value is %.6f, the uniform was %.6f (|diff| %.2e > %.0e)" % (
                        u.tolist(), list(sample), j, cdf, u[j], err, tol)))
                    break
            if viol:
                break
        if report:
            ctx.assume("Fock homodyne (inverse-CDF sampler with the Abramowitz-Stegun erf): |CDF_exact(sample(u)) - u| <= 5e-4 on the lattice of uniforms, conditional CDFs by trapezoidal quadrature of |psi|^2 on a 3601-point grid")
            ctx.extra["max_homodyne_cdf_error"] = max(ctx.extra.get("max_homodyne_cdf_error", 0.0), worst if not viol else 0.0)
            ctx.note_distinct(json.dumps(c02._case_key(case), sort_keys=True))
            ctx.sample({"case": c02._case_key(case), "paths": ex.n_paths, "max_cdf_error": worst})
            fx = {kk: v for kk, v in feats.items() if kk not in ("order", "order_site", "measured")}
            for oracle, msg in viol:
                ctx.violation(c02._sig(case, site, oracle, **fx), {"case": case}, "%s [%s]: %s" % (case["id"], site, msg))
        return viol

    _twice(ctx, case, one_run, judge)


def _trapz(y, x):
    import numpy as np

    y = np.asarray(y)
    x = np.asarray(x)
    if len(x) < 2:
        return 0.0
    return float(np.sum((y[1:] + y[:-1]) * (x[1:] - x[:-1])) / 2.0)
