"""Private helpers of check C09 (results do not depend on the numerical connector).

* `Catalogue(seed)`  -- the finite catalogue of "generic" parameter values and named
  matrices; VERIF_SEED only changes these values, never what is explored.
* `alphabet(family, d, cutoff, tier)` / `roots(family, d, cutoff)` -- instruction
  templates `{"cls", "modes", "params"}` (JSON-able; matrices are referred to by catalogue
  name) on every ORDERED mode tuple.
* `Impl` -- one "implementation" = the same simulator class under one connector mode.
* `observe(family, state, ...)` -- the observables compared in every state.

Nothing in here decides pass/fail; that is `mc/checks/c09.py`.
"""

import itertools

import numpy as np

FAMILIES = {
    # family: (simulator path, default connector modes in the two worker groups)
    "purefock": "PureFockSimulator",
    "gaussian": "GaussianSimulator",
    "passive": "PassiveSimulator",
    "fgauss": "fermionic.GaussianSimulator",
    "ffock": "fermionic.PureFockSimulator",
}

ATOL = 1e-9
RTOL = 1e-9


# ---------------------------------------------------------------------------------------
# catalogue


def _haar(rng, n):
    a = rng.normal(size=(n, n)) + 1j * rng.normal(size=(n, n))
    q, r = np.linalg.qr(a)
    ph = np.diag(r) / np.abs(np.diag(r))
    return q * ph


class Catalogue:
    """Generic (irrational-looking, non-symmetric) values and matrices, a deterministic
    function of the seed."""

    def __init__(self, seed):
        self.seed = int(seed)
        rng = np.random.default_rng([909, self.seed])

        def g(lo, hi):
            return float(round(rng.uniform(lo, hi), 5))

        v = {}
        v["ps_phi"] = g(0.4, 1.3)
        v["bs_theta"] = g(0.3, 1.2)
        v["bs_phi"] = g(0.3, 1.4)
        v["mz_int"] = g(0.3, 1.2)
        v["mz_ext"] = g(0.4, 1.4)
        v["sq_r"] = g(0.12, 0.3)
        v["sq_phi"] = g(0.5, 1.4)
        v["qp_s"] = g(0.2, 0.5)
        v["sq2_r"] = g(0.12, 0.28)
        v["sq2_phi"] = g(0.4, 1.3)
        v["cx_s"] = g(0.15, 0.4)
        v["cz_s"] = g(0.15, 0.4)
        v["d_r"] = g(0.2, 0.5)
        v["d_phi"] = g(0.4, 1.4)
        v["pd_x"] = g(0.15, 0.45)
        v["md_p"] = g(0.15, 0.45)
        v["kerr_xi"] = g(0.3, 0.9)
        v["ckerr_xi"] = g(0.3, 0.9)
        v["cubic_gamma"] = g(0.05, 0.15)
        v["att_theta"] = g(0.3, 0.9)
        v["loss_t"] = g(0.6, 0.9)
        v["cphase_phi"] = g(0.4, 1.3)
        v["ising_phi"] = g(0.4, 1.3)
        v["snap"] = [g(0.2, 1.5) for _ in range(6)]
        v["thermal"] = [g(0.2, 0.8) for _ in range(3)]
        # per-mode root preparation values (distinct per mode)
        v["root_sq_r"] = [g(0.1, 0.25) for _ in range(3)]
        v["root_sq_phi"] = [g(0.3, 1.4) for _ in range(3)]
        v["root_d_r"] = [g(0.2, 0.5) for _ in range(3)]
        v["root_d_phi"] = [g(0.3, 1.4) for _ in range(3)]
        # distinct observation angles (F12 needs DISTINCT angles on the modes): a moderate
        # set, a set beyond pi (branch of the complex square root), and one with a zero angle
        v["obs_angles"] = [g(0.5, 1.4), g(1.6, 2.6), g(2.8, 3.6)]
        v["obs_angles_large"] = [g(3.4, 4.4), g(4.6, 5.9), g(2.2, 3.0)]
        v["obs_angles_zero"] = [0.0, g(0.7, 2.9), g(3.3, 5.0)]
        self.v = v

        m = {}
        for n in (1, 2, 3):
            m["U%d" % n] = _haar(rng, n)
        # Gaussian transforms P = U1 cosh(D) U2, A = U1 S U2^*, S = -sinh(D) e^{i phi}
        for n in (1, 2):
            u1, u2 = _haar(rng, n), _haar(rng, n)
            r = rng.uniform(0.1, 0.3, size=n)
            ph = rng.uniform(0.3, 1.4, size=n)
            m["GT%d_P" % n] = u1 @ np.diag(np.cosh(r)) @ u2
            m["GT%d_A" % n] = u1 @ np.diag(-np.sinh(r) * np.exp(1j * ph)) @ u2.conj()
        # Hermitian / real-symmetric generators
        for n in (2, 3):
            a = rng.normal(size=(n, n)) + 1j * rng.normal(size=(n, n))
            m["H%d" % n] = (a + a.conj().T) / 2
            b = rng.uniform(0.2, 1.0, size=(n, n))
            m["ADJ%d" % n] = (b + b.T) / 2
            # lossy transmission matrix: contraction = diag * unitary
            m["T%d" % n] = np.diag(rng.uniform(0.6, 0.95, size=n)) @ _haar(rng, n)
            # fermionic quadratic Hamiltonian [[A, -B^*],[B, -A^*]], A hermitian, B antisym
            A = m["H%d" % n] * 0.4
            B = rng.normal(size=(n, n)) + 1j * rng.normal(size=(n, n))
            B = (B - B.T) * 0.2
            m["FH%d" % n] = np.block([[A, -B.conj()], [B, -A.conj()]])
        # complex amplitudes for superposition roots
        amp = rng.normal(size=16) + 1j * rng.normal(size=16)
        m["amps"] = amp
        self.m = m

    def value(self, ref):
        """Resolve a template parameter: {"v": name[, "i": k]} / {"m": name} / literal."""
        if isinstance(ref, dict):
            if "v" in ref:
                x = self.v[ref["v"]]
                if "i" in ref:
                    x = x[ref["i"]]
                if "n" in ref:  # first n entries of a list
                    x = list(x[: ref["n"]])
                return x
            if "m" in ref:
                return np.array(self.m[ref["m"]])
        return ref


def V(name, i=None, n=None):
    d = {"v": name}
    if i is not None:
        d["i"] = i
    if n is not None:
        d["n"] = n
    return d


def M(name):
    return {"m": name}


# ---------------------------------------------------------------------------------------
# alphabets

# (class name, arity, params) -- arity 0 means "acts on a tuple of all d modes"
_G1_PASSIVE = [
    ("Phaseshifter", 1, {"phi": V("ps_phi")}),
    ("Fourier", 1, {}),
]
_G2_PASSIVE = [
    ("Beamsplitter", 2, {"theta": V("bs_theta"), "phi": V("bs_phi")}),
    ("Beamsplitter5050", 2, {}),
    ("MachZehnder", 2, {"int_": V("mz_int"), "ext": V("mz_ext")}),
    ("Interferometer", 2, {"matrix": M("U2")}),
]
_G1_ACTIVE = [
    ("Squeezing", 1, {"r": V("sq_r"), "phi": V("sq_phi")}),
    ("QuadraticPhase", 1, {"s": V("qp_s")}),
    ("Displacement", 1, {"r": V("d_r"), "phi": V("d_phi")}),
    ("PositionDisplacement", 1, {"x": V("pd_x")}),
    ("MomentumDisplacement", 1, {"p": V("md_p")}),
    ("GaussianTransform", 1, {"passive": M("GT1_P"), "active": M("GT1_A")}),
]
_G2_ACTIVE = [
    ("Squeezing2", 2, {"r": V("sq2_r"), "phi": V("sq2_phi")}),
    ("ControlledX", 2, {"s": V("cx_s")}),
    ("ControlledZ", 2, {"s": V("cz_s")}),
    ("GaussianTransform", 2, {"passive": M("GT2_P"), "active": M("GT2_A")}),
]
_G_NONLIN = [
    ("Kerr", 1, {"xi": V("kerr_xi")}),
    ("CubicPhase", 1, {"gamma": V("cubic_gamma")}),
    ("CrossKerr", 2, {"xi": V("ckerr_xi")}),
]


def _gate_table(family, d, cutoff):
    if family == "purefock":
        t = _G1_PASSIVE + _G2_PASSIVE + _G1_ACTIVE + _G2_ACTIVE + _G_NONLIN
        t = t + [("SNAP", 1, {"theta": V("snap", n=cutoff)})]
        if d >= 3:
            t = t + [("Interferometer", 3, {"matrix": M("U3")})]
        return t
    if family == "gaussian":
        t = _G1_PASSIVE + _G2_PASSIVE + _G1_ACTIVE + _G2_ACTIVE
        t = t + [("Attenuator", 1, {"theta": V("att_theta")})]
        if d >= 2:
            t = t + [("Graph", 2, {"adjacency_matrix": M("ADJ2")})]
        if d >= 3:
            t = t + [("Interferometer", 3, {"matrix": M("U3")})]
        return t
    if family == "passive":
        t = _G1_PASSIVE + _G2_PASSIVE + [
            ("Kerr", 1, {"xi": V("kerr_xi")}),
            ("CrossKerr", 2, {"xi": V("ckerr_xi")}),
            ("Loss", 1, {"transmissivity": V("loss_t")}),
            ("LossyInterferometer", 2, {"matrix": M("T2")}),
        ]
        if d >= 3:
            t = t + [("Interferometer", 3, {"matrix": M("U3")})]
        return t
    if family == "fgauss":
        t = [
            ("Phaseshifter", 1, {"phi": V("ps_phi")}),
            ("Beamsplitter", 2, {"theta": V("bs_theta"), "phi": V("bs_phi")}),
            ("Interferometer", 2, {"matrix": M("U2")}),
            ("Squeezing2", 2, {"r": V("sq2_r"), "phi": V("sq2_phi")}),
            ("fermionic.IsingXX", 2, {"phi": V("ising_phi")}),
            ("fermionic.GaussianHamiltonian", 2, {"hamiltonian": M("FH2")}),
        ]
        if d >= 3:
            t = t + [
                ("Interferometer", 3, {"matrix": M("U3")}),
                ("fermionic.GaussianHamiltonian", 3, {"hamiltonian": M("FH3")}),
            ]
        return t
    if family == "ffock":
        t = _G1_PASSIVE + _G2_PASSIVE + [
            ("Squeezing2", 2, {"r": V("sq2_r"), "phi": V("sq2_phi")}),
            ("fermionic.ControlledPhase", 2, {"phi": V("cphase_phi")}),
            ("fermionic.IsingXX", 2, {"phi": V("ising_phi")}),
        ]
        if d >= 3:
            t = t + [("Interferometer", 3, {"matrix": M("U3")})]
        return t
    raise KeyError(family)


def alphabet(family, d, cutoff):
    """Every gate of the family's table on EVERY ordered mode tuple of its arity."""
    out = []
    for cls, arity, params in _gate_table(family, d, cutoff):
        if arity > d:
            continue
        for modes in itertools.permutations(range(d), arity):
            out.append({"cls": cls, "modes": list(modes), "params": params})
    return out


def _basis_upto(d, total):
    out = []
    for n in range(total + 1):
        for occ in itertools.product(range(n + 1), repeat=d):
            if sum(occ) == n:
                out.append(occ)
    # anti-lexicographic inside a sector is irrelevant here; sort for determinism
    return sorted(out, key=lambda o: (sum(o), tuple(-x for x in o)))


def roots(family, d, cutoff, tier):
    """name -> list of preparation templates (executed by every implementation itself)."""
    r = {}
    if family == "purefock":
        nmax = min(cutoff - 1, 2)
        occ_num = [0] * d
        occ_num[-1] = min(1, nmax)
        if d >= 2 and nmax >= 2:
            occ_num[0] = 1
        r["num"] = [{"cls": "StateVector", "modes": [], "params": {"occupation_numbers": list(occ_num)}}]
        sup = []
        for k, occ in enumerate(_basis_upto(d, nmax)):
            sup.append({"cls": "StateVector", "modes": [], "params": {"occupation_numbers": list(occ)}, "amp": k})
        r["sup"] = sup
        if tier == "thorough":
            r["vac"] = [{"cls": "Vacuum", "modes": [], "params": {}}]
    elif family == "gaussian":
        dsq = [{"cls": "Vacuum", "modes": [], "params": {}}]
        for k in range(d):
            dsq.append({"cls": "Squeezing", "modes": [k], "params": {"r": V("root_sq_r", k), "phi": V("root_sq_phi", k)}})
            dsq.append({"cls": "Displacement", "modes": [k], "params": {"r": V("root_d_r", k), "phi": V("root_d_phi", k)}})
        r["dsq"] = dsq
        th = [{"cls": "Thermal", "modes": [], "params": {"mean_photon_numbers": V("thermal", n=d)}}]
        for k in range(d):
            th.append({"cls": "Displacement", "modes": [k], "params": {"r": V("root_d_r", k), "phi": V("root_d_phi", k)}})
        r["thermal"] = th
        if tier == "thorough":
            r["vac"] = [{"cls": "Vacuum", "modes": [], "params": {}}]
    elif family == "passive":
        nmax = min(cutoff - 1, 2)
        occ_num = [0] * d
        occ_num[0] = min(1, nmax)
        if nmax >= 2:
            occ_num[-1] += 1
        r["num"] = [{"cls": "StateVector", "modes": [], "params": {"occupation_numbers": list(occ_num)}}]
        sup = []
        for k, occ in enumerate(o for o in _basis_upto(d, nmax) if sum(o) >= 1):
            sup.append({"cls": "StateVector", "modes": [], "params": {"occupation_numbers": list(occ)}, "amp": k})
        r["sup"] = sup
    elif family == "fgauss":
        occ = [(k + 1) % 2 for k in range(d)]
        r["num"] = [{"cls": "StateVector", "modes": [], "params": {"occupation_numbers": occ}}]
        if d >= 2:
            r["ph"] = [{"cls": "fermionic.ParentHamiltonian", "modes": [], "params": {"hamiltonian": M("FH%d" % d)}}]
        if tier == "thorough":
            r["vac"] = [{"cls": "Vacuum", "modes": [], "params": {}}]
    elif family == "ffock":
        occ = [(k + 1) % 2 for k in range(d)]
        r["num"] = [{"cls": "StateVector", "modes": [], "params": {"occupation_numbers": occ}}]
        sup = []
        k = 0
        for o in itertools.product((0, 1), repeat=d):
            if sum(o) < cutoff:
                sup.append({"cls": "StateVector", "modes": [], "params": {"occupation_numbers": list(o)}, "amp": k})
                k += 1
        r["sup"] = sup
    return r


# ---------------------------------------------------------------------------------------
# building instructions


def _resolve_class(pq, name):
    if name.startswith("fermionic."):
        return getattr(pq.fermionic, name.split(".", 1)[1])
    return getattr(pq, name)


def sup_amplitudes(cat, templates):
    """Normalised complex amplitudes of a superposition root."""
    idx = [t["amp"] for t in templates if "amp" in t]
    if not idx:
        return {}
    raw = np.array([cat.m["amps"][k % 16] for k in idx])
    raw = raw / np.linalg.norm(raw)
    return {k: complex(a) for k, a in zip(idx, raw)}


def make_instruction(pq, cat, template, amps=None, override=None):
    """Fresh Instruction object for a template.  `override` maps parameter name -> value
    (used to inject traced scalars under jax.jit / tf.function)."""
    cls = _resolve_class(pq, template["cls"])
    params = {}
    for k, ref in template["params"].items():
        params[k] = cat.value(ref)
    if override:
        params.update(override)
    inst = cls(**params)
    if "amp" in template:
        inst = inst * amps[template["amp"]]
    if template["modes"]:
        inst = inst.on_modes(*template["modes"])
    else:
        inst = inst.on_modes()
    return inst


def scalar_params(cat, template):
    """The float-valued parameters of a template (candidates for tracing)."""
    out = {}
    for k, ref in template["params"].items():
        val = cat.value(ref)
        if isinstance(val, float):
            out[k] = val
    return out


def describe(template):
    return "%s%s" % (template["cls"], tuple(template["modes"]))


def program_text(root, program):
    return root + " ; " + " ; ".join(describe(t) for t in program)


# ---------------------------------------------------------------------------------------
# simulators / implementations


def simulator_class(pq, family):
    path = FAMILIES[family]
    obj = pq
    for part in path.split("."):
        obj = getattr(obj, part)
    return obj


def make_config(pq, family, d, cutoff):
    return pq.Config(cutoff=cutoff)


_CONNECTORS = {}


def get_connector(pq, kind):
    """One connector object per kind and process (a `decorate_with=tf.function` connector
    caches its decorated functions, which is its intended use)."""
    if kind in _CONNECTORS:
        return _CONNECTORS[kind]
    if kind == "numpy":
        c = pq.NumpyConnector()
    elif kind == "tf":
        c = pq.TensorflowConnector()
    elif kind == "tff":
        import tensorflow as tf

        c = pq.TensorflowConnector(decorate_with=tf.function)
    elif kind == "jax":
        c = pq.JaxConnector()
    else:
        raise KeyError(kind)
    _CONNECTORS[kind] = c
    return c


CONNECTOR_NAME = {"numpy": "NumpyConnector", "tf": "TensorflowConnector", "tff": "TensorflowConnector", "jax": "JaxConnector",
                  "jit": "JaxConnector", "tfw": "TensorflowConnector"}
MODE_NAME = {"numpy": "eager", "tf": "eager", "tff": "decorate_with=tf.function", "jax": "eager", "jit": "jax.jit(whole program)",
             "tfw": "tf.function(whole program)"}


def to_np(x):
    """Materialise a connector value as a NumPy array (complex128/float64 preserved)."""
    if hasattr(x, "numpy") and not isinstance(x, np.ndarray):
        try:
            return np.asarray(x.numpy())
        except Exception:
            pass
    return np.asarray(x)


# ---------------------------------------------------------------------------------------
# observables


def _fock_occupations(d, cutoff):
    return _basis_upto(d, cutoff - 1)


def angle_sets(cat, d):
    out = {"moderate": list(cat.v["obs_angles"][:d]), "large": list(cat.v["obs_angles_large"][:d])}
    if d >= 2:
        out["with_zero"] = list(cat.v["obs_angles_zero"][:d])
    return out


def observe(family, state, d, cutoff, cat, level=2, angles=None):
    """Ordered list of (name, thunk); a thunk returns the connector-native value.
    `level` 1 = cheap observables only, 2 = + Fock-space representations of Gaussian
    states (expensive under JAX)."""
    o = []

    def add(name, fn):
        o.append((name, fn))

    s = state
    if family == "purefock":
        add("state_vector", lambda: s.state_vector)
        add("fock_probabilities", lambda: s.fock_probabilities)
        add("norm", lambda: s.norm)
        add("mean_photon_number", lambda: s.mean_photon_number())
        for m in range(d):
            add("mean_position(%d)" % m, lambda m=m: s.mean_position(m))
        occ = _fock_occupations(d, cutoff)[-1]
        add("get_particle_detection_probability", lambda: s.get_particle_detection_probability(np.array(occ)))
    elif family == "gaussian":
        add("xpxp_mean_vector", lambda: s.xpxp_mean_vector)
        add("xpxp_covariance_matrix", lambda: s.xpxp_covariance_matrix)
        add("complex_displacement", lambda: s.complex_displacement)
        add("complex_covariance", lambda: s.complex_covariance)
        add("mean_photon_number", lambda: s.mean_photon_number())
        add("mean_photon_number((0,))", lambda: s.mean_photon_number(modes=(0,)))
        add("variance_photon_number", lambda: s.variance_photon_number())
        add("get_parity_operator_expectation_value", lambda: s.get_parity_operator_expectation_value())
        angs = angles if angles is not None else angle_sets(cat, d)
        for tag in sorted(angs):
            add("get_phaseshifter_expectation_value[%s]" % tag, lambda tag=tag: s.get_phaseshifter_expectation_value(angs[tag]))
        add("get_purity", lambda: s.get_purity())
        if level >= 2:
            occ = _fock_occupations(d, cutoff)[-1]
            add("density_matrix", lambda: s.density_matrix)
            add("fock_probabilities", lambda: s.fock_probabilities)
            add("get_particle_detection_probability", lambda: s.get_particle_detection_probability(np.array(occ)))
    elif family == "passive":
        occs = _fock_occupations(d, cutoff)
        add("fock_probabilities", lambda: s.fock_probabilities)
        for tag, occ in (("first", occs[min(1, len(occs) - 1)]), ("last", occs[-1])):
            add("get_particle_detection_probability[%s]" % tag, lambda occ=occ: s.get_particle_detection_probability(np.array(occ)))
        add("norm", lambda: s.norm)
        add("state_vector", lambda: s.state_vector)
    elif family == "fgauss":
        occ = [(k + 1) % 2 for k in range(d)]
        add("covariance_matrix", lambda: s.covariance_matrix)
        add("correlation_matrix", lambda: s.correlation_matrix)
        add("fock_probabilities", lambda: s.fock_probabilities)
        add("mean_particle_numbers", lambda: s.mean_particle_numbers(tuple(range(d))))
        add("get_parity_operator_expectation_value", lambda: s.get_parity_operator_expectation_value())
        add("get_particle_detection_probability", lambda: s.get_particle_detection_probability(np.array(occ)))
        if level >= 2:
            add("density_matrix", lambda: s.density_matrix)
    elif family == "ffock":
        occ = [(k + 1) % 2 for k in range(d)]
        add("state_vector", lambda: s.state_vector)
        add("fock_probabilities", lambda: s.fock_probabilities)
        add("norm", lambda: s.norm)
        add("covariance_matrix", lambda: s.covariance_matrix)
        if sum(occ) < cutoff:
            add("get_particle_detection_probability", lambda: s.get_particle_detection_probability(np.array(occ)))
    return o


REFUSALS = ("NotImplementedError", "NotImplementedCalculation")


def evaluate(observables):
    """name -> ("ok", ndarray) | ("exc", exception class name, message)."""
    out = {}
    for name, fn in observables:
        try:
            out[name] = ("ok", to_np(fn()))
        except Exception as e:  # classified by the caller
            out[name] = ("exc", type(e).__name__, str(e).replace("\n", " ")[:300])
    return out


def compare(ref, got):
    """Max deviation beyond tolerance.  Returns (ok, worst_abs_diff, scale, detail)."""
    a = np.asarray(ref)
    b = np.asarray(got)
    if a.shape != b.shape:
        try:
            b = b.reshape(a.shape)
        except Exception:
            return False, float("inf"), 0.0, "shape %s vs %s" % (a.shape, b.shape)
    if not np.all(np.isfinite(b)):
        if np.all(np.isfinite(a)):
            return False, float("inf"), 0.0, "non-finite value"
    scale = float(np.max(np.abs(a))) if a.size else 0.0
    if a.size == 0:
        return True, 0.0, scale, ""
    diff = float(np.max(np.abs(a - b)))
    ok = diff <= ATOL + RTOL * scale
    return ok, diff, scale, ""


def dtype_class(x):
    """'f8' / 'c16' / other -- the default dtype of every connector must be double."""
    dt = np.asarray(x).dtype
    if dt == np.float64:
        return "f8"
    if dt == np.complex128:
        return "c16"
    return str(dt)


def canon(arrays):
    """Canonical rounded hash key of a list of NumPy arrays (state de-duplication)."""
    import hashlib

    h = hashlib.sha1()
    for a in arrays:
        a = np.asarray(a)
        if a.dtype.kind == "c":
            r = np.round(np.stack([a.real, a.imag]), 8) + 0.0
        else:
            r = np.round(a.astype(float), 8) + 0.0
        h.update(str(r.shape).encode())
        h.update(np.ascontiguousarray(r).tobytes())
    return h.hexdigest()


# ---------------------------------------------------------------------------------------
# whole-program compilation


def build_instructions(pq, cat, root_templates, program, overrides=None):
    amps = sup_amplitudes(cat, root_templates)
    insts = [make_instruction(pq, cat, t, amps) for t in root_templates]
    for k, t in enumerate(program):
        ov = overrides[k] if overrides else None
        insts.append(make_instruction(pq, cat, t, override=ov))
    return insts


def run_eager(pq, family, kind, d, cutoff, cat, root_templates, program, initial_state=None):
    """Execute through the public path; returns the resulting State."""
    conn = get_connector(pq, kind)
    sim = simulator_class(pq, family)(d=d, config=make_config(pq, family, d, cutoff), connector=conn)
    if initial_state is None:
        insts = build_instructions(pq, cat, root_templates, program)
        return sim.execute_instructions(insts, shots=None).state
    insts = [make_instruction(pq, cat, t) for t in program]
    return sim.execute_instructions(insts, initial_state=initial_state, shots=None).state


TRACER_ERRORS = (
    "ConcretizationTypeError",
    "TracerBoolConversionError",
    "TracerArrayConversionError",
    "TracerIntegerConversionError",
    "UnexpectedTracerError",
    "NonConcreteBooleanIndexError",
    "OperatorNotAllowedInGraphError",
)


def run_jit(pq, family, d, cutoff, cat, root_templates, program, level=2, traced=True):
    """jax.jit of the WHOLE program (simulator construction, execution, observables), the
    documented way of compiling a Piquasso simulation with JAX.  With traced=True every
    float parameter of every gate and the phase-shifter observation angles are traced
    arguments; otherwise they are closed-over constants.

    Returns name -> ("ok", ndarray) | ("exc", class, message); raises on a failure of the
    program itself."""
    import jax

    scal = [scalar_params(cat, t) for t in program]
    angles = angle_sets(cat, d)
    failures = {}
    names = []

    def f(scalars, ang):
        conn = pq.JaxConnector()
        sim = simulator_class(pq, family)(d=d, config=make_config(pq, family, d, cutoff), connector=conn)
        insts = build_instructions(pq, cat, root_templates, program, overrides=scalars)
        state = sim.execute_instructions(insts, shots=None).state
        outs = []
        for name, fn in observe(family, state, d, cutoff, cat, level=level, angles=ang):
            try:
                val = fn()
                outs.append(conn.np.asarray(val))
                names.append(name)
            except Exception as e:
                failures[name] = ("exc", type(e).__name__, str(e).replace("\n", " ")[:300])
        return tuple(outs)

    if traced:
        vals = jax.jit(f)(scal, angles)
    else:
        vals = jax.jit(lambda: f(scal, angles))()
    out = dict(failures)
    for name, v in zip(names, vals):
        out[name] = ("ok", to_np(v))
    return out


def run_tf_whole(pq, family, d, cutoff, cat, root_templates, program, level=2):
    """@tf.function around the whole simulation with a plain TensorflowConnector and the
    gate parameters as tensor arguments (the pattern of tests/slow/test_tf_function.py)."""
    import tensorflow as tf

    scal = [scalar_params(cat, t) for t in program]
    flat = [(k, name) for k, s in enumerate(scal) for name in sorted(s)]
    args = [tf.constant(scal[k][name], dtype=tf.float64) for k, name in flat]
    failures = {}
    names = []

    @tf.function
    def f(*tensors):
        overrides = [dict() for _ in program]
        for (k, name), t in zip(flat, tensors):
            overrides[k][name] = t
        conn = pq.TensorflowConnector()
        sim = simulator_class(pq, family)(d=d, config=make_config(pq, family, d, cutoff), connector=conn)
        insts = build_instructions(pq, cat, root_templates, program, overrides=overrides)
        state = sim.execute_instructions(insts, shots=None).state
        outs = []
        for name, fn in observe(family, state, d, cutoff, cat, level=level):
            try:
                outs.append(tf.convert_to_tensor(fn()))
                names.append(name)
            except Exception as e:
                failures[name] = ("exc", type(e).__name__, str(e).replace("\n", " ")[:300])
        return tuple(outs)

    vals = f(*args)
    out = dict(failures)
    for name, v in zip(names, vals):
        out[name] = ("ok", to_np(v))
    return out
