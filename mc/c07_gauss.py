"""Helpers shared by the checks C07 and C14 (Gaussian simulator harness): parameter
lattice, hbar set, simulator/state construction, base-state catalogue, serialisable
instruction templates, comparison helper.  piquasso is imported lazily (workers only)."""

import itertools
import math

import numpy as np

from mc.refmodel import gaussref as R

PI = math.pi
# DESIGN C07: 13 values per real parameter
LATTICE = (0.0, PI / 4, -PI / 4, PI / 2, -PI / 2, PI, 2 * PI, -3.3, 7.3, 1e-9, 0.37, 1.234, -0.81)
HBARS = (0.5, 1.0, 2.0, 3.7)

ATOL = 1e-9
RTOL = 1e-9


def err(a, b):
    a = np.asarray(a)
    b = np.asarray(b)
    if a.shape != b.shape:
        return float("inf")
    if a.size == 0:
        return 0.0
    e = np.max(np.abs(a - b))
    return float("inf") if e != e else float(e)


def close(a, b, scale=1.0, atol=ATOL, rtol=RTOL):
    """|a-b| <= atol + rtol*scale elementwise (max norm); NaN never passes"""
    e = err(a, b)
    return e <= atol + rtol * scale, e


def amax(x):
    x = np.asarray(x)
    return float(np.max(np.abs(x))) if x.size else 0.0


# ---------------------------------------------------------------------------------------
# simulators and states

_SIMS = {}


def simulator(d, hbar, cutoff=4):
    import piquasso as pq

    key = (d, hbar, cutoff)
    if key not in _SIMS:
        _SIMS[key] = pq.GaussianSimulator(d=d, config=pq.Config(hbar=hbar, cutoff=cutoff))
    return _SIMS[key]


def make_state(d, hbar, mean_dl, cov_dl, cutoff=4, via="xxpp"):
    """GaussianState from DIMENSIONLESS xxpp moments (vacuum covariance = I) via the public setters"""
    st = simulator(d, hbar, cutoff).create_initial_state()
    mean = np.asarray(mean_dl, dtype=float) * math.sqrt(hbar)
    cov = np.asarray(cov_dl, dtype=float) * hbar
    if via == "xxpp":
        st.xxpp_mean_vector = mean
        st.xxpp_covariance_matrix = cov
    else:
        st.xpxp_mean_vector = R.vec_to_xpxp(mean)
        st.xpxp_covariance_matrix = R.mat_to_xpxp(cov)
    return st


_MEANS = (0.3, -0.2, 0.5, 0.15, -0.45, 0.1, 0.7, -0.4, 0.25, 0.6)
_SQ = (0.35, -0.28, 0.22, 0.4, -0.31)
_NB = (0.7, 0.0, 1.3, 0.25, 0.5)


def generic_mean(d, scale=1.0):
    return np.array(_MEANS[:d] + _MEANS[5 : 5 + d]) * scale


def generic_symplectic(d, seed, tag=0, squeeze=1.0):
    U1, U2 = R.generic_unitary(d, seed, 10 + tag), R.generic_unitary(d, seed, 20 + tag)
    P, A = R.bloch_messiah_blocks(U1, np.array(_SQ[:d]) * squeeze, U2)
    return R.real_S_xxpp(P, A)


def base_states(d, seed):
    """6 dimensionless (name, mean, cov) base states: vacuum, displaced, squeezed-correlated,
    squeezed+displaced, thermal, mixed-correlated-displaced"""
    I = np.identity(2 * d)
    z = np.zeros(2 * d)
    S = generic_symplectic(d, seed)
    th = np.diag(np.concatenate([2 * np.array(_NB[:d]) + 1] * 2))
    mu = generic_mean(d)
    return [
        ("vacuum", z, I),
        ("displaced", mu, I),
        ("squeezed_correlated", z, S @ S.T),
        ("squeezed_displaced", -0.7 * mu[::-1], S @ S.T),
        ("thermal", z, th),
        ("mixed_correlated_displaced", mu, S @ th @ S.T),
    ]


# ---------------------------------------------------------------------------------------
# serialisable instruction templates: (class name, modes, params) with matrices named by
# catalogue keys {"cat": "U", "k": 2, "tag": 1}


def unitary_catalogue(k, seed):
    out = {
        "identity": np.identity(k, dtype=complex),
        "diagphase": np.diag(np.exp(1j * np.array(LATTICE[10:13] + LATTICE[1:3])[:k])),
        "generic_a": R.generic_unitary(k, seed, 1),
        "generic_b": R.generic_unitary(k, seed, 2),
    }
    if k >= 2:
        out["cyclic_perm"] = np.roll(np.identity(k), 1, axis=0).astype(complex)
        out["dft"] = np.array([[np.exp(2j * PI * a * b / k) for b in range(k)] for a in range(k)]) / math.sqrt(k)
        c, s = math.cos(0.37), math.sin(0.37)
        rot = np.identity(k)
        rot[0, 0], rot[0, k - 1], rot[k - 1, 0], rot[k - 1, k - 1] = c, -s, s, c
        out["real_rotation"] = rot.astype(complex)
    return out


def gaussian_transform_catalogue(k, seed):
    U = unitary_catalogue(k, seed)
    sq = np.array(_SQ[:k])
    out = {
        "passive_only": (U["generic_a"], np.zeros((k, k), dtype=complex)),
        "squeezers": R.bloch_messiah_blocks(np.identity(k), sq, np.identity(k)),
        "bloch_messiah_a": R.bloch_messiah_blocks(U["generic_a"], sq, U["generic_b"]),
        "bloch_messiah_b": R.bloch_messiah_blocks(U["generic_b"], -1.7 * sq, U["diagphase"]),
        "strong": R.bloch_messiah_blocks(U["generic_a"], 4.0 * sq + 1.0, U["generic_a"].conj().T),
    }
    return out


def resolve_param(v, seed):
    if isinstance(v, dict) and "cat" in v:
        if v["cat"] == "U":
            return unitary_catalogue(v["k"], seed)[v["name"]]
        if v["cat"] == "GT":
            return gaussian_transform_catalogue(v["k"], seed)[v["name"]][v["part"]]
        if v["cat"] == "array":
            a = np.array(v["re"], dtype=float)
            if "im" in v:
                a = a + 1j * np.array(v["im"], dtype=float)
            return a
        raise KeyError(v)
    return v


def instantiate(template, seed):
    """fresh piquasso Instruction from (clsname, modes, params)"""
    import piquasso as pq

    name, modes, params = template
    cls = getattr(pq, name)
    inst = cls(**{k: resolve_param(v, seed) for k, v in params.items()})
    if modes is not None and len(modes):
        inst = inst.on_modes(*modes)
    return inst


def run(d, hbar, templates, initial_state, seed, cutoff=4):
    sim = simulator(d, hbar, cutoff)
    return sim.execute_instructions([instantiate(t, seed) for t in templates], initial_state=initial_state).state


def ordered_tuples(d, k):
    return list(itertools.permutations(range(d), k))


def all_ordered_subsets(d):
    out = []
    for k in range(1, d + 1):
        out += ordered_tuples(d, k)
    return out


def fmt(x):
    """short printable form of numbers/arrays for messages"""
    return np.array2string(np.asarray(x), precision=6, threshold=40, max_line_width=200)
