#!/venv/bin/python
"""Generates /verif/MANIFEST.json from the table below and validates it against the
schema.  Run after registering / unregistering a check:  /venv/bin/python mc/manifest.py"""

import json
import os
import sys

VERIF = os.path.dirname(os.path.dirname(os.path.abspath(__file__)))
PY = "/venv/bin/python"

BASELINE_CMD = (
    "cd /repo && /venv/bin/python -m pytest -ra -q -p no:cacheprovider --timeout=900 "
    "--continue-on-collection-errors"
)

# property -> (level, design_ref, technique, text, note)
CHECKS = {
    "C06": (
        "model_checking",
        "DESIGN.md 3/C06",
        "explicit-state enumeration of the basis via its successor function, every state ranked against a big-integer reference",
        "Every basis vector of every (d, cutoff) in the box (bosonic d<=7,c<=9; fermionic d<=10) is a state; every successor "
        "step of the implementation's enumeration is a transition validated against the reference successor; in every state "
        "scalar, vectorised and sub-space rank, key look-ups, index lists and dimension formulas are compared with an "
        "independent math.comb ranking. Exhaustive inside the box, plus the int32 frontier vectors per d.",
        "Trusted: Python big integers and math.comb; the box bounds; beyond the box only frontier vectors are examined.",
    ),
}

NOT_APPLICABLE = {}

ALL = ["C%02d" % i for i in range(1, 21)]


def build():
    checks = []
    for pid in ALL:
        if pid not in CHECKS:
            continue
        level, ref, technique, text, note = CHECKS[pid]
        checks.append(
            {
                "property_id": pid,
                "quick_cmd": "%s mc/run.py %s --tier quick" % (PY, pid),
                "thorough_cmd": "%s mc/run.py %s --tier thorough" % (PY, pid),
                "evidence_file": "/verif/evidence/%s.json" % pid,
                "replay_cmd_template": "%s mc/run.py replay {path}" % PY,
                "engine": "mc",
                "level_claimed": {"category": level, "text": text, "design_ref": ref},
                "level_note": note,
                "technique": technique,
            }
        )
    na = []
    for pid in ALL:
        if pid in CHECKS:
            continue
        na.append({"property_id": pid, "reason": NOT_APPLICABLE.get(pid, "check not built yet in this tree (planned, see DESIGN.md section 3); not claimed")})
    return {
        "version": 1,
        "setup_cmd": "%s mc/run.py setup" % PY,
        "hooks": {
            "guard": "PIQUASSO_VERIF",
            "enable": "no source hooks are needed: every seam is owned from the harness process (see DESIGN.md section 5); "
            "checks import /repo's working tree and rebuild the native kernels from /repo/src into /verif/build",
            "baseline_off_cmd": BASELINE_CMD,
            "source_commits": [],
            "add_only": True,
        },
        "engines": [
            {
                "name": "mc",
                "path": "/verif/mc",
                "serves_properties": sorted(CHECKS),
                "kind_free_text": "hand-written bounded-exhaustive explorer for Python: explicit-state lock-step search over real "
                "simulator steps, stateless choice-point enumeration of a harness-owned RNG, fault-point enumeration, "
                "schedule enumeration; reference models in mc/refmodel",
            }
        ],
        "checks": checks,
        "not_applicable": na,
        "notes": "All checks: /venv/bin/python mc/run.py <id> --tier quick|thorough, cwd=/verif. Exit 2 = harness/build error (never a violation). "
        "Known findings: /verif/known_findings.json.",
    }


def main():
    import jsonschema

    m = build()
    schema_path = "/root/.vp/MANIFEST.schema.json"
    if os.path.exists(schema_path):
        jsonschema.validate(m, json.load(open(schema_path)))
    with open(os.path.join(VERIF, "MANIFEST.json"), "w") as fh:
        json.dump(m, fh, indent=1)
        fh.write("\n")
    print("MANIFEST.json written: %d checks, %d not_applicable" % (len(m["checks"]), len(m["not_applicable"])))


if __name__ == "__main__":
    sys.exit(main())
