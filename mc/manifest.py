#!/venv/bin/python
"""Generates /verif/MANIFEST.json from the table below and validates it against the
schema.  Run after registering / unregistering a check:  /venv/bin/python mc/manifest.py"""

import json
import os
import sys

VERIF = os.path.dirname(os.path.dirname(os.path.abspath(__file__)))
PY = "/venv/bin/python"

BASELINE_CMD = (
    "cd /repo && /venv/bin/python -m pytest -ra -q -p no:cacheprovider --timeout=900 "
    "--continue-on-collection-errors"
)

# property -> (level, design_ref, technique, text, note)
CHECKS = {
    "C06": (
        "model_checking",
        "DESIGN.md 3/C06",
        "explicit-state enumeration of the basis via its successor function, every state ranked against a big-integer reference",
        "Every basis vector of every (d, cutoff) in the box (bosonic d<=7,c<=9; fermionic d<=10) is a state; every successor "
        "step of the implementation's enumeration is a transition validated against the reference successor; in every state "
        "scalar, vectorised and sub-space rank, key look-ups, index lists and dimension formulas are compared with an "
        "independent math.comb ranking. Exhaustive inside the box, plus the int32 frontier vectors per d.",
        "Trusted: Python big integers and math.comb; the box bounds; beyond the box only frontier vectors are examined.",
    ),
    "C02": (
        "model_checking",
        "DESIGN.md 2.6, 3/C02",
        "stateless exhaustive enumeration of every execution path of every sampler under a harness-owned RNG (choice points with exact probabilities, symbolic uniforms, Gauss-Hermite lattice answers for normal draws), path law compared with an independent exact Born law",
        "Every path of simulator.execute under the owned randomness is executed once on the real code with its exact probability; the sum of path "
        "probabilities per sample tuple must equal the exact outcome law of an independent reference (permanents on the unitary dilation, "
        "permutation-sum / internal-mode law, symplectic Gaussian reference, dense Fock reference) to 1e-9, explored mass must be 1, and sample "
        "tuples must have one entry per measured quantity in program order. Covers the passive samplers (lossless, uniform / non-uniform loss, "
        "post-selection, uniform and Gram-matrix overlap, marginal and projected paths), Fock / fermionic PNM, imperfect detectors, Gaussian "
        "threshold, general-dyne argument check, Gaussian PNM (d<=2) and Fock homodyne.",
        "Trusted: numpy.random.Generator.multivariate_normal / normal themselves (their arguments are checked), the reference laws in mc/refmodel, "
        "Gauss-Hermite quadrature (two orders must agree, else exit 2). Cells over the per-case path budget are counted, not explored.",
    ),
    "C15": (
        "exploration",
        "DESIGN.md 3/C15",
        "bounded-exhaustive enumeration of structured degenerate matrix families (all permutations x phase diagonals, all block sums, all symmetric matrices over {0,1,i}, all multiplicity patterns, all graphs on <=5 vertices) against reconstruction identities",
        "Every matrix of every structured family is decomposed by the library's own clements / takagi / williamson / euler / Graph code and the "
        "factors are checked: reconstruction to 1e-9*scale, unitarity, non-negativity, symplecticity, instruction lists executed on the passive and "
        "Fock simulators, weight-vector round trip, requested mean photon number. Exhaustive inside each family.",
        "Continuous parameters only on lattices plus a few seeded generic entries (which decide nothing alone); NumPy connector only.",
    ),
    "C17": (
        "model_checking",
        "DESIGN.md 3/C17",
        "lock-step explicit-state BFS over the two fermionic simulators and a Jordan-Wigner reference from all 2^d occupation inputs, invariants and agreement checked on every transition",
        "Roots are all 2^d number states; every action of a finite alphabet (Interferometer catalogue, Beamsplitter, Phaseshifter, Squeezing2, "
        "IsingXX on every window and every other ordered pair, GaussianHamiltonian lattice) is executed on both simulators through the public path "
        "and on a dense Jordan-Wigner reference; in every state covariance matrices, occupation probabilities, parity / particle-number "
        "conservation, exclusion and the correlation spectrum are compared (1e-9).",
        "Finite parameter catalogue; depth <= 2 (quick) / 3 (thorough); the reference fixes conventions where docstrings contradict each other "
        "(listed in the evidence assumptions).",
    ),
    "C19": (
        "model_checking",
        "DESIGN.md 3/C19",
        "explicit-state BFS over Qiskit circuits (state = classical-bit law + qubit state vector), every transition translated with dual_rail_encode_from_qiskit and executed with shots=None, joint law compared with a qubit state-vector reference",
        "Every circuit reachable within the depth bound over the supported gate set (incl. measure in any order, if_test / else blocks, multi-qubit "
        "blocks) is translated, executed exactly (shots=None) at two cutoffs, decoded on the code space and compared with the exact joint law of "
        "the qubit reference; tolerance 1e-9 without entangling gates and a derived KLM budget per entangling gate.",
        "At most 2 entangling gates per circuit and Fock dimension caps (by construction, reported); angles from a finite set; depth 3-4, not 8.",
    ),
}

NOT_APPLICABLE = {}

ALL = ["C%02d" % i for i in range(1, 21)]


def build():
    checks = []
    for pid in ALL:
        if pid not in CHECKS:
            continue
        level, ref, technique, text, note = CHECKS[pid]
        checks.append(
            {
                "property_id": pid,
                "quick_cmd": "%s mc/run.py %s --tier quick" % (PY, pid),
                "thorough_cmd": "%s mc/run.py %s --tier thorough" % (PY, pid),
                "evidence_file": "/verif/evidence/%s.json" % pid,
                "replay_cmd_template": "%s mc/run.py replay {path}" % PY,
                "engine": "mc",
                "level_claimed": {"category": level, "text": text, "design_ref": ref},
                "level_note": note,
                "technique": technique,
            }
        )
    na = []
    for pid in ALL:
        if pid in CHECKS:
            continue
        na.append({"property_id": pid, "reason": NOT_APPLICABLE.get(pid, "check not built yet in this tree (planned, see DESIGN.md section 3); not claimed")})
    return {
        "version": 1,
        "setup_cmd": "%s mc/run.py setup" % PY,
        "hooks": {
            "guard": "PIQUASSO_VERIF",
            "enable": "no source hooks are needed: every seam is owned from the harness process (see DESIGN.md section 5); "
            "checks import /repo's working tree and rebuild the native kernels from /repo/src into /verif/build",
            "baseline_off_cmd": BASELINE_CMD,
            "source_commits": [],
            "add_only": True,
        },
        "engines": [
            {
                "name": "mc",
                "path": "/verif/mc",
                "serves_properties": sorted(CHECKS),
                "kind_free_text": "hand-written bounded-exhaustive explorer for Python: explicit-state lock-step search over real "
                "simulator steps, stateless choice-point enumeration of a harness-owned RNG, fault-point enumeration, "
                "schedule enumeration; reference models in mc/refmodel",
            }
        ],
        "checks": checks,
        "not_applicable": na,
        "notes": "All checks: /venv/bin/python mc/run.py <id> --tier quick|thorough, cwd=/verif. Exit 2 = harness/build error (never a violation). "
        "Known findings: /verif/known_findings.json.",
    }


def main():
    import jsonschema

    m = build()
    schema_path = "/root/.vp/MANIFEST.schema.json"
    if os.path.exists(schema_path):
        jsonschema.validate(m, json.load(open(schema_path)))
    with open(os.path.join(VERIF, "MANIFEST.json"), "w") as fh:
        json.dump(m, fh, indent=1)
        fh.write("\n")
    print("MANIFEST.json written: %d checks, %d not_applicable" % (len(m["checks"]), len(m["not_applicable"])))


if __name__ == "__main__":
    sys.exit(main())
