#!/venv/bin/python
"""Generates /verif/MANIFEST.json from the table below and validates it against the
schema.  Run after registering / unregistering a check:  /venv/bin/python mc/manifest.py"""

import json
import os
import sys

VERIF = os.path.dirname(os.path.dirname(os.path.abspath(__file__)))
PY = "/venv/bin/python"

BASELINE_CMD = (
    "cd /repo && /venv/bin/python -m pytest -ra -q -p no:cacheprovider --timeout=900 "
    "--continue-on-collection-errors"
)

# property -> (level, design_ref, technique, text, note)
CHECKS = {
    "C06": (
        "model_checking",
        "DESIGN.md 3/C06",
        "explicit-state enumeration of the basis via its successor function, every state ranked against a big-integer reference",
        "Every basis vector of every (d, cutoff) in the box (bosonic d<=7,c<=9; fermionic d<=10) is a state; every successor "
        "step of the implementation's enumeration is a transition validated against the reference successor; in every state "
        "scalar, vectorised and sub-space rank, key look-ups, index lists and dimension formulas are compared with an "
        "independent math.comb ranking. Exhaustive inside the box, plus the int32 frontier vectors per d.",
        "Trusted: Python big integers and math.comb; the box bounds; beyond the box only frontier vectors are examined.",
    ),
    "C02": (
        "model_checking",
        "DESIGN.md 2.6, 3/C02",
        "stateless exhaustive enumeration of every execution path of every sampler under a harness-owned RNG (choice points with exact probabilities, symbolic uniforms, Gauss-Hermite lattice answers for normal draws), path law compared with an independent exact Born law",
        "Every path of simulator.execute under the owned randomness is executed once on the real code with its exact probability; the sum of path "
        "probabilities per sample tuple must equal the exact outcome law of an independent reference (permanents on the unitary dilation, "
        "permutation-sum / internal-mode law, symplectic Gaussian reference, dense Fock reference) to 1e-9, explored mass must be 1, and sample "
        "tuples must have one entry per measured quantity in program order. Covers the passive samplers (lossless, uniform / non-uniform loss, "
        "post-selection, uniform and Gram-matrix overlap, marginal and projected paths), Fock / fermionic PNM, imperfect detectors, Gaussian "
        "threshold, general-dyne argument check, Gaussian PNM (d<=2) and Fock homodyne.",
        "Trusted: numpy.random.Generator.multivariate_normal / normal themselves (their arguments are checked), the reference laws in mc/refmodel, "
        "Gauss-Hermite quadrature (two orders must agree, else exit 2). Cells over the per-case path budget are counted, not explored.",
    ),
    "C15": (
        "exploration",
        "DESIGN.md 3/C15",
        "bounded-exhaustive enumeration of structured degenerate matrix families (all permutations x phase diagonals, all block sums, all symmetric matrices over {0,1,i}, all multiplicity patterns, all graphs on <=5 vertices) against reconstruction identities",
        "Every matrix of every structured family is decomposed by the library's own clements / takagi / williamson / euler / Graph code and the "
        "factors are checked: reconstruction to 1e-9*scale, unitarity, non-negativity, symplecticity, instruction lists executed on the passive and "
        "Fock simulators, weight-vector round trip, requested mean photon number. Exhaustive inside each family.",
        "Continuous parameters only on lattices plus a few seeded generic entries (which decide nothing alone); NumPy connector only.",
    ),
    "C17": (
        "model_checking",
        "DESIGN.md 3/C17",
        "lock-step explicit-state BFS over the two fermionic simulators and a Jordan-Wigner reference from all 2^d occupation inputs, invariants and agreement checked on every transition",
        "Roots are all 2^d number states; every action of a finite alphabet (Interferometer catalogue, Beamsplitter, Phaseshifter, Squeezing2, "
        "IsingXX on every window and every other ordered pair, GaussianHamiltonian lattice) is executed on both simulators through the public path "
        "and on a dense Jordan-Wigner reference; in every state covariance matrices, occupation probabilities, parity / particle-number "
        "conservation, exclusion and the correlation spectrum are compared (1e-9); the particle-number samplers of both simulators are run on every "
        "path of their random draws (one shot, harness-owned generators) and their law is compared with the reference marginal.",
        "Finite parameter catalogue; depth <= 2 (quick) / 3 (thorough); the reference fixes conventions where docstrings contradict each other "
        "(listed in the evidence assumptions).",
    ),
    "C19": (
        "model_checking",
        "DESIGN.md 3/C19",
        "explicit-state BFS over Qiskit circuits (state = classical-bit law + qubit state vector), every transition translated with dual_rail_encode_from_qiskit and executed with shots=None, joint law compared with a qubit state-vector reference",
        "Every circuit reachable within the depth bound over the supported gate set (incl. measure in any order, if_test / else blocks, multi-qubit "
        "blocks) is translated, executed exactly (shots=None) at two cutoffs, decoded on the code space and compared with the exact joint law of "
        "the qubit reference; tolerance 1e-9 without entangling gates and a derived KLM budget per entangling gate.",
        "At most 2 entangling gates per circuit and Fock dimension caps (by construction, reported); angles from a finite set; depth 3-4, not 8.",
    ),
    "C01": (
        "model_checking",
        "DESIGN.md 2.4, 2.5, 3/C01",
        "lock-step explicit-state BFS over instruction sequences on four simulators (Gaussian, pure Fock, mixed Fock, passive) plus a dense reference, agreement checked on every transition on provably exact sectors",
        "Every instruction sequence up to the depth bound over a finite alphabet (every gate kind on every ORDERED mode tuple, generic parameters) "
        "from vacuum and all number-state roots with <= 2 photons is executed through the public path on every simulator that supports it, at "
        "cutoffs 1..4(5) and several hbar; pure/mixed/passive must agree on all components (1e-9), Gaussian vs Fock on the sectors an exactness "
        "tracker proves exact (1e-8); depth-1 transitions are also compared with a dense expm reference. The tracker is self-tested against a "
        "cutoff+6 run (failure = harness error, never a violation).",
        "Finite parameter catalogue (continuous parameters are not decided); depth 2-3; Gaussian<->Fock agreement is vacuous once a second active "
        "gate hits a mode (E = 0), which is intrinsic to truncation.",
    ),
    "C03": (
        "model_checking",
        "DESIGN.md 2.6, 3/C03",
        "exhaustive enumeration of outcome histories: every multiset of N outcomes at every categorical draw (harness-owned RNG), every shots=None outcome tree, every ordered set partition of the measured modes, against an exact reference projection model",
        "Adaptive programs (partial measurements on every ordered mode subset, post-selection, conditioned gates, outcome-dependent parameters) up "
        "to the depth bound on PureFock, Fock, Passive and fermionic PureFock simulators. shots=N: every path of the owned randomness is executed; "
        "sample counts, Fraction frequencies k/N, nested budgets and the drawn conditional laws are checked exactly. shots=None: branch weights, "
        "normalised branch states and sequential-vs-joint measurement over every ordered set partition are compared with the reference (1e-9). "
        "Gaussian general-dyne chain rule on a lattice of answers.",
        "Number-conserving gates only; lossy / distinguishable passive states not enumerated; shots N <= 3 (4 thorough).",
    ),
    "C04": (
        "exploration",
        "DESIGN.md 2.9, 3/C04",
        "bounded-exhaustive enumeration of multiplicity vectors x matrix alphabets x dtype x memory layout x entry point against exact rational-arithmetic references, plus the same vectors through ASan/UBSan builds of the unmodified native sources",
        "Every (rows, cols) multiplicity pair up to the tier total on 1x1..8x8, every occupation vector for the (loop) hafnians and their batched "
        "variants, torontonians up to 5(6) modes, all small antisymmetric integer matrices for the Pfaffian, through the pybind modules (float32 / "
        "float64, C / F / strided / negative-stride / read-only views), the connectors and the JAX entry points; values compared with exact "
        "references (1e-9 relative to the natural rounding scale), and every sanitizer report of the standalone drivers is a violation.",
        "Matrix entries from exactly representable alphabets (structured + a few seeded generic ones); float32 only for small totals; the Gray-code "
        "offset truncation above 2^31 addends is out of budget.",
    ),
    "C05": (
        "model_checking",
        "DESIGN.md 3/C05",
        "explicit-state search over PassiveState configurations (input pattern x passive gates x loss x post-selection x distinguishability), four probability interfaces compared with each other and with an independent unitary-dilation reference in every state",
        "Every program in a union of stated boxes (all compositions of n<=3(4) photons on d<=3(4) modes incl. bunched, gates on every ordered "
        "tuple, per-mode / uniform / matrix loss incl. complex, every post-selection pattern, overlaps and Gram matrices) is executed through "
        "PassiveSimulator; in every distinct state single-outcome probabilities, the table, the map, |state_vector|^2, every ordered marginal "
        "(method and shots=None measurement path) are compared mutually and with the dilation reference (three independent routes), non-negativity "
        "and normalisation included.",
        "Union of boxes rather than the full depth-3 product; NumPy connector; unsupported cells (NotImplementedCalculation) are counted.",
    ),
    "C07": (
        "exploration",
        "DESIGN.md 3/C07",
        "bounded-exhaustive grid: every linear gate class x 13-point lattice per parameter x every ordered mode tuple x hbar x base states, against a symplectic reference written from the documented matrices; polynomial-degree argument for sufficiency of the lattice",
        "For every gate class with passive/active blocks: blocks equal the documented ones, are symplectic (unitary for passive gates), the Gaussian "
        "simulator's result equals the congruence by the harness-embedded symplectic matrix on every ordered mode tuple (d<=3, 5 thorough) and four "
        "hbar values, displacements shift by sqrt(2 hbar) alpha, and the four documented identities and depth-2 compositions hold on the whole "
        "lattice.",
        "'For all real parameters' is decided only under the assumption that block entries are low-degree (trigonometric / hyperbolic) polynomials "
        "of the parameters without parameter-dependent branching (DESIGN 3/C07).",
    ),
    "C08": (
        "model_checking",
        "DESIGN.md 3/C08",
        "explicit-state BFS per simulator with physicality invariants evaluated on every reached state, including channels, post-measurement (shots=None) and post-selected branch states and general-dyne conditional states on an outcome lattice",
        "Every state reached by the alphabets of C01 / C05 / C17 plus channels is checked: Gaussian covariance real, symmetric, uncertainty relation; "
        "purity in (0,1] and 1 on unitary histories; mixed-Fock Hermiticity, positivity, trace <= 1; pure-Fock norm preserved by number-conserving "
        "gates; every reported probability in [0,1]; fermionic spectra; validate() on normalised states. The predicates are self-tested on planted "
        "unphysical states.",
        "Finite alphabets and depth; crashes of interfaces are counted (they belong to C13), not reported here.",
    ),
    "C09": (
        "model_checking",
        "DESIGN.md 3/C09",
        "lock-step explicit-state BFS whose implementations are the same simulator under NumPy / TensorFlow (eager, tf.function) / JAX (eager, jit); state and observables compared on every transition; connector-level linear algebra on a matrix catalogue",
        "Every transition of the explored programs is executed under every connector mode the simulator accepts and compared with the NumPy result "
        "(state vector incl. phase, probabilities, Gaussian moments and observables, fermionic covariance) at 1e-9; compiled variants re-run whole "
        "histories with traced parameters; polar / svd / schur / sqrtm / logm / expm / permanent / hafnian shims are compared with NumPy/SciPy on a "
        "catalogue (unique results directly, non-unique factors by reconstruction).",
        "Small depth (quick: d<=2); tracing refusals are unsupported cells; float64 only.",
    ),
    "C10": (
        "exploration",
        "DESIGN.md 3/C10",
        "exhaustive circuit shapes x parameter lattice x AD mode, Jacobians from TensorFlow / JAX compared with Richardson-extrapolated central differences of the NumPy simulation",
        "Every sequence up to depth 2 over the differentiable gate alphabet on every ordered mode tuple, every parameter on a 5-point lattice, all "
        "outputs (Fock probabilities, mean photon number, mean position, norm), TF eager with custom gradients, TF default pfor path, tf.function, "
        "jax jit; batched states; jax_extensions.perm for every multiplicity pair up to total 4; tolerance 1e-6(1+|g|), finite-difference points "
        "that are not smooth are counted and skipped.",
        "Parameter lattice in a bounded box; finite differences as oracle (second extrapolation must agree); JAX cannot differentiate Euler-route "
        "gates (unsupported cells).",
    ),
    "C11": (
        "model_checking",
        "DESIGN.md 2.8, 3/C11",
        "exhaustive histories (<=2 intruder events in every slot), exhaustive dask task orders and <=2-preemption interleavings under a harness-owned scheduler, every job count / team size / thread order of the native permanent through an interposed hardware_concurrency and a GOMP shim, TSan on the free-running build, numba thread counts 1..16",
        "Seeded sampling programs on every simulator must return byte-identical samples and branches for every placement of up to two intruder "
        "events (other Configs, other runs, global RNG use, as_code, validate); use_dask=True must equal use_dask=False for every task order and "
        "bounded-preemption interleaving; different seeds must give different 64-shot sequences where the law has >= 1 bit of min-entropy; "
        "deterministic kernels must agree across all partitions and thread counts (1e-12 relative) and with the exact reference.",
        "Weak memory orderings are not modelled; numba prange races are only found by free-running repetition (probabilistic, re-confirmed before "
        "reporting); preemption points only at calls on the shared generators.",
    ),
    "C12": (
        "fault_enumeration",
        "DESIGN.md 2.7, 3/C12",
        "exhaustive fault injection: an exception at every (instruction position, stage, branch visit) and at every line event of the API layer (sys.settrace), object-graph snapshot equality before/after, re-execution equality",
        "Adaptive programs (string / callable parameters, conditions, all-modes instructions, remapped modes after mid-circuit measurements, nested "
        "registration) on four simulators x operations (execute, execute_instructions, validate, copy, as_code, blackbird export, nesting); after "
        "every faulted or fault-free run the caller's Program, instruction modes / params / conditions, initial_state, Config and arrays must be "
        "unchanged and a re-execution must equal a fresh one; every connector matrix function on C / F / strided / read-only arrays must leave "
        "its argument bytes unchanged.",
        "Line-level faults only in the API-layer files; asynchronous exceptions inside finally blocks out of scope; NumPy connector.",
    ),
    "C13": (
        "model_checking",
        "DESIGN.md 3/C13",
        "exhaustive single-fault mutation of every valid base program (reject side, with a step counter on every simulation step) and exhaustive documented-support matrix plus every shots=None outcome history (accept side)",
        "Reject: every structural or documented parameter violation, one at a time at every position of every base program of six simulators, must "
        "raise a Piquasso exception with zero completed simulation steps and no Result. Accept: every instruction in each simulator's docstring "
        "support lists x d x cutoff 1..4(5) x placements must execute, and adaptive shots=None programs must run on every outcome branch down to "
        "cutoff 1.",
        "'Before any evolution' is decided by completed steps; documented promises were extracted by hand into a table (file:line recorded).",
    ),
    "C14": (
        "model_checking",
        "DESIGN.md 3/C14",
        "lock-step BFS of the Gaussian simulator at four hbar values; in every state cross-hbar invariance / scaling of all observables and consistency of all representations, setters/getters, reduce/rotate against a symplectic reference",
        "Every Gaussian program up to the depth bound (all gates on ordered tuples, preparations, channels) is executed at hbar in {0.5,1,2,3.7}; "
        "means scale with sqrt(hbar), covariances with hbar; photon statistics, purity, fidelity, parity, phase-shifter expectations (distinct "
        "angles), threshold probabilities, density matrix are hbar independent and equal closed-form reference values where available; xpxp / xxpp "
        "/ complex / (m,C,G) representations, setters, reduced and rotated agree with the reference conversions; ordered moments up to length 3.",
        "Finite alphabets; fidelity tolerance 1e-6 (measured library spread 8e-8 from sqrt(w^2-1) at w~1).",
    ),
    "C16": (
        "model_checking",
        "DESIGN.md 3/C16",
        "metamorphic relations on every explored transition: all d! relabellings of the program executed in lock-step, and both orders of every pair of alphabet actions with disjoint supports",
        "For every explored program and every permutation of the mode labels the relabelled program must give the correspondingly permuted state, "
        "shots=None outcome maps and branch states (all simulators); every disjoint pair of actions must commute (all components on Gaussian, "
        "passive, fermionic Gaussian; number-conserving pairs or exact sectors on the Fock simulators).",
        "Finite alphabets and depth; the fermionic Fock simulator refuses most non-window relabellings (counted).",
    ),
    "C18": (
        "exploration",
        "DESIGN.md 3/C18",
        "bounded-exhaustive round trips (Blackbird, as_code, from_dict, copy), every injective register map for nesting, every expression tree with <=4(5) leaves for the preparation algebra, against dict-arithmetic references",
        "Every program over the exportable classes x float lattice x ordered mode tuples round-trips through Blackbird text; as_code output is "
        "exec'd and must reproduce types, modes, bit-exact params, Config and result for every Config field combination of size <= 2; nesting "
        "through every injective register map up to depth 3; every +, c*, *c, /c tree over NumberState / StateVector / FockStateVector leaves equals "
        "the reference linear combination.",
        "Default connector only; fermionic as_code not covered.",
    ),
    "C20": (
        "exploration",
        "DESIGN.md 3/C20",
        "bounded-exhaustive enumeration of expression ASTs (by depth and leaf count) x outcome tuples against CPython eval, and every single-token hostile mutation with a canary",
        "Every AST of the supported grammar in the stated families is unparsed, accepted and evaluated on every outcome tuple of length <= 3(4) over "
        "{0,1,2} (+ float and NumPy variants) and must equal Python's value / truthiness / exception type; every single-token mutation by a hostile "
        "token and a corpus of hostile strings must be rejected at construction without any canary (builtin, global, import hook, attribute) firing; "
        "the same through Instruction.when and string parameters.",
        "Families bounded by leaf count, not pure depth; operators outside the documented list are accepted only if they mean what Python means.",
    ),
}

NOT_APPLICABLE = {}

ALL = ["C%02d" % i for i in range(1, 21)]


def build():
    checks = []
    for pid in ALL:
        if pid not in CHECKS:
            continue
        level, ref, technique, text, note = CHECKS[pid]
        checks.append(
            {
                "property_id": pid,
                "quick_cmd": "%s mc/run.py %s --tier quick" % (PY, pid),
                "thorough_cmd": "%s mc/run.py %s --tier thorough" % (PY, pid),
                "evidence_file": "/verif/evidence/%s.json" % pid,
                "replay_cmd_template": "%s mc/run.py replay {path}" % PY,
                "engine": "mc",
                "level_claimed": {"category": level, "text": text, "design_ref": ref},
                "level_note": note,
                "technique": technique,
            }
        )
    na = []
    for pid in ALL:
        if pid in CHECKS:
            continue
        na.append({"property_id": pid, "reason": NOT_APPLICABLE.get(pid, "check not built yet in this tree (planned, see DESIGN.md section 3); not claimed")})
    return {
        "version": 1,
        "setup_cmd": "%s mc/run.py setup" % PY,
        "hooks": {
            "guard": "PIQUASSO_VERIF",
            "enable": "no source hooks are needed: every seam is owned from the harness process (see DESIGN.md section 5); "
            "checks import /repo's working tree and rebuild the native kernels from /repo/src into /verif/build",
            "baseline_off_cmd": BASELINE_CMD,
            "source_commits": [],
            "add_only": True,
        },
        "engines": [
            {
                "name": "mc",
                "path": "/verif/mc",
                "serves_properties": sorted(CHECKS),
                "kind_free_text": "hand-written bounded-exhaustive explorer for Python: explicit-state lock-step search over real "
                "simulator steps, stateless choice-point enumeration of a harness-owned RNG, fault-point enumeration, "
                "schedule enumeration; reference models in mc/refmodel",
            }
        ],
        "checks": checks,
        "not_applicable": na,
        "notes": "All checks: /venv/bin/python mc/run.py <id> --tier quick|thorough, cwd=/verif. Exit 2 = harness/build error (never a violation). "
        "Known findings: /verif/known_findings.json.",
    }


def main():
    import jsonschema

    m = build()
    schema_path = "/root/.vp/MANIFEST.schema.json"
    if os.path.exists(schema_path):
        jsonschema.validate(m, json.load(open(schema_path)))
    with open(os.path.join(VERIF, "MANIFEST.json"), "w") as fh:
        json.dump(m, fh, indent=1)
        fh.write("\n")
    print("MANIFEST.json written: %d checks, %d not_applicable" % (len(m["checks"]), len(m["not_applicable"])))


if __name__ == "__main__":
    sys.exit(main())
