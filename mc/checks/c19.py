"""C19 -- dual-rail translation preserves qubit-circuit statistics.

Explicit-state BFS over Qiskit circuits.  A *state* is the canonical (rounded, phase-fixed)
collection of classical histories of the qubit reference model -- {classical bits -> unnormalised
qubit state vector} -- together with the order in which qubits were measured and the number of
entangling gates used so far; circuits with equal action are merged.  A *transition* appends one
action (gate / measure of any unmeasured qubit / if_test block with one gate, with an else block, or
with one gate on each of two qubits) to the representative circuit of a state.  Every transition,
merged or not, is executed on the implementation:

    circuit -> qiskit.QuantumCircuit -> dual_rail_encode_from_qiskit -> PureFockSimulator(shots=None)
            -> branch weights x Fock probabilities of the branch state
            -> post-selected on the dual-rail code space (heralding is part of the program) -> renormalised

at the Fock cutoff photons+1 and photons+3, and the law of (classical bits, computational-basis
outcome of the unmeasured qubits) is compared with the 30-line qubit simulator
mc/refmodel/qubitref.py.  The BFS itself runs on the reference only (parent process); workers
execute the transitions.  Tolerance: 1e-9 without entangling gates; with k heralded CZ/CX the bound
derived in mc/refmodel/klmref.py from the library's two-decimal KLM angles.  A small exhaustive
"variants" family adds what the BFS alphabet does not contain (every qubit->clbit map and
measurement order, entangling gate inside a block, gate on a measured qubit, and a classical bit
that is written by TWO measurements of different qubits -- in every order, into every bit, with
conditions after and between the two writes: Qiskit evaluates an if_test on the value the bit holds
at that moment, i.e. the one written by the latest preceding measurement).

A failure is reported only if the parent circuit of the BFS does not fail in the same way, with a
signature made of structural attributes: sub (law / crash / translate_crash), input_class
(no_condition, gate_after_mid_measure, cond[<features of the conditioned blocks>], branch_cutoff<=2),
entangling gates used and the kind of the last action.
"""

import math

LEVEL = "model_checking"

ENT_CAP = 2  # at most two heralded CZ/CX per circuit (each adds 2 modes + 2 photons)
DIM_CAP = 20000  # Create() builds a dense (lazily zeroed) dim x dim operator: cap the Fock dimension by construction
DIM_CAP_MEASURE = 3500  # ParticleNumberMeasurement materialises the dim x dim density matrix (16 B x dim^2, several copies)
ISCLOSE_ATOL = 1e-8  # piquasso._utils.sample_from_probability_map(shots=None) drops p with np.isclose(p, 0)


# ---------------------------------------------------------------------------------------
# alphabets


def angles(seed):
    """pi/2 plus two generic angles; VERIF_SEED only moves the generic ones."""
    return (math.pi / 2, 0.37 + 0.013 * seed, -1.1 - 0.017 * seed)


def single_qubit_alphabet(q, mode, ang):
    ops = [[g, q] for g in "hxyz"]
    if mode == "full":  # 4 + 12 + 27
        ops += [[g, q, t] for g in ("rx", "ry", "rz", "p") for t in ang]
        ops += [["u", q, a, b, c] for a in ang for b in ang for c in ang]
    elif mode == "mid":  # 4 + 12 + the 6 assignments of three distinct angles to (theta, phi, lam)
        ops += [[g, q, t] for g in ("rx", "ry", "rz", "p") for t in ang]
        ops += [["u", q, ang[i], ang[j], ang[k]] for i in range(3) for j in range(3) for k in range(3) if len({i, j, k}) == 3]
    elif mode == "tiny":
        return [["h", q], ["x", q], ["ry", q, ang[1]]]
    elif mode == "small":  # 4 + one angle per rotation kind + one u
        ops += [["rx", q, ang[0]], ["ry", q, ang[1]], ["rz", q, ang[2]], ["p", q, ang[1]], ["u", q, ang[0], ang[1], ang[2]]]
    else:
        raise ValueError(mode)
    return ops


def actions(n, kent, morder, mode, cmode, ang):
    un = [q for q in range(n) if q not in morder]
    acts = []
    for q in un:
        acts += single_qubit_alphabet(q, mode, ang)
    if kent < ENT_CAP:
        for a in un:
            for b in un:
                if a != b:
                    acts += [["cz", a, b], ["cx", a, b]]
    for q in un:
        acts.append(["measure", q, q])
    for c in morder:  # classical bit c was written by `measure q=c`
        for v in (0, 1):
            for q in un:
                alpha = single_qubit_alphabet(q, cmode, ang)
                for i, g in enumerate(alpha):
                    acts.append(["if", c, v, [g]])
                    # if / else: a different gate of the same alphabet in the else block
                    acts.append(["ifelse", c, v, [g], [alpha[(i + 3) % len(alpha)]]])
            for q1 in un:  # one block acting on two different qubits
                for q2 in un:
                    if q1 != q2:
                        a1, a2 = single_qubit_alphabet(q1, cmode, ang), single_qubit_alphabet(q2, cmode, ang)
                        for i, g in enumerate(a1):
                            acts.append(["if", c, v, [g, a2[(i + 4) % len(a2)]]])
    return acts


# (lead) quick shrunk to the "mid"/"small" alphabets: the former quick spaces (n1d3 full, n2d3 mid) cost ~25 CPU-min
# (big Fock spaces, 2 cutoffs per transition); both are contained in the thorough tier (n1d3, n2d3f)
QUICK = [("n1d3s", 1, 3, "mid", "small"), ("n2d3s", 2, 3, "small", "small")]
THOROUGH = [
    ("n1d3", 1, 3, "full", "full"),
    ("n1d4", 1, 4, "mid", "small"),
    ("n2d3f", 2, 3, "full", "small"),
    ("n2d4", 2, 4, "small", "small"),
    ("n3d2m", 3, 2, "mid", "small"),
    ("n3d3", 3, 3, "small", "small"),
]
# development aids (mutation testing with --only name[,name...]): sub-spaces of the tiers above
DEV = [
    ("n1d3s", 1, 3, "mid", "small"),
    ("n2d2", 2, 2, "mid", "small"),
    ("n2d3s", 2, 3, "small", "small"),
    ("n2d3t", 2, 3, "tiny", "tiny"),
    ("n3d2", 3, 2, "small", "small"),
]


def spaces(tier, only=None):
    """(name, qubits, depth, alphabet of plain gates, alphabet of conditioned gates)."""
    if only:
        names = [n.split("@")[0] for n in only.split(",")]
        pool = {sp[0]: sp for sp in DEV + THOROUGH + QUICK}
        return [pool[n] for n in names if n in pool]
    return QUICK if tier == "quick" else THOROUGH


# ---------------------------------------------------------------------------------------
# reference side: canonical state key, BFS


def _features(circ):
    ops = circ["ops"]
    kent = sum(1 for op in ops if op[0] in ("cz", "cx"))
    morder = [op[1] for op in ops if op[0] == "measure"]
    return kent, morder


def state_key(circ, branches=None):
    import numpy as np
    from mc.refmodel import qubitref as Q

    kent, morder = _features(circ)
    items = []
    for bits, psi in branches if branches is not None else Q.run(circ):
        nz = np.nonzero(np.abs(psi) > 1e-7)[0]
        ph = psi[nz[0]] / abs(psi[nz[0]])  # branches never interfere: a phase per branch is unobservable
        v = np.round(psi / ph, 7) + 0.0
        items.append((str(bits), tuple(v.real.tolist()), tuple(v.imag.tolist())))
    return repr((circ["n"], kent, tuple(morder), tuple(sorted(items))))


def bfs(space, ang):
    """Reference-only BFS.  Returns (transitions as op lists, number of expanded states, per-depth sizes)."""
    name, n, depth, mode, cmode = space
    seen = {state_key({"n": n, "ops": []})}
    frontier = [[]]
    transitions = []
    layers = []
    for d in range(1, depth + 1):
        nxt = []
        for ops in frontier:
            kent, morder = _features({"n": n, "ops": ops})
            for a in actions(n, kent, morder, mode, cmode, ang):
                ops2 = ops + [a]
                transitions.append(ops2)
                if d == depth:
                    continue
                k = state_key({"n": n, "ops": ops2})
                if k not in seen:
                    seen.add(k)
                    nxt.append(ops2)
        layers.append(len(nxt))
        frontier = nxt
    return transitions, len(seen), layers


def variants(ang):
    """Structural variants of measurement + conditioned block that the BFS alphabet does not contain:
    every ordered subset of measured qubits x every injective qubit->clbit map x every condition
    (bit, value) x conditioned x on every unmeasured qubit; if/else bodies; two-gate bodies on two
    qubits; an entangling gate inside a body; a gate on an already measured qubit."""
    import itertools

    out = []
    for n in (2, 3):
        prep = [["ry", q, ang[1] + 0.2 * q] for q in range(n)]
        for r in range(1, n):
            for subset in itertools.permutations(range(n), r):
                for cl in itertools.permutations(range(n), r):
                    meas = [["measure", q, c] for q, c in zip(subset, cl)]
                    un = [q for q in range(n) if q not in subset]
                    for c in cl:
                        for v in (0, 1):
                            for q in un:
                                out.append(("map", {"n": n, "ops": prep + meas + [["if", c, v, [["x", q]]]]}))
    for v in (0, 1):
        out.append(("else_body", {"n": 2, "ops": [["h", 0], ["measure", 0, 0], ["ifelse", 0, v, [["x", 1]], [["h", 1]]]]}))
        out.append(("else_body", {"n": 2, "ops": [["ry", 0, ang[1]], ["measure", 0, 0], ["ifelse", 0, v, [["ry", 1, ang[2]]], [["rx", 1, ang[0]]]]]}))
        out.append(("body_two_qubits", {"n": 3, "ops": [["h", 0], ["measure", 0, 0], ["if", 0, v, [["x", 1], ["x", 2]]]]}))
        out.append(("body_two_qubits", {"n": 3, "ops": [["h", 0], ["measure", 0, 0], ["if", 0, v, [["ry", 2, ang[1]], ["h", 1]]]]}))
        out.append(("body_entangling", {"n": 3, "ops": [["h", 0], ["h", 1], ["h", 2], ["measure", 0, 0], ["if", 0, v, [["cz", 1, 2]]], ["h", 2]]}))
    # the SAME classical bit written by two measurements of different qubits (a later measurement overwrites the bit): 3 qubits
    # in a product of three different superpositions (P(1) all different, so that no two outcomes are correlated or equally
    # distributed), every ordered pair (qa, qb) of measured qubits, every classical bit, every condition value, gate on the third
    prep3 = [["ry", q, ang[1] + 0.5 + 0.45 * q] for q in range(3)]
    for qa, qb in itertools.permutations(range(3), 2):
        (t,) = [q for q in range(3) if q not in (qa, qb)]
        for c in range(3):
            two = [["measure", qa, c], ["measure", qb, c]]
            for v in (0, 1):
                # condition after both writes: must read qb's outcome
                out.append(("bit_written_twice", {"n": 3, "ops": prep3 + two + [["if", c, v, [["x", t]]]]}))
                # a condition between the writes (reads qa's outcome) and one after them (reads qb's), non-commuting bodies
                out.append(("bit_written_twice", {"n": 3, "ops": prep3 + [two[0], ["if", c, v, [["x", t]]], two[1], ["if", c, 1, [["ry", t, ang[2]]]]]}))
            out.append(("bit_written_twice", {"n": 3, "ops": prep3 + two + [["ifelse", c, 1, [["x", t]], [["h", t]]]]}))
    out.append(("gate_after_measure", {"n": 1, "ops": [["h", 0], ["measure", 0, 0], ["x", 0]]}))
    out.append(("gate_after_measure", {"n": 2, "ops": [["h", 0], ["measure", 0, 0], ["cz", 0, 1]]}))
    return out


# ---------------------------------------------------------------------------------------
# classification of a circuit (stable attributes for signatures)


def cond_features(circ):
    """Stable structural attributes of the conditioned blocks of a circuit.

    The simulator hands conditions the tuple of all outcomes in *measurement order*, two entries per
    measured qubit.  'bit_not_at_position': some condition reads a clbit c whose writing measurement is not
    the c-th measurement of the program; 'bit_written_twice': some condition reads a clbit that two or more
    preceding measurements have written (the latest one counts; 'bit_not_at_position' is then not reported,
    "the" position of the bit being the very thing in question); 'else_body', 'two_qubit_body',
    'entangling_body' as named."""
    written = {}  # clbit -> positions (in measurement order) of the measurements that wrote it so far
    count = 0
    feats = set()
    any_cond = False
    for op in circ["ops"]:
        if op[0] == "measure":
            written.setdefault(op[2], []).append(count)
            count += 1
        elif op[0] in ("if", "ifelse"):
            any_cond = True
            pos = written.get(op[1], [])
            if len(pos) > 1:
                feats.add("bit_written_twice")
            elif pos != [op[1]]:
                feats.add("bit_not_at_position")
            bodies = [op[3]] + ([op[4]] if op[0] == "ifelse" else [])
            if op[0] == "ifelse" and op[4]:
                feats.add("else_body")
            for body in bodies:
                if any(g[0] in ("cz", "cx") for g in body):
                    feats.add("entangling_body")
                elif len({g[1] for g in body}) > 1:
                    feats.add("two_qubit_body")
    if "bit_written_twice" in feats:
        feats.discard("bit_not_at_position")
    return any_cond, sorted(feats)


def input_class(circ, kind=None):
    if kind == "gate_after_measure":
        return kind
    any_cond, feats = cond_features(circ)
    if any_cond:
        return "cond[%s]" % (",".join(feats) if feats else "plain")
    seen_measure = False
    for op in circ["ops"]:
        if op[0] == "measure":
            seen_measure = True
        elif seen_measure:
            return "gate_after_mid_measure"
    return "no_condition"


def ent_class(circ):
    s = sorted({op[0] for op in circ["ops"] if op[0] in ("cz", "cx")})
    return "+".join(s) if s else "none"


def min_branch_cutoff_at_gate(circ, cutoff):
    """Smallest Fock cutoff of a branch on which a gate is applied (each code-space measurement of a
    qubit removes one photon and lowers the branch cutoff by one)."""
    measured = 0
    best = cutoff
    for op in circ["ops"]:
        if op[0] == "measure":
            measured += 1
        elif measured:
            best = min(best, cutoff - measured)
    return best


def action_name(op):
    return {"if": "if_test", "ifelse": "if_else"}.get(op[0], op[0])


# ---------------------------------------------------------------------------------------
# implementation side


class Crash(Exception):
    def __init__(self, stage, exc):
        self.stage = stage
        self.exc = exc


class Unsupported(Exception):
    pass


def photons_modes(circ):
    def count(ops):
        k = 0
        for op in ops:
            if op[0] in ("cz", "cx"):
                k += 1
        return k

    k = count(circ["ops"])  # the translator only counts top-level entangling gates
    return circ["n"] + 2 * k, 2 * circ["n"] + 2 * k, k


def fock_dim(d, cutoff):
    return math.comb(d + cutoff - 1, d)


def _has_measure(ops):
    return any(op[0] == "measure" for op in ops)


def measure_dim(circ, cutoff):
    """Largest Fock dimension of a branch state on which a ParticleNumberMeasurement is executed (each
    heralding post-selection before it has removed two modes, each earlier measurement two modes and
    one unit of cutoff)."""
    _, d, _ = photons_modes(circ)
    best = 0
    for op in circ["ops"]:
        if op[0] in ("cz", "cx"):
            d -= 2
        elif op[0] == "measure":
            best = max(best, fock_dim(d, cutoff))
            d -= 2
            cutoff -= 1
    return best


def cutoffs_for(circ):
    photons, d, _ = photons_modes(circ)
    return [c for c in (photons + 1, photons + 3) if fock_dim(d, c) <= DIM_CAP and measure_dim(circ, c) <= DIM_CAP_MEASURE]


def impl_law(circ, cutoff):
    """Unnormalised weights {(bits, final): w} on the code space, the non-code weight, and the list of
    non-code outcomes seen.  bits[c] = decoded value of the measurement that wrote clbit c."""
    import piquasso as pq
    from piquasso.dual_rail_encoding import dual_rail_encode_from_qiskit
    from mc.refmodel import qubitref as Q

    n = circ["n"]
    nc = circ.get("nc", n)
    _, d, _ = photons_modes(circ)
    qc = Q.to_qiskit(circ)
    try:
        prog = dual_rail_encode_from_qiskit(qc)
    except NotImplementedError as e:
        raise Unsupported(repr(e))
    except ValueError as e:
        if "Unsupported instruction" in str(e):  # the translator's documented refusal
            raise Unsupported(repr(e))
        raise Crash("translate", e)
    except Exception as e:
        raise Crash("translate", e)
    try:
        sim = pq.PureFockSimulator(d=d, config=pq.Config(cutoff=cutoff))
        res = sim.execute(prog, shots=None)
    except (NotImplementedError, pq.api.exceptions.NotImplementedCalculation) as e:
        raise Unsupported(repr(e))
    except Exception as e:
        raise Crash("execute", e)
    measures = [(op[1], op[2]) for op in circ["ops"] if op[0] == "measure"]
    unmeasured = [q for q in range(n) if q not in [m[0] for m in measures]]
    code = {(1, 0): 0, (0, 1): 1}
    weights = {}
    noncode = 0.0
    shape_problem = None
    for b in res.branches:
        w = float(b.frequency)
        outcome = tuple(int(x) for x in b.outcome)
        if len(outcome) != 2 * len(measures):
            shape_problem = "branch outcome %r has %d entries, %d measured qubits" % (outcome, len(outcome), len(measures))
            continue
        bits = [None] * nc
        ok = True
        for j, (q, c) in enumerate(measures):
            v = code.get(outcome[2 * j: 2 * j + 2])
            if v is None:
                ok = False
                break
            bits[c] = v
        if not ok:
            noncode += w
            continue
        bits = tuple(bits)
        state = b.state
        if state is None or getattr(state, "d", 0) == 0:
            if unmeasured:
                shape_problem = "no final state although qubits %r are unmeasured" % (unmeasured,)
                continue
            weights[(bits, ())] = weights.get((bits, ()), 0.0) + w
            continue
        if state.d != 2 * len(unmeasured):
            shape_problem = "final state on %d modes, expected %d" % (state.d, 2 * len(unmeasured))
            continue
        for occ, p in state.fock_probabilities_map.items():
            p = float(p)
            if p == 0.0:
                continue
            occ = tuple(int(x) for x in occ)
            fin = []
            for j in range(len(unmeasured)):
                v = code.get(occ[2 * j: 2 * j + 2])
                if v is None:
                    fin = None
                    break
                fin.append(v)
            if fin is None:
                noncode += w * p
                continue
            key = (bits, tuple(fin))
            weights[key] = weights.get(key, 0.0) + w * p
    return weights, noncode, shape_problem


def compare(circ, cutoff, ref_law, klm):
    """Returns None if the implementation's law equals the reference law within the derived tolerance,
    else a JSON-able description."""
    from mc.refmodel import klmref

    weights, noncode, shape_problem = impl_law(circ, cutoff)
    if shape_problem:
        return {"kind": "shape", "detail": shape_problem}
    total = sum(weights.values())
    if not total > 0:
        return {"kind": "empty", "detail": "no weight on the dual-rail code space (non-code weight %g)" % noncode}
    _, _, k = photons_modes(circ)
    n_meas = sum(1 for op in circ["ops"] if op[0] == "measure")
    possible = {o for o, p in ref_law.items() if p > 1e-14}
    missing = [o for o in possible if o not in weights]
    drop = (len(missing) * ISCLOSE_ATOL / total) if n_meas else 0.0
    if k:
        dd = klmref.law_tolerance_d(k, klm["eps_code"], klm["eps_leak"], klm["c"])
    worst = None
    for o in sorted(set(ref_law) | set(weights), key=repr):
        p_ref = ref_law.get(o, 0.0)
        p_impl = weights.get(o, 0.0) / total
        tol = 1e-9 + 1e-9 * max(p_ref, p_impl) + drop * (1 + p_ref)
        if k:
            tol += (2 * dd + dd * dd) * (1 + p_ref) / (1 - dd) ** 2
        err = abs(p_impl - p_ref)
        if err > tol and (worst is None or err / tol > worst["err"] / worst["tol"]):
            worst = {"outcome": repr(o), "impl": p_impl, "ref": p_ref, "err": err, "tol": tol}
    if worst is None:
        return None
    worst.update(kind="law", code_weight=total, noncode_weight=noncode,
                 impl_law={repr(o): w / total for o, w in sorted(weights.items(), key=repr)},
                 reference_law={repr(o): p for o, p in sorted(ref_law.items(), key=repr)})
    return worst


def judge(circ, cutoff, klm, ref_law=None):
    """One execution -> ('ok', None) | ('unsupported', text) | ('law', info) | ('crash', info)."""
    from mc.refmodel import qubitref as Q

    if ref_law is None:
        measured = [op[1] for op in circ["ops"] if op[0] == "measure"]
        ref_law = Q.joint_law(circ, [q for q in range(circ["n"]) if q not in measured])
    try:
        bad = compare(circ, cutoff, ref_law, klm)
    except Unsupported as e:
        return "unsupported", str(e)
    except Crash as c:
        import re

        return "crash", {"stage": c.stage, "exc": type(c.exc).__name__, "text": re.sub(r"0x[0-9a-fA-F]+", "0x..", str(c.exc))[:300]}
    if bad is None:
        return "ok", None
    return "law", bad


def _same(a, b):
    if a[0] != b[0]:
        return False
    if a[0] == "law":
        return a[1]["kind"] == b[1]["kind"] and abs(a[1].get("impl", 0) - b[1].get("impl", 0)) <= 1e-12
    if a[0] == "crash":
        return a[1]["exc"] == b[1]["exc"] and a[1]["stage"] == b[1]["stage"]
    return True


def check_circuit(ctx, circ, cutoff, klm, kind=None, parent_ops=None, ref_law=None):
    """Execute, compare, and report a violation (after a deterministic second run; not if the parent
    circuit of the BFS already fails in the same way)."""
    from mc import core

    ctx.count("executions")
    verdict = judge(circ, cutoff, klm, ref_law)
    if verdict[0] == "ok":
        return verdict
    if verdict[0] == "unsupported":
        ctx.count("unsupported_cells")
        return verdict
    again = judge(circ, cutoff, klm, ref_law)
    if not _same(verdict, again):
        raise core.HarnessError("HARNESS-NONDETERMINISM C19: %r at cutoff %d gave %r then %r" % (circ, cutoff, verdict, again))
    if kind == "gate_after_measure" and verdict[0] == "crash" and "not active" in verdict[1]["text"]:
        ctx.count("unsupported_cells")  # explicit refusal: the photonic measurement is destructive
        return "unsupported", verdict[1]["text"]
    if parent_ops is not None:
        pc = {"n": circ["n"], "ops": parent_ops}
        ctx.count("executions")
        pv = judge(pc, cutoff, klm)
        if pv[0] == verdict[0] and (pv[0] != "crash" or pv[1]["exc"] == verdict[1]["exc"]):
            ctx.count("inherited_failures")
            return verdict
    photons, d, k = photons_modes(circ)
    cls = input_class(circ, kind)
    case = {"circuit": circ, "cutoff": cutoff, "kind": kind, "seed": ctx.seed, "observed": verdict[1]}
    if verdict[0] == "crash":
        info = verdict[1]
        # a failing condition is wrapped in PiquassoException by Instruction._is_condition_met; anything else raised while a
        # gate runs on a branch whose cutoff has dropped to <= 2 is the F6 class
        if info["stage"] == "execute" and min_branch_cutoff_at_gate(circ, cutoff) <= 2 and info["exc"] != "PiquassoException":
            cls = "branch_cutoff<=2"
        sig = {"check": "C19", "sub": "crash" if info["stage"] == "execute" else "translate_crash", "exc": info["exc"], "input_class": cls}
        msg = "%s of the dual-rail program raised %s: %s\n  circuit=%s cutoff=%d" % (
            "execution" if info["stage"] == "execute" else "translation", info["exc"], info["text"], _pretty(circ), cutoff)
    else:
        info = verdict[1]
        sig = {"check": "C19", "sub": "law" if info["kind"] == "law" else "law_" + info["kind"], "input_class": cls,
               "entangling": ent_class(circ), "last_action": action_name(circ["ops"][-1])}
        if info["kind"] == "law":
            msg = "law mismatch: outcome %s impl %.12g reference %.12g (|diff| %.3g > tol %.3g)\n  circuit=%s cutoff=%d" % (
                info["outcome"], info["impl"], info["ref"], info["err"], info["tol"], _pretty(circ), cutoff)
        else:
            msg = "%s: %s\n  circuit=%s cutoff=%d" % (info["kind"], info["detail"], _pretty(circ), cutoff)
    ctx.violation(sig, case, msg)
    return verdict


def _pretty(circ):
    def one(op):
        if op[0] == "measure":
            return "measure(q%d->c%d)" % (op[1], op[2])
        if op[0] == "if":
            return "if(c%d==%d){%s}" % (op[1], op[2], "; ".join(one(o) for o in op[3]))
        if op[0] == "ifelse":
            return "if(c%d==%d){%s}else{%s}" % (op[1], op[2], "; ".join(one(o) for o in op[3]), "; ".join(one(o) for o in op[4]))
        if op[0] in ("cz", "cx"):
            return "%s(%d,%d)" % (op[0], op[1], op[2])
        return "%s(%s)@q%d" % (op[0], ",".join("%.4g" % a for a in op[2:]), op[1])

    return "[%d qubits] " % circ["n"] + "; ".join(one(op) for op in circ["ops"])


# ---------------------------------------------------------------------------------------
# worker


def work(ctx, item):
    from mc.refmodel import qubitref as Q

    kind = item["kind"]
    klm = item["klm"]
    if kind == "variants":
        for vkind, circ in item["circuits"]:
            measured = [op[1] for op in circ["ops"] if op[0] == "measure"]
            final = [q for q in range(circ["n"]) if q not in measured]
            ctx.count("variant_circuits")
            ctx.count("variant_circuits_" + vkind)
            ctx.note_distinct("variant:" + repr(circ))
            for cutoff in cutoffs_for(circ):
                if vkind == "gate_after_measure":
                    ref = {}
                else:
                    ref = Q.joint_law(circ, final)
                check_circuit(ctx, circ, cutoff, klm, kind=vkind, ref_law=ref)
        return
    n = item["n"]
    for ops in item["transitions"]:
        circ = {"n": n, "ops": ops}
        branches = Q.run(circ)
        ctx.note_distinct(state_key(circ, branches))
        measured = [op[1] for op in ops if op[0] == "measure"]
        final = [q for q in range(n) if q not in measured]
        ref = Q.joint_law(circ, final)
        ctx.count("transitions")
        ctx.count("transitions_%s" % item["space"])
        a = ops[-1]
        ctx.count("actions_" + ("entangling" if a[0] in ("cz", "cx") else "measure" if a[0] == "measure" else "if_else" if a[0] == "ifelse"
                                else ("if_test_two_qubits" if len(a[3]) > 1 else "if_test") if a[0] == "if" else "single_qubit"))
        if len(ref) > 1:
            ctx.count("nondeterministic_laws")
        ctx.count("max_depth", 0)
        ctx.counters["max_depth"] = max(ctx.counters["max_depth"], len(ops))
        cs = cutoffs_for(circ)
        if len(cs) < 2:
            ctx.count("executions_skipped_dim_cap", 2 - len(cs))
        for cutoff in cs:
            _, d, k = photons_modes(circ)
            ctx.counters["max_modes"] = max(ctx.counters.get("max_modes", 0), d)
            ctx.counters["max_cutoff"] = max(ctx.counters.get("max_cutoff", 0), cutoff)
            check_circuit(ctx, circ, cutoff, klm, parent_ops=ops[:-1], ref_law=ref)
    if item.get("sample"):
        ops = item["transitions"][-1]
        circ = {"n": n, "ops": ops}
        measured = [op[1] for op in ops if op[0] == "measure"]
        ref = Q.joint_law(circ, [q for q in range(n) if q not in measured])
        ctx.sample({"circuit": _pretty(circ), "reference_law": {repr(k): round(v, 12) for k, v in sorted(ref.items(), key=repr)},
                    "cutoffs": cutoffs_for(circ)})


# ---------------------------------------------------------------------------------------
# parent


def _klm_budget():
    from mc import core
    from mc.refmodel import klmref

    b = klmref.budget()
    if max(b["eps_ideal"]) > 1e-12 or abs(b["success_ideal"] - 2.0 / 27.0) > 1e-12:
        raise core.HarnessError("C19 self-test: the KLM analysis does not reproduce an exact CZ at its own ideal angles: %r" % (b,))
    if max(abs(b["ideal_deg"][i] - b["closed_form_deg"][i]) for i in range(2)) > 1e-9:
        raise core.HarnessError("C19 self-test: numerically found ideal KLM angles differ from the closed forms: %r" % (b,))
    if (round(b["ideal_deg"][0], 2), round(b["ideal_deg"][1], 2)) != (klmref.LIB_THETA1_DEG, klmref.LIB_THETA2_DEG):
        raise core.HarnessError("C19 self-test: the library's two-decimal angles are not the rounded ideal angles: %r" % (b,))
    return b


def _cost(n, ops):
    """Rough CPU seconds of one transition (both cutoffs); only used to balance the chunks."""
    circ = {"n": n, "ops": ops}
    _, d, k = photons_modes(circ)
    t = 0.0
    for c in cutoffs_for(circ):
        dim = fock_dim(d, c)
        t += 0.002 + 2.5e-6 * dim * (4 + 7 * k) + 6e-8 * measure_dim(circ, c) ** 2
    return t


def run(ctx, builddir):
    from mc import core
    from mc.refmodel import qubitref as Q, klmref

    try:
        n_self = Q.selftest(angles(ctx.seed))
    except AssertionError as e:
        raise core.HarnessError("C19 self-test: %s" % e)
    klm = _klm_budget()
    klm_small = {k: klm[k] for k in ("eps_code", "eps_leak", "c")}
    ang = angles(ctx.seed)
    only = getattr(ctx, "only", None)

    ctx.rule = (
        "BFS over circuits; state = canonical {classical bits -> qubit state vector} of the reference (rounded 1e-7, "
        "phase-fixed per history) + measurement order + number of entangling gates; a transition appends one action of the "
        "alphabet to the representative circuit of a state and is executed on the implementation at both cutoffs; "
        "distinct = distinct canonical target states (+ distinct variant circuits); non-trivial = every one (each is a "
        "different qubit state or classical history law)"
    )
    ctx.assume("angle alphabet {pi/2, %.4f, %.4f} (VERIF_SEED moves the two generic angles only)" % (ang[1], ang[2]))
    ctx.assume(
        "entangling gates: tolerance derived in mc/refmodel/klmref.py from the library's two-decimal angles 54.74/17.63 deg vs the "
        "ideal %.6f/%.6f deg found numerically: code-space deviation eps_code=%.3e, leaked amplitude eps_leak=%.3e (relative to the "
        "heralding amplitude c=%.4f); |p_impl-p_ref| <= (2D+D^2)(1+p_ref)/(1-D)^2 with D_1=%.3e, D_2=%.3e, i.e. <= %.2e (one CZ/CX) "
        "and <= %.2e (two) -- DESIGN 2.11 budgeted 2e-3 per CZ" % (
            klm["ideal_deg"][0], klm["ideal_deg"][1], klm["eps_code"], klm["eps_leak"], klm["c"],
            klmref.law_tolerance_d(1, **klm_small), klmref.law_tolerance_d(2, **klm_small),
            klmref.law_tolerance(1, **klm_small), klmref.law_tolerance(2, **klm_small)))
    ctx.assume("circuits without entangling gates: 1e-9 + 1e-9*p")
    ctx.assume(
        "shots=None drops measurement outcomes with np.isclose(p, 0) (atol 1e-8, documented in sample_from_probability_map): "
        "if m reference outcomes are absent from the implementation's branches the tolerance is widened by m*1e-8/(code-space weight)")
    ctx.assume("at most %d entangling gates per circuit; Fock dimension capped at %d (Create() allocates a dense dim x dim operator): "
               "3 qubits + 2 entangling gates (d=10, 7 photons) run at cutoff photons+1 only; the branch state on which a measurement "
               "is executed is capped at dimension %d (ParticleNumberMeasurement materialises its dim x dim density matrix), which "
               "excludes e.g. 3 qubits: measure before the second entangling gate at photons+3 (counted in executions_skipped_dim_cap)"
               % (ENT_CAP, DIM_CAP, DIM_CAP_MEASURE))
    ctx.assume("no action on a measured qubit (the photonic measurement is destructive; the simulator refuses with "
               "'modes ... are not active', counted as unsupported cell in the variants)")
    ctx.assume("BFS measure actions write clbit q from qubit q (the convention of the test-suite), in any order of the qubits; other "
               "qubit->clbit maps are in the variants family")
    ctx.assume("a classical bit may be written by several measurements (variants family: two measurements of different qubits into one bit, "
               "3 qubits in a product of three different superpositions): an if_test reads the value the bit holds when it is reached "
               "(Qiskit: a later measurement overwrites the bit; qubitref self-tests this against qiskit's BasicSimulator); the reported "
               "classical bits are the final values")
    ctx.assume("conditioned actions: if_test with one gate, if_test/else with one gate each, if_test with one gate on each of two "
               "qubits; cz/cx inside a block is refused by the translator (ValueError 'Unsupported instruction', unsupported cell)")

    items = []
    states_expanded = 0
    layer_report = {}
    for space in spaces(ctx.tier, only):
        transitions, nstates, layers = bfs(space, ang)
        states_expanded += nstates
        layer_report[space[0]] = layers
        # cost-balanced deterministic chunks, heavy first
        costed = sorted(((_cost(space[1], ops), i) for i, ops in enumerate(transitions)), key=lambda t: (-t[0], t[1]))
        chunk, acc = [], 0.0
        first = True
        for cst, i in costed:
            chunk.append(transitions[i])
            acc += cst
            if acc >= 10.0:
                items.append((acc, {"kind": "bfs", "space": space[0], "n": space[1], "transitions": chunk, "klm": klm_small, "sample": first}))
                chunk, acc, first = [], 0.0, False
        if chunk:
            items.append((acc, {"kind": "bfs", "space": space[0], "n": space[1], "transitions": chunk, "klm": klm_small, "sample": first}))
    if not only or "variants" in only.split(","):
        vs = variants(ang)
        for k in range(0, len(vs), 60):  # heavy body_entangling / gate_after_measure circuits are at the end
            items.append((5.0, {"kind": "variants", "circuits": vs[k:k + 60], "klm": klm_small}))
    items = [it for _, it in sorted(items, key=lambda t: -t[0])]
    if only and "@" in only:  # development aid: --only name@k/m runs the k-th of m interleaved partitions of the work items
        k, m = (int(x) for x in only.split("@")[1].split("/"))
        items = items[k::m]
        ctx.exhaustive = False
        ctx.assume("partition %d of %d of the work items only (development run)" % (k, m))
    core.pmap(ctx, "mc.checks.c19", "work", items, builddir)
    c = ctx.counters
    ctx.extra["bfs_layer_sizes"] = layer_report
    ctx.extra["selftest_comparisons"] = n_self
    return {
        "states": len(ctx.distinct),
        "states_expanded": states_expanded,
        "transitions": c.get("transitions", 0) + c.get("variant_circuits", 0),
        "traces_validated_against_impl": c.get("executions", 0),
        "max_depth": c.get("max_depth", 0),
        "unsupported_cells": c.get("unsupported_cells", 0),
        "explanation": "states = distinct canonical reference states reached (classical-history law + qubit vectors + measurement "
        "order + entangling count) plus distinct variant circuits; states_expanded = states whose every action was taken; "
        "transitions = circuits (representative + one action) translated and executed; traces_validated = individual "
        "PureFockSimulator executions (two cutoffs per transition unless capped, plus re-runs on failure) whose decoded, "
        "post-selected law was compared with the qubit reference",
    }


def replay(ctx, case, signature):
    from mc.refmodel import klmref

    klm = klmref.budget()
    klm_small = {k: klm[k] for k in ("eps_code", "eps_leak", "c")}
    circ = case["circuit"]
    kind = case.get("kind")
    ref = {} if kind == "gate_after_measure" else None
    check_circuit(ctx, circ, case["cutoff"], klm_small, kind=kind, ref_law=ref)
