"""C03 -- shot accounting and the chain rule of measurement.

Bounded-exhaustive exploration of ADAPTIVE programs (partial particle-number measurements on every ordered
subset of the still-active modes, post-selections, conditioned gates, gates with outcome-dependent parameters)
on PureFockSimulator, FockSimulator, PassiveSimulator, the fermionic PureFockSimulator and (general-dyne chain
rule) GaussianSimulator.  Four families of sub-explorations:

  tree   shots=None: one execution of the real simulator yields the whole outcome tree; it is compared, outcome
         by outcome, with the tree of the reference model mc/refmodel/projref.py (own Fock index arithmetic, own
         projection, own gate model): weights, their sum, every branch state (normalised projection), Result
         consistency.
  part   shots=None: for every measured mode set M and EVERY ordered set partition (M1..Mr) of it, measuring
         M1, then M2, ... must give the same {outcome -> weight} map as measuring M at once in the concatenated
         order (implementation vs implementation, and both vs the reference).
  shots  shots=N: every random draw is a choice point of mc/choice.py; every multiset of N outcomes of every
         categorical draw (recursively per branch) -- i.e. every outcome HISTORY -- is executed on the real code and
         the exact Fraction accounting of api/simulator.py / api/result.py is compared with an independent
         bookkeeping of what the draws dictated.
  gauss  GaussianSimulator, mid-circuit general-dyne measurements with lattice answers: the second draw must be
         handed the conditional Gaussian of the joint law.
  budget shots=N for EVERY N up to 120 (quick) / 400 (thorough): exhaustive over the (k, N) LATTICE of nested shot
         budgets instead of over multisets.  One execution of PNM(0), gate(x), PNM(1) [, gate(x), PNM(2)] on three
         modes per lattice point, every categorical draw FORCED by the harness (mc/c03_own.forcing): the first draw
         returns k times its first and N-k times its second outcome (0 <= k <= N), the second-level draw of the first
         branch splits (count-1 : 1) -- and, three levels, every (N, k1, k2) with k2 <= k1 <= N for N <= 24 / 60.  A thin
         user-level subclass of the simulator wraps the _instruction_map entry of the measurement and records the
         `shots` argument every simulation step is handed: it must be the count of the branch (api/simulator.py:
         int(branch.frequency * shots)); len(samples) == N, counts, Fraction frequencies with denominators dividing N
         that sum to 1 exactly.
  tree / shots also run programs around an ImperfectParticleNumberMeasurement (items "itree" / "ishots"): on a strict
         subset of the modes (one actual count fans out into several detected counts, one branch per (actual,
         detected) pair, each with its own state), followed by gates on the remaining modes (conditions and parameters
         depending on the REPORTED outcome) and further (perfect or imperfect) measurements; reference = the classical
         detector channel of mc/refmodel/projref.py; the detector draws (Config.rng.choice) are choice points.
  fbox   fermionic PureFockSimulator on d = 4 (quick) / 4 and 5 (thorough) modes, shots=None -- the smallest box in which the
         Jordan-Wigner sign of the post-measurement projection acts as a RELATIVE sign inside a branch state (a measured
         mode that is not the lowest one found empty, >= 2 fermions): roots = every 2-fermion number state and one
         3-fermion number state, a generic Interferometer on all modes, ParticleNumberMeasurement on every single mode and
         every ordered pair of modes: weights and branch states (one global sign per branch) vs the reference tree; then
         one further passive gate on EVERY window of the remaining modes that is consecutive after the remapping
         (Beamsplitter on 2, Interferometer on 3) and a measurement of every single remaining mode: joint law and final
         branch states vs the reference, and vs the implementation's own program with the gate applied BEFORE the first
         measurement (whenever the window is also consecutive among all modes).
"""

import contextlib
import itertools
import json
import math
from fractions import Fraction

LEVEL = "model_checking"

TOL = 1e-9
DROP = 2e-8  # exact trees may drop outcomes with probability <= 1e-8 (numpy.isclose(p, 0) in _utils.py)

SIM_NAMES = {
    "pure": "PureFockSimulator",
    "fock": "FockSimulator",
    "passive": "PassiveSimulator",
    "fermi": "fermionic.PureFockSimulator",
    "gauss": "GaussianSimulator",
}

# outcome functions used by conditions and outcome-dependent parameters.  The lambda variants are handed to
# piquasso as Python callables, the string variants as expression strings; the reference evaluates the lambdas
# directly and the strings with Python's own eval.
COND = {
    "l_first0": lambda x: x[0] == 0,
    "s_last1": "x[-1] == 1",
}
DYN = {
    "c_first": lambda x: 0.2 + 0.4 * x[0],
    "s_last": "0.3 + 0.5 * x[-1]",
}
GATE_LETTERS = ("Gu", "Gcl", "Gcs", "Gpc", "Gps")


def _eval_outcome_fn(table, key, outcome):
    f = table[key]
    if callable(f):
        return f(tuple(outcome))
    return eval(f, {"__builtins__": {}}, {"x": tuple(outcome)})


# ---------------------------------------------------------------------------------------
# catalogue: generic unitaries, angles, initial states (deterministic, no RNG)


def generic_unitary(d, seed):
    import numpy as np
    from scipy.linalg import expm

    H = np.zeros((d, d), dtype=complex)
    for j in range(d):
        for k in range(d):
            H[j, k] = math.cos(1.3 + 0.7 * j + 1.9 * k + 0.37 * seed) + 1j * math.sin(0.4 + 2.3 * j - 1.1 * k + 0.53 * seed)
    H = (H + H.conj().T) / 2
    return expm(1j * H)


def angles(seed, pos):
    th = (0.7 + 0.11 * seed, 1.1 - 0.07 * seed, 0.45 + 0.05 * seed)[pos % 3]
    ph = (0.3 + 0.13 * seed, -0.8 + 0.03 * seed, 1.9 - 0.09 * seed)[pos % 3]
    return th, ph


def detector_matrix(ncols):
    """P[n][m] = p(detected n | actual m), ncols x ncols, every column sums to 1: losses (detected < actual, geometric
    weights), the true count, and one dark count (detected = actual + 1) wherever it fits -- so every actual count
    fans out into at least two detected counts.  Deterministic, not a function of the seed."""
    P = [[0.0] * ncols for _ in range(ncols)]
    for m in range(ncols):
        w = {n: 0.3 ** (m - n) for n in range(m + 1)}
        if m + 1 < ncols:
            w[m + 1] = 0.125
        tot = sum(w.values())
        for n, v in w.items():
            P[n][m] = v / tot
    return P


IPNM = "ImperfectParticleNumberMeasurement"


def has_ipnm(case):
    return any(op["k"] == "ipnm" for op in case.get("ops", ()))


def initial_terms(simkind, init, d):
    """[(coefficient, occupation)] of a pure state, or [(probability, [(coefficient, occupation)])] for "mix" """
    z = (0,) * (d - 2)
    if init[:1] == "o" and init[1:].isdigit():  # explicit number state, e.g. "o0101"
        occ = tuple(int(c) for c in init[1:])
        if len(occ) != d:
            raise KeyError(init)
        return [(1.0, occ)]
    if init == "n11":
        return [(1.0, (1, 1) + z)]
    if init in ("n1", "f1"):
        return [(1.0, (1, 0) + z)]
    if init == "n2":
        return [(1.0, (2, 0) + z)]
    if init == "n21":
        return [(1.0, (2, 1) + z)]
    if init == "n111":
        return [(1.0, (1, 1, 1) + (0,) * (d - 3))]
    if init == "sup":  # different particle numbers in superposition
        b = (0, 1, 1) + (0,) * (d - 3) if d >= 3 else (0, 2)
        return [
            (math.sqrt(0.5), (1, 0) + z),
            (math.sqrt(0.3) * complex(math.cos(0.4), math.sin(0.4)), b),
            (math.sqrt(0.2), (2, 0) + z),
        ]
    if init == "f11":
        return [(1.0, (1, 1) + z)]
    if init == "fsup":
        if d >= 3:
            return [(math.sqrt(0.6), (1, 1, 0) + (0,) * (d - 3)), (math.sqrt(0.4) * complex(math.cos(0.4), math.sin(0.4)), (0, 1, 1) + (0,) * (d - 3))]
        return [(math.sqrt(0.6), (1, 0)), (math.sqrt(0.4) * complex(math.cos(0.4), math.sin(0.4)), (0, 1))]
    if init == "fnum":  # fermionic, different particle numbers
        if d >= 3:
            return [(math.sqrt(0.6), (1, 0, 0) + (0,) * (d - 3)), (math.sqrt(0.4), (1, 1, 1) + (0,) * (d - 3))]
        return [(math.sqrt(0.6), (1, 0)), (math.sqrt(0.4), (1, 1))]
    if init == "mix":
        b = (0, 0, 1) + (0,) * (d - 3) if d >= 3 else (0, 1)
        return [
            (0.6, [(1.0, (1, 1) + z)]),
            (0.4, [(math.sqrt(0.5), (2, 0) + z), (1j * math.sqrt(0.5), b)]),
        ]
    raise KeyError(init)


def max_photons(simkind, init, d):
    terms = initial_terms(simkind, init, d)
    if init == "mix":
        return max(sum(o) for _, part in terms for _, o in part)
    return max(sum(o) for _, o in terms)


# ---------------------------------------------------------------------------------------
# building the library objects and the reference objects from a JSON-able case


def build_sim(case):
    import piquasso as pq

    kw = dict(cutoff=case["cutoff"])
    if case.get("K"):
        kw["max_sample_generation_trials"] = case["K"]
    cfg = pq.Config(**kw)
    cls = {
        "pure": pq.PureFockSimulator,
        "fock": pq.FockSimulator,
        "passive": pq.PassiveSimulator,
    }.get(case["sim"])
    if cls is None and case["sim"] == "fermi":
        from piquasso import fermionic

        cls = fermionic.PureFockSimulator
    return cls(d=case["d"], config=cfg)


def _resolve_params(op):
    """static parameters of a gate op; an Interferometer is stored as the catalogue index of its generic unitary"""
    params = dict(op["params"])
    if op["cls"] == "Interferometer" and "useed" in params:
        params = {"matrix": generic_unitary(len(op["modes"]), params["useed"])}
    return params


def _lib_gate(pq, op):
    params = _resolve_params(op)
    if op.get("dyn"):
        name, key = op["dyn"]
        params[name] = DYN[key]
    if op["cls"] == "ControlledPhase":
        from piquasso.fermionic.instructions import ControlledPhase

        g = ControlledPhase(**params)
    else:
        g = getattr(pq, op["cls"])(**params)
    g = g.on_modes(*op["modes"])
    if op.get("cond"):
        g = g.when(COND[op["cond"]])
    return g


def build_instructions(case):
    import numpy as np
    import piquasso as pq

    d = case["d"]
    ins = []
    terms = initial_terms(case["sim"], case["init"], d)
    if case["init"] == "mix":
        rho = {}
        for w, part in terms:
            for c1, k in part:
                for c2, b in part:
                    rho[(k, b)] = rho.get((k, b), 0.0) + w * c1 * np.conj(c2)
        for (k, b), v in rho.items():
            ins.append(pq.DensityMatrix(ket=k, bra=b, coefficient=complex(v)).on_modes(*range(d)))
    elif case["sim"] == "fock":
        for c1, k in terms:
            for c2, b in terms:
                ins.append(pq.DensityMatrix(ket=k, bra=b, coefficient=complex(c1 * np.conj(c2))).on_modes(*range(d)))
    else:
        for c, occ in terms:
            ins.append(pq.NumberState(occ, coefficient=c).on_modes(*range(d)))
    if case.get("u", True):
        ins.append(pq.Interferometer(generic_unitary(d, case["seed"])).on_modes(*range(d)))
    for op in case["ops"]:
        if op["k"] == "gate":
            ins.append(_lib_gate(pq, op))
        elif op["k"] == "pnm":
            ins.append(pq.ParticleNumberMeasurement().on_modes(*op["modes"]))
        elif op["k"] == "ipnm":
            ins.append(pq.ImperfectParticleNumberMeasurement(detector_efficiency_matrix=np.array(detector_matrix(op["ncols"]))).on_modes(*op["modes"]))
        elif op["k"] == "ps":
            ins.append(pq.PostSelectPhotons(photon_counts=tuple(op["counts"])).on_modes(*op["modes"]))
        else:
            raise KeyError(op["k"])
    return ins


def ref_initial(case):
    from mc.refmodel import projref as R

    d = case["d"]
    modes = tuple(range(d))
    terms = initial_terms(case["sim"], case["init"], d)
    fermi = case["sim"] == "fermi"
    if case["init"] == "mix":
        st = R.Mixed.mixture([(w, R.Pure(modes, {o: c for c, o in part})) for w, part in terms])
    else:
        st = R.Pure(modes, {o: c for c, o in terms}, fermionic=fermi)
        if case["sim"] == "fock":
            st = R.Mixed.from_pure(st)
    if case.get("u", True):
        st = R.apply_linear(st, modes, generic_unitary(d, case["seed"]))
    return st


def ref_ops(case):
    ops = []
    for op in case["ops"]:
        if op["k"] == "ipnm":
            ops.append({"k": "ipnm", "modes": op["modes"], "P": detector_matrix(op["ncols"])})
            continue
        if op["k"] != "gate":
            ops.append(op)
            continue
        static = _resolve_params(op)
        dyn = op.get("dyn")
        cond = op.get("cond")

        def params(outcome, static=static, dyn=dyn):
            p = dict(static)
            if dyn:
                p[dyn[0]] = _eval_outcome_fn(DYN, dyn[1], outcome)
            return p

        ops.append(
            {
                "k": "gate",
                "cls": op["cls"],
                "modes": tuple(op["modes"]),
                "params": params,
                "cond": (lambda outcome, cond=cond: bool(_eval_outcome_fn(COND, cond, outcome))) if cond else None,
            }
        )
    return ops


# ---------------------------------------------------------------------------------------
# program enumeration


def make_gate(simkind, letter, active, pos, seed):
    th, ph = angles(seed, pos)
    if len(active) >= 2:
        if simkind == "fermi":
            modes = [active[0], active[1]]  # consecutive after the simulator's remapping
        else:
            modes = [active[-1], active[0]]  # non-ascending, not adjacent: exercises the remapping
        op = {"k": "gate", "cls": "Beamsplitter", "modes": modes, "params": {"theta": th, "phi": ph}}
        dyn_name = "theta"
    elif simkind in ("pure", "fock"):
        op = {"k": "gate", "cls": "Kerr", "modes": [active[0]], "params": {"xi": th}}
        dyn_name = "xi"
    else:
        op = {"k": "gate", "cls": "Phaseshifter", "modes": [active[0]], "params": {"phi": th}}
        dyn_name = "phi"
    if letter == "Gcl":
        op["cond"] = "l_first0"
    elif letter == "Gcs":
        op["cond"] = "s_last1"
    elif letter == "Gpc":
        op["dyn"] = [dyn_name, "c_first"]
    elif letter == "Gps":
        op["dyn"] = ["phi" if op["cls"] == "Beamsplitter" else dyn_name, "s_last"]
    if op.get("dyn"):
        op["params"] = {k: v for k, v in op["params"].items() if k != op["dyn"][0]}
    return op


def enum_programs(simkind, d, depth, max_meas, letters, allow_ps, terminal_only, seed, max_gates=None):
    """every op sequence of length <= depth over the alphabet
         PNM(S) for every ordered non-empty subset S of the active modes | PS(m, c) | gate letters
    with at most `max_meas` measurements (PNM + PS), at least one PNM, gates that need outcomes only after a PNM,
    at most one gate before the first measurement, optionally at most `max_gates` gates."""
    from mc.refmodel.projref import ordered_subsets

    out = []

    def rec(active, ops, n_meas, had_pnm, n_gates):
        if ops and had_pnm:
            out.append(list(ops))
        if len(ops) == depth or not active:
            return
        if n_meas < max_meas and not (terminal_only and had_pnm):
            for S in ordered_subsets(active):
                rest = [m for m in active if m not in S]
                rec(rest, ops + [{"k": "pnm", "modes": list(S)}], n_meas + 1, True, n_gates)
            if allow_ps:
                for m in active:
                    for c in (0, 1):
                        rest = [x for x in active if x != m]
                        rec(rest, ops + [{"k": "ps", "modes": [m], "counts": [c]}], n_meas + 1, had_pnm, n_gates)
        if terminal_only and had_pnm:
            return
        if max_gates is not None and n_gates >= max_gates:
            return
        for letter in letters:
            if letter != "Gu" and not had_pnm:
                continue
            if not had_pnm and n_gates >= 1 and n_meas == 0:
                continue
            rec(active, ops + [make_gate(simkind, letter, active, len(ops), seed)], n_meas, had_pnm, n_gates + 1)

    rec(list(range(d)), [], 0, False, 0)
    # a program must contain a PNM; programs that END in a post-selection or gate after the PNM are kept (branch states)
    return out


def ishots_N(ops, bounds):
    """bounds {N: (largest number of modes of an imperfect measurement, largest number of ops behind the first
    measurement)}: the detector draws of an m-mode imperfect measurement are sequences (3**(m N) per actual outcome)"""
    first = next(j for j, op in enumerate(ops) if op["k"] in ("ipnm", "pnm"))
    n_behind = len(ops) - 1 - first
    width = max(len(op["modes"]) for op in ops if op["k"] == "ipnm")
    return [N for N, (maxwidth, maxbehind) in sorted(bounds.items()) if width <= maxwidth and n_behind <= maxbehind]


def enum_imperfect_programs(simkind, d, ncols, depth, max_meas, max_gates, letters, allow_ps, seed, mid, allow_pnm_mid, pre_gate):
    """programs around an ImperfectParticleNumberMeasurement (IPNM).
    mid=True (the simulator allows it mid-circuit): [Gu] IPNM(S) for EVERY ordered strict subset S of the modes (and S =
      all modes, terminal), followed by every op sequence over {PNM(T) | IPNM(T) for every ordered non-empty subset T
      of the remaining modes, PS(m, 0|1), the five gate letters} with at most `depth` ops behind the first IPNM, at
      most `max_meas` measurements and `max_gates` gates behind it;
    mid=False (terminal only): [Gu] IPNM(T) for every ordered subset T, and -- if PNM is allowed mid-circuit --
      PNM(S), [gate letter], IPNM(T) for every ordered strict subset S and every ordered subset T of the rest."""
    from mc.refmodel.projref import ordered_subsets

    out = []
    all_modes = list(range(d))

    def ip(S):
        return {"k": "ipnm", "modes": list(S), "ncols": ncols}

    pres = [[]] + ([[make_gate(simkind, "Gu", all_modes, 0, seed)]] if pre_gate else [])
    if not mid:
        for pre in pres:
            for T in ordered_subsets(all_modes):
                out.append(pre + [ip(T)])
        if allow_pnm_mid:
            for S in ordered_subsets(all_modes):
                rest = [m for m in all_modes if m not in S]
                if not rest:
                    continue
                for letter in (None,) + tuple(letters):
                    g = [make_gate(simkind, letter, rest, 1, seed)] if letter else []
                    for T in ordered_subsets(rest):
                        out.append([{"k": "pnm", "modes": list(S)}] + g + [ip(T)])
        return out

    def rec(active, ops, n_behind, n_meas, n_gates):
        out.append(list(ops))
        if n_behind == depth or not active:
            return
        if n_meas < max_meas:
            for T in ordered_subsets(active):
                rest = [m for m in active if m not in T]
                rec(rest, ops + [{"k": "pnm", "modes": list(T)}], n_behind + 1, n_meas + 1, n_gates)
                rec(rest, ops + [ip(T)], n_behind + 1, n_meas + 1, n_gates)
            if allow_ps:
                for m in active:
                    for c in (0, 1):
                        rec([x for x in active if x != m], ops + [{"k": "ps", "modes": [m], "counts": [c]}], n_behind + 1, n_meas + 1, n_gates)
        if n_gates < max_gates:
            for letter in letters:
                rec(active, ops + [make_gate(simkind, letter, active, len(ops), seed)], n_behind + 1, n_meas, n_gates + 1)

    for pre in pres:
        for S in ordered_subsets(all_modes):
            rec([m for m in all_modes if m not in S], pre + [ip(S)], 0, 0, 0)
    return out


# ---------------------------------------------------------------------------------------
# observation of a Result (plain data)


def observe_state(simkind, st):
    import numpy as np

    if st is None:
        return None
    o = {"d": int(st.d), "cutoff": int(st._config.cutoff)}
    if simkind == "fock":
        o["mat"] = np.array(st.density_matrix, dtype=complex)
    else:
        o["vec"] = np.array(st.state_vector, dtype=complex).reshape(-1)
    return o


def observe(simkind, res, shots, with_states=True):
    obs = {"branches": [], "issues": []}
    for b in res.branches:
        obs["branches"].append(
            {
                "outcome": tuple(int(x) for x in b.outcome),
                "raw_types": sorted({type(x).__name__ for x in b.outcome}),
                "freq": b.frequency,
                "state": observe_state(simkind, b.state) if with_states else None,
                "state_id": id(b.state),
            }
        )
    om = res.outcome_map
    obs["outcome_map"] = [
        (tuple(int(x) for x in k), v["frequency"], id(v["state"]), sorted(v.keys())) for k, v in om.items()
    ]
    if shots is not None:
        obs["samples"] = [tuple(int(x) for x in s) for s in res.samples]
        obs["counts"] = {tuple(int(x) for x in k): v for k, v in res.get_counts().items()}
    return obs


# ---------------------------------------------------------------------------------------
# comparison helpers


def input_class(case):
    n_pnm = sum(1 for op in case["ops"] if op["k"] in ("pnm", "ipnm"))
    has_ps = any(op["k"] == "ps" for op in case["ops"])
    if n_pnm >= 2:
        return "sequential_partial_measurements"
    if has_ps:
        return "postselect+measurement"
    return "single_measurement"


def sig(case, sub, **extra):
    s = {"check": "C03", "sub": sub, "simulator": SIM_NAMES[case["sim"]], "input_class": input_class(case)}
    if sub.startswith("branch_state"):
        s["input_class"] = "after_partial_measurement"
    if has_ipnm(case):
        s["measurement"] = IPNM
    s.update(extra)
    return s


def compare_state(simkind, leaf_state, ob):
    """-> (kind, detail) with kind in None | 'shape' | 'lost' | 'direction' | 'norm'.
    Fermionic branch states are compared up to a global sign: the two physically equivalent conventions (measured
    creation operators anticommuted to the left / to the right of the string) differ by the parity of the remaining
    particle number, which is a global sign on every branch of a state of definite parity."""
    import numpy as np

    if leaf_state is None or ob is None:
        if (leaf_state is None) != (ob is None):
            return "shape", "reference has %s remaining modes, implementation state is %s" % (
                "no" if leaf_state is None else len(leaf_state.modes),
                "None" if ob is None else "d=%d" % ob["d"],
            )
        return None, ""
    if ob["d"] != len(leaf_state.modes):
        return "shape", "state on d=%d modes, expected %d" % (ob["d"], len(leaf_state.modes))
    if simkind == "fock":
        ref, lost = leaf_state.to_matrix(ob["cutoff"])
        got = ob["mat"]
    else:
        ref, lost = leaf_state.to_vector(ob["cutoff"])
        got = ob["vec"]
    if got.shape != ref.shape:
        return "shape", "array shape %s, expected %s for d=%d cutoff=%d" % (got.shape, ref.shape, ob["d"], ob["cutoff"])
    if lost > 1e-12:
        return "lost", "cutoff %d of the branch state cannot hold the projected state (lost weight %.3g)" % (ob["cutoff"], lost)
    err = float(np.max(np.abs(got - ref))) if got.size else 0.0
    if simkind == "fermi" and got.size:
        err = min(err, float(np.max(np.abs(got + ref))))
    if err <= TOL:
        return None, ""
    n_got = float(np.real(np.trace(got))) if simkind == "fock" else float(np.sum(np.abs(got) ** 2))
    n_ref = leaf_state.norm2()
    if n_got > 1e-14 and n_ref > 1e-14:
        scale = (n_ref / n_got) if simkind == "fock" else math.sqrt(n_ref / n_got)
        err2 = float(np.max(np.abs(got * scale - ref)))
        if simkind == "fermi":
            err2 = min(err2, float(np.max(np.abs(got * scale + ref))))
        if err2 <= TOL:
            return "norm", "state equals the projection up to its norm: <psi|psi> = %.12g, expected %.12g" % (n_got, n_ref)
    return "direction", "max |state - projection| = %.3g (norms %.6g vs %.6g)" % (err, n_got, n_ref)


def _fmt_map(m, limit=8):
    items = sorted(m.items())[:limit]
    return "{" + ", ".join("%s: %.6g" % (k, v) for k, v in items) + (", ..." if len(m) > limit else "") + "}"


def compare_weight_maps(got, ref, tol=TOL):
    """-> (max abs difference, worst key); reference outcomes below DROP may be absent"""
    worst, wk = 0.0, None
    for k in set(got) | set(ref):
        g, r = got.get(k), ref.get(k, 0.0)
        if g is None:
            if r <= DROP:
                continue
            g = 0.0
        e = abs(g - r)
        if e > worst:
            worst, wk = e, k
    return worst, wk


# ---------------------------------------------------------------------------------------
# family "tree": shots=None


def _unsupported(e):
    from piquasso.api.exceptions import NotImplementedCalculation, InvalidSimulation, InvalidParameter

    if isinstance(e, (NotImplementedCalculation, NotImplementedError)):
        return "not_implemented"
    if isinstance(e, InvalidSimulation) and "not allowed as a mid-circuit" in str(e):
        return "mid_circuit_not_allowed"
    if isinstance(e, InvalidParameter) and "does not support 'shots=None'" in str(e):
        return "shots_none_not_supported"
    return None


def check_tree(case, stats):
    """one program, shots=None"""
    return _check_tree_obs(case, stats)[0]


def _check_tree_obs(case, stats):
    """-> (verdicts, observation of the Result or None)"""
    import piquasso as pq
    from mc.refmodel import projref as R

    verdicts = []
    simkind = case["sim"]
    sim = build_sim(case)
    program = pq.Program(instructions=build_instructions(case))
    stats["executions"] = stats.get("executions", 0) + 1
    try:
        res = sim.execute(program, shots=None)
        obs = observe(simkind, res, None)
    except Exception as e:  # noqa: BLE001
        u = _unsupported(e)
        if u:
            stats["unsupported_" + u] = stats.get("unsupported_" + u, 0) + 1
            return verdicts, None
        verdicts.append((sig(case, "exception", exception=type(e).__name__), "shots=None raised %s: %s" % (type(e).__name__, str(e)[:300])))
        return verdicts, None
    leaves = R.run_tree(ref_initial(case), ref_ops(case))
    if has_ipnm(case):
        verdicts.extend(_compare_tree_pairs(case, obs, leaves, stats))
    else:
        verdicts.extend(_compare_tree(case, obs, leaves, stats))
    return verdicts, obs


# ---------------------------------------------------------------------------------------
# family "fbox": fermionic projection sign box (shots=None)


def fbox_roots(d):
    """every 2-fermion number state on d modes and one 3-fermion number state"""
    roots = ["o" + "".join("1" if m in pair else "0" for m in range(d)) for pair in itertools.combinations(range(d), 2)]
    roots.append("o" + "".join("0" if m == 1 else "1" for m in range(4)) + "0" * (d - 4))
    return roots


def fbox_first_measurements(d):
    return [(m,) for m in range(d)] + list(itertools.permutations(range(d), 2))


def fbox_followups(d, S, seed):
    """[(gate op, second measured mode)]: one passive gate on every window of the remaining modes that is consecutive
    AFTER the remapping (Beamsplitter on 2 modes, Interferometer on 3), then a measurement of every single remaining mode"""
    rest = [m for m in range(d) if m not in S]
    out = []
    n = 0
    for width in (2, 3):
        for j in range(len(rest) - width + 1):
            W = rest[j:j + width]
            if width == 2:
                th, ph = angles(seed, n)
                g = {"k": "gate", "cls": "Beamsplitter", "modes": W, "params": {"theta": th, "phi": ph}}
            else:
                g = {"k": "gate", "cls": "Interferometer", "modes": W, "params": {"useed": seed + 3 + j}}
            n += 1
            for m in rest:
                out.append((g, m))
    return out


def check_fbox(case, stats):
    """case["ops"] = [PNM(S)] or [PNM(S), gate(W), PNM(m)] (W among the remaining modes).  The program is compared with
    the reference tree; the three-op program also with the implementation's own [gate(W), PNM(S), PNM(m)] when W is a
    window of consecutive modes of the full register (the fermionic simulator demands consecutive modes)."""
    ops = case["ops"]
    tree_case = dict(case, fam="tree")
    verdicts, obs = _check_tree_obs(tree_case, stats)
    stats["fbox_programs"] = stats.get("fbox_programs", 0) + 1
    if len(ops) != 3:
        return verdicts
    W = list(ops[1]["modes"])
    if W != list(range(W[0], W[0] + len(W))):
        stats["fbox_window_not_consecutive_before_measurement"] = stats.get("fbox_window_not_consecutive_before_measurement", 0) + 1
        return verdicts
    before_case = dict(tree_case, ops=[ops[1], ops[0], ops[2]])
    v2, obs2 = _check_tree_obs(before_case, stats)
    stats["fbox_gate_order_pairs"] = stats.get("fbox_gate_order_pairs", 0) + 1
    have = {json.dumps(s, sort_keys=True) for s, _ in verdicts}
    verdicts.extend((s, "[gate applied before the first measurement] " + m) for s, m in v2 if json.dumps(s, sort_keys=True) not in have)
    if obs is not None and obs2 is not None:
        wa = _aggregate((b["outcome"], float(b["freq"])) for b in obs["branches"])
        wb = _aggregate((b["outcome"], float(b["freq"])) for b in obs2["branches"])
        worst, wk = 0.0, None
        for k in set(wa) | set(wb):
            if (k not in wa or k not in wb) and max(wa.get(k, 0.0), wb.get(k, 0.0)) <= DROP:
                continue  # an outcome below the drop threshold may be absent on either side
            e = abs(wa.get(k, 0.0) - wb.get(k, 0.0))
            if e > worst:
                worst, wk = e, k
        if worst > 2 * TOL:
            verdicts.append(
                (
                    sig(tree_case, "gate_order"),
                    "measuring %s, then %s on %s, then measuring %s gives %s; applying the gate (disjoint from the measured modes) "
                    "BEFORE the first measurement gives %s (differ by %.3g at %s)"
                    % (ops[0]["modes"], ops[1]["cls"], W, ops[2]["modes"], _fmt_map(wa, 12), _fmt_map(wb, 12), worst, wk),
                )
            )
    return verdicts


SAME_DETECTED = "same_detected_outcome_from_several_actual_outcomes"


def _aggregate(pairs):
    out = {}
    for k, v in pairs:
        out[k] = out.get(k, 0.0) + v
    return out


def _compare_tree_pairs(case, obs, leaves, stats):
    """programs with an imperfect detector: the implementation keeps one branch per (actual, detected) pair, all pairs
    of one detected outcome carrying that outcome.  Demanded: the total weight of every reported outcome is its exact
    joint probability sum_actual P(detected | actual) p(actual, ...); the branches of one outcome are, pair by pair,
    the reference pairs: weight p(actual) P(detected | actual) and the normalised projection on the ACTUAL outcome
    evolved by the later gates with the parameters of the REPORTED outcome."""
    from mc.refmodel import projref as R

    verdicts = []
    simkind = case["sim"]
    ref_by, got_by = {}, {}
    for lf in leaves:
        ref_by.setdefault(lf.outcome, []).append(lf)
    for b in obs["branches"]:
        got_by.setdefault(b["outcome"], []).append(b)
    stats["branches"] = stats.get("branches", 0) + len(obs["branches"])
    ref_w = _aggregate((lf.outcome, lf.weight) for lf in leaves)
    got_w = _aggregate((b["outcome"], float(b["freq"])) for b in obs["branches"])
    sequential = input_class(case).startswith("sequential")
    worst, wk = compare_weight_maps(got_w, ref_w)
    if worst > TOL:
        msg = "outcome weights differ from the joint outcome probabilities by %.3g at %s (sum of weights %.12g, expected %.12g): got %s expected %s" % (
            worst, wk, sum(got_w.values()), sum(ref_w.values()), _fmt_map(got_w), _fmt_map(ref_w))
        if simkind == "passive" and sequential:
            # is the deviation exactly the known double count (branch state left un-normalised by a measurement)?
            w2 = _aggregate((lf.outcome, lf.weight) for lf in R.run_tree(ref_initial(case), ref_ops(case), renormalise=False))
            if compare_weight_maps(got_w, w2)[0] <= TOL:
                verdicts.append((sig(case, "chain_rule"), "[exactly the known double count of the history] " + msg))
            else:
                verdicts.append((dict(sig(case, "chain_rule"), input_class="sequential_measurements_not_the_known_double_count"), msg))
        else:
            verdicts.append((sig(case, "chain_rule" if sequential else "weights"), msg))
        return verdicts
    if abs(sum(got_w.values()) - sum(ref_w.values())) > TOL * max(1, len(ref_w)) + DROP * sum(1 for v in ref_w.values() if v <= DROP):
        verdicts.append((sig(case, "weight_sum"), "sum of weights %.12g, norm of the measured state %.12g" % (sum(got_w.values()), sum(ref_w.values()))))
    kinds = {}
    for o, gl_all in got_by.items():
        gl = [b for b in gl_all if float(b["freq"]) > DROP]
        stats["zero_weight_branches"] = stats.get("zero_weight_branches", 0) + len(gl_all) - len(gl)
        rl = [lf for lf in ref_by.get(o, []) if lf.weight > DROP]
        if len(gl) != len(rl):
            # another (legitimate) representation of the mixture behind one reported outcome: only the totals are judged
            stats["pair_structure_differs"] = stats.get("pair_structure_differs", 0) + 1
            continue
        free = list(rl)
        for b in gl:
            w = float(b["freq"])
            cands = sorted((lf for lf in free if abs(lf.weight - w) <= TOL), key=lambda lf: abs(lf.weight - w))
            if not cands:
                kinds.setdefault("pair", "outcome %s: a branch has weight %.12g, the (actual, detected) pairs of this outcome weigh %s" % (o, w, ["%.12g" % lf.weight for lf in rl]))
                continue
            pick, res = None, None
            for lf in cands:  # equal weights: the pair whose state fits
                kind, detail = compare_state(simkind, lf.state, b["state"])
                if kind in (None, "norm"):
                    pick, res = lf, (kind, detail)
                    break
                if pick is None:
                    pick, res = lf, (kind, detail)
            free.remove(pick)
            stats["states_compared"] = stats.get("states_compared", 0) + 1
            stats["pairs_matched"] = stats.get("pairs_matched", 0) + 1
            if res[0]:
                kinds.setdefault(res[0], "outcome %s (actual history %s): %s" % (o, pick.actual, res[1]))
    for kind, detail in sorted(kinds.items()):
        sub = {"norm": "branch_state_norm", "direction": "branch_state", "shape": "branch_state_shape", "lost": "branch_state_cutoff", "pair": "pair_weights"}[kind]
        verdicts.append((sig(case, sub), detail))
    # Result.outcome_map: the entry of an outcome must carry the weight of that outcome
    dup = any(len(v) > 1 for v in got_by.values())
    om = {k: f for k, f, _, _ in obs["outcome_map"]}
    bad = [(k, float(f), got_w.get(k)) for k, f in om.items() if abs(float(f) - got_w.get(k, 0.0)) > TOL]
    if bad or set(om) != set(got_w):
        verdicts.append(
            (
                dict(sig(case, "outcome_map"), input_class=SAME_DETECTED if dup else input_class(case)),
                "Result.outcome_map gives outcome %s the weight %.12g, the branches with that outcome weigh %.12g in total (sum over the map %.12g)"
                % (bad[0][0], bad[0][1], bad[0][2], sum(float(f) for f in om.values())) if bad else "Result.outcome_map misses outcomes",
            )
        )
    return verdicts


def _ascending_variant(case):
    """the same program with the modes of every all-active-modes measurement sorted (diagnosis of the
    'outcome ignores the requested mode order' defect)"""
    ops = []
    changed = False
    active = list(range(case["d"]))
    for op in case["ops"]:
        op = dict(op)
        if op["k"] == "pnm":
            if sorted(op["modes"]) == sorted(active) and list(op["modes"]) != sorted(op["modes"]):
                op["modes"] = sorted(op["modes"])
                changed = True
            active = [m for m in active if m not in op["modes"]]
        elif op["k"] in ("ps", "ipnm"):
            active = [m for m in active if m not in op["modes"]]
        ops.append(op)
    return changed, ops


def _compare_tree(case, obs, leaves, stats):
    from mc.refmodel import projref as R

    verdicts = []
    simkind = case["sim"]
    ref_w = {}
    ref_leaf = {}
    for lf in leaves:
        ref_w[lf.outcome] = ref_w.get(lf.outcome, 0.0) + lf.weight
        ref_leaf[lf.outcome] = lf
    got_w = {}
    dup = False
    for b in obs["branches"]:
        if b["outcome"] in got_w:
            dup = True
        got_w[b["outcome"]] = got_w.get(b["outcome"], 0.0) + float(b["freq"])
    stats["branches"] = stats.get("branches", 0) + len(obs["branches"])
    if dup:
        verdicts.append((sig(case, "duplicate_outcome"), "two branches carry the same outcome"))
    worst, wk = compare_weight_maps(got_w, ref_w)
    if worst > TOL:
        # diagnosis: does the map agree when the all-modes measurement is read in ascending mode order?
        changed, ops2 = _ascending_variant(case)
        if changed:
            case2 = dict(case, ops=ops2)
            leaves2 = R.run_tree(ref_initial(case2), ref_ops(case2))
            w2 = {}
            for lf in leaves2:
                w2[lf.outcome] = w2.get(lf.outcome, 0.0) + lf.weight
            if compare_weight_maps(got_w, w2)[0] <= TOL:
                verdicts.append(
                    (
                        dict(sig(case, "outcome_order"), input_class="full_measurement_non_ascending_modes"),
                        "measuring ALL remaining modes in the order %s returns outcome tuples in ascending mode order: "
                        "got %s, expected %s" % ([op["modes"] for op in case["ops"] if op["k"] == "pnm"], _fmt_map(got_w), _fmt_map(ref_w)),
                    )
                )
                return verdicts
        verdicts.append(
            (
                sig(case, "chain_rule" if input_class(case).startswith("sequential") else "weights"),
                "branch weights differ from the joint outcome probabilities by %.3g at %s (sum of weights %.12g, expected %.12g): got %s expected %s"
                % (worst, wk, sum(got_w.values()), sum(ref_w.values()), _fmt_map(got_w), _fmt_map(ref_w)),
            )
        )
        return verdicts
    if abs(sum(got_w.values()) - sum(ref_w.values())) > TOL * max(1, len(ref_w)) + DROP * sum(1 for v in ref_w.values() if v <= DROP):
        verdicts.append((sig(case, "weight_sum"), "sum of weights %.12g, norm of the measured state %.12g" % (sum(got_w.values()), sum(ref_w.values()))))
    # states
    kinds = {}
    for b in obs["branches"]:
        lf = ref_leaf.get(b["outcome"])
        if lf is None or lf.weight <= DROP or float(b["freq"]) <= DROP:
            stats["zero_weight_branches"] = stats.get("zero_weight_branches", 0) + 1
            continue
        stats["states_compared"] = stats.get("states_compared", 0) + 1
        kind, detail = compare_state(simkind, lf.state, b["state"])
        if kind and kind not in kinds:
            kinds[kind] = "outcome %s: %s" % (b["outcome"], detail)
    for kind, detail in sorted(kinds.items()):
        sub = {"norm": "branch_state_norm", "direction": "branch_state", "shape": "branch_state_shape", "lost": "branch_state_cutoff"}[kind]
        verdicts.append((sig(case, sub), detail))
    # Result consistency
    om = obs["outcome_map"]
    br = obs["branches"]
    if not dup:
        if [k for k, _, _, _ in om] != [b["outcome"] for b in br] or any(
            f != b["freq"] or sid != b["state_id"] for (k, f, sid, _), b in zip(om, br)
        ):
            verdicts.append((sig(case, "outcome_map"), "Result.outcome_map is not the list of branches keyed by outcome"))
    return verdicts


# ---------------------------------------------------------------------------------------
# family "part": every ordered set partition


def check_part(case, stats, cache=None):
    """case["blocks"]: successive measurements; joint = one measurement in the concatenated order"""
    import piquasso as pq
    from mc.refmodel import projref as R

    verdicts = []
    blocks = [list(b) for b in case["blocks"]]
    concat = [m for b in blocks for m in b]
    joint_case = dict(case, ops=list(case.get("pre", [])) + [{"k": "pnm", "modes": concat}])
    seq_case = dict(case, ops=list(case.get("pre", [])) + [{"k": "pnm", "modes": b} for b in blocks])

    def run(c):
        key = json.dumps(c["ops"], sort_keys=True)
        if cache is not None and key in cache:
            return cache[key]
        sim = build_sim(c)
        program = pq.Program(instructions=build_instructions(c))
        stats["executions"] = stats.get("executions", 0) + 1
        try:
            res = sim.execute(program, shots=None)
            out = {}
            for b in res.branches:
                k = tuple(int(x) for x in b.outcome)
                out[k] = out.get(k, 0.0) + float(b.frequency)
        except Exception as e:  # noqa: BLE001
            out = e
        if cache is not None:
            cache[key] = out
        return out

    joint = run(joint_case)
    seq = run(seq_case)
    for name, val, c in (("joint", joint, joint_case), ("sequential", seq, seq_case)):
        if isinstance(val, Exception):
            u = _unsupported(val)
            if u:
                stats["unsupported_" + u] = stats.get("unsupported_" + u, 0) + 1
            else:
                verdicts.append((sig(c, "exception", exception=type(val).__name__), "%s measurement raised %s: %s" % (name, type(val).__name__, str(val)[:300])))
            return verdicts
    # reference: the state behind the (measurement-free) prefix, then the joint Born law of the ordered modes
    st = R.run_tree(ref_initial(case), ref_ops(dict(case, ops=list(case.get("pre", [])))))[0].state
    ref = R.marginal_law(st, concat)
    ref = {k: v for k, v in ref.items() if v > 0}
    stats["maps_compared"] = stats.get("maps_compared", 0) + 1
    e_js, k_js = compare_weight_maps(seq, {k: v for k, v in joint.items()})
    e_j, k_j = compare_weight_maps(joint, ref)
    e_s, k_s = compare_weight_maps(seq, ref)
    if e_j > TOL:
        sorted_concat = sorted(concat)
        if len(concat) == case["d"] and concat != sorted_concat:
            ref2 = R.marginal_law(st, sorted_concat)
            if compare_weight_maps(joint, ref2)[0] <= TOL:
                verdicts.append(
                    (
                        dict(sig(joint_case, "outcome_order"), input_class="full_measurement_non_ascending_modes"),
                        "joint measurement of ALL modes in the order %s returns outcome tuples in ascending mode order: got %s expected %s"
                        % (concat, _fmt_map(joint), _fmt_map(ref)),
                    )
                )
                e_j = 0.0
        if e_j > TOL:
            verdicts.append((sig(joint_case, "weights"), "joint measurement of %s differs from the Born law by %.3g at %s" % (concat, e_j, k_j)))
    if (e_s > TOL or e_js > 2 * TOL) and len(blocks) > 1:
        last = blocks[-1]
        if sum(len(b) for b in blocks) == case["d"] and last != sorted(last) and e_js > TOL:
            # the last measurement covers all remaining modes: same diagnosis
            alt = [m for b in blocks[:-1] for m in b] + sorted(last)
            ref2 = R.marginal_law(st, alt)
            if compare_weight_maps(seq, ref2)[0] <= TOL:
                verdicts.append(
                    (
                        dict(sig(seq_case, "outcome_order"), input_class="full_measurement_non_ascending_modes"),
                        "the last measurement covers ALL remaining modes in the order %s and returns its outcomes in ascending mode order" % (last,),
                    )
                )
                return verdicts
        verdicts.append(
            (
                sig(seq_case, "chain_rule"),
                "measuring %s one after another differs from the joint law of %s by %.3g at %s (vs the implementation's own joint measurement: %.3g); "
                "sum of sequential weights %.12g, joint %.12g; sequential %s joint %s"
                % (blocks, concat, e_s, k_s, e_js, sum(seq.values()), sum(ref.values()), _fmt_map(seq), _fmt_map(ref)),
            )
        )
    return verdicts


# ---------------------------------------------------------------------------------------
# family "shots": shots = N, every outcome history


class _RefBranch:
    __slots__ = ("outcome", "count", "leaf", "labels")

    def __init__(self, outcome, count, leaf, labels):
        self.outcome = outcome
        self.count = count
        self.leaf = leaf  # reference state of this history (projref.Leaf-like: state)
        self.labels = labels  # {mode label: measured photon number}


def _norm_law(law):
    t = sum(law.values())
    return {k: v / t for k, v in law.items() if v > 0} if t > 0 else {}


def check_shots(case, stats):
    import piquasso as pq
    from mc import core
    from mc.choice import ChoiceController, owned_randomness
    from mc.c03_own import recording
    from mc.refmodel import projref as R

    simkind = case["sim"]
    N = case["shots"]
    sim = build_sim(case)
    program = pq.Program(instructions=build_instructions(case))
    rops = ref_ops(case)
    st0 = ref_initial(case)
    n_out = sum(len(op["modes"]) for op in case["ops"] if op["k"] in ("pnm", "ipnm"))
    imperfect = has_ipnm(case)
    # a history whose post-selection is impossible leaves a zero state; sampling from it is undefined (the Fock
    # simulators hand random.choices all-zero weights): not a subject of the property
    degenerate = []
    R.run_tree(st0, rops, on_measure=lambda idx, lf, lw: degenerate.append(idx) if sum(lw.values()) < 1e-12 else None)
    if degenerate:
        stats["degenerate_zero_norm_history"] = stats.get("degenerate_zero_norm_history", 0) + 1
        return [], None
    verdicts = {}
    law = {}
    mass = {"ok": 0.0, "bound": 0.0}

    def add(signature, msg, path):
        key = json.dumps(core.jsonable(signature), sort_keys=True)
        if key not in verdicts:
            verdicts[key] = (signature, msg + " [choice prefix %s]" % (list(path.choices),), list(path.choices))

    def fn():
        res = sim.execute(program, shots=N)
        # branch states are a function of the outcome history; every history is a path at N = 1
        return observe(simkind, res, N, with_states=(N == 1))

    def on_path(path):
        stats["executions"] = stats.get("executions", 0) + 1
        if path.exception is not None:
            e = path.exception
            from piquasso.api.exceptions import InvalidSimulation

            if isinstance(e, InvalidSimulation) and "Too many trials" in str(e):
                stats["paths_trial_bound"] = stats.get("paths_trial_bound", 0) + 1
                mass["bound"] += path.prob
                return
            u = _unsupported(e)
            if u:
                stats["unsupported_" + u] = stats.get("unsupported_" + u, 0) + 1
                return
            add(sig(case, "exception", exception=type(e).__name__), "shots=%d raised %s: %s" % (N, type(e).__name__, str(e)[:300]), path)
            return
        mass["ok"] += path.prob
        obs = path.result
        answers = [r for r in path.records if r[0] in ("choices_answer", "passive_sampler", "detector_draw")]
        # ---- independent bookkeeping of what the draws dictated
        branches = [_RefBranch((), N, st0, {})]
        ai = 0
        bad = None
        for op in rops:
            if op["k"] == "gate":
                for rb in branches:
                    if rb.leaf is None or (op["cond"] is not None and not op["cond"](rb.outcome)):
                        continue
                    rb.leaf = R.apply_gate(rb.leaf, op["cls"], op["modes"], op["params"](rb.outcome))
                continue
            if op["k"] == "ps":
                for rb in branches:
                    rb.leaf, _ = R.project(rb.leaf, op["modes"], op["counts"], normalise=False)
                    if not rb.leaf.modes:
                        rb.leaf = None
                    rb.labels = {**rb.labels, **dict(zip(op["modes"], op["counts"]))}
                continue
            pending = list(branches)
            new = []
            for _ in range(len(branches)):
                if ai >= len(answers):
                    bad = ("budget", "the measurement %s consumed fewer sampler calls than there are branches" % (op["modes"],))
                    break
                rec = answers[ai][1]
                ai += 1
                rb = None
                if answers[ai - 1][0] == "detector_draw":
                    bad = ("budget", "the measurement %s drew from a detector before sampling the photon numbers of a waiting branch" % (op["modes"],))
                    break
                if answers[ai - 1][0] == "choices_answer":
                    k = rec["k"]
                    tot = sum(rec["weights"])
                    got_law = {p: w / tot for p, w in zip(rec["population"], rec["weights"]) if w > 0}
                    for cand in pending:
                        if cand.count != k:
                            continue
                        ref_law = _norm_law(R.marginal_law(cand.leaf, op["modes"]))
                        if compare_weight_maps(got_law, ref_law)[0] <= TOL and compare_weight_maps(ref_law, got_law)[0] <= TOL:
                            rb = cand
                            break
                    if rb is None:
                        cands = [c for c in pending if c.count == k]
                        if not cands:
                            bad = ("nested_budget", "a sampler was asked for %d outcomes but the branches waiting for the measurement %s hold %s shots" % (k, op["modes"], [c.count for c in pending]))
                        else:
                            ref_law = _norm_law(R.marginal_law(cands[0].leaf, op["modes"]))
                            bad = ("chain_rule", "after the history %s the measurement of %s draws from %s, the conditional law is %s" % (cands[0].outcome, op["modes"], _fmt_map(got_law), _fmt_map(ref_law)))
                        break
                    samples = rec["answer"]
                else:
                    k = rec["shots"]
                    ps = dict(zip(*rec["postselect"])) if rec["postselect"] and rec["postselect"][0] else {}
                    cands = [c for c in pending if c.labels == ps]
                    if not cands:
                        bad = ("budget", "a passive sampler ran with postselection %s which is no pending history %s" % (ps, [c.labels for c in pending]))
                        break
                    cands2 = [c for c in cands if c.count == k]
                    if not cands2:
                        bad = ("nested_budget", "the branch with history %s holds %d shots but the sampler was asked for %s" % (cands[0].outcome, cands[0].count, k))
                        break
                    rb = cands2[0]
                    if rec.get("law") is not None:
                        # the sampler entry point is owned: the law of the state it was handed must be the conditional
                        # law of the history (several waiting branches may share actual photon numbers and a count)
                        got_law = dict(rec["law"])
                        rb = None
                        for cand in cands2:
                            full = rec["name"] != "generate_marginal_samples"
                            ref_law = _norm_law(R.marginal_law(cand.leaf, list(cand.leaf.modes) if full else op["modes"]))
                            if compare_weight_maps(got_law, ref_law)[0] <= TOL and compare_weight_maps(ref_law, got_law)[0] <= TOL:
                                rb = cand
                                break
                        if rb is None:
                            bad = ("chain_rule", "after the history %s the measurement of %s samples from a state with the law %s, the conditional law is %s" % (cands2[0].outcome, op["modes"], _fmt_map(got_law), _fmt_map(ref_law)))
                            break
                    act = list(rb.leaf.modes)
                    if rec["name"] == "generate_marginal_samples":
                        samples = rec["samples"]
                    else:
                        samples = [tuple(s[act.index(m)] for m in op["modes"]) for s in rec["samples"]]
                pending.remove(rb)
                if len(samples) != k:
                    bad = ("budget", "sampler returned %d outcomes for %d shots" % (len(samples), k))
                    break
                binned = {}
                for s in samples:
                    binned[s] = binned.get(s, 0) + 1
                for s, c in binned.items():
                    leaf, p = R.project(rb.leaf, op["modes"], s, normalise=True)
                    leaf = leaf if leaf.modes else None
                    labels = {**rb.labels, **dict(zip(op["modes"], s))}
                    if op["k"] == "pnm":
                        new.append(_RefBranch(rb.outcome + s, c, leaf, labels))
                        continue
                    # imperfect detector: the c shots with the actual photon numbers s get one detected count per measured
                    # mode and shot, drawn from the column of the detector matrix; the draws are paired positionally
                    cols = []
                    for m_act in s:
                        if ai >= len(answers) or answers[ai][0] != "detector_draw":
                            bad = ("budget", "the imperfect measurement of %s made fewer detector draws than it has (actual outcome, mode) pairs" % (op["modes"],))
                            break
                        drec = answers[ai][1]
                        ai += 1
                        if drec["size"] != c:
                            bad = ("nested_budget", "the %d shots with the actual photon numbers %s got %s detector draws" % (c, s, drec["size"]))
                            break
                        col = [row[m_act] for row in op["P"]]
                        if drec["n"] != len(col) or max(abs(a - b_) for a, b_ in zip(drec["p"], col)) > 1e-12:
                            bad = ("detector_law", "the detector draw for the actual photon number %d uses p = %s, the column of the detector matrix is %s" % (m_act, drec["p"], col))
                            break
                        cols.append(drec["answer"])
                    if bad:
                        break
                    dbinned = {}
                    for det in zip(*cols):
                        dbinned[det] = dbinned.get(det, 0) + 1
                    for det, c2 in dbinned.items():
                        new.append(_RefBranch(rb.outcome + det, c2, leaf.copy() if leaf is not None else None, labels))
                if bad:
                    break
            if bad:
                break
            branches = new
        if bad is None and ai != len(answers):
            bad = ("budget", "%d sampler calls were made, the program needs %d" % (len(answers), ai))
        if bad:
            sub = bad[0]
            if sub == "chain_rule" and not input_class(case).startswith("sequential"):
                sub = "weights"  # the law of the first (only) draw is wrong: not a chain-rule matter
            add(sig(case, sub), "shots=%d: %s" % (N, bad[1]), path)
            return
        expected = {}
        for rb in branches:
            expected[rb.outcome] = expected.get(rb.outcome, 0) + rb.count
        hist = tuple(sorted(expected.items()))
        law[hist] = law.get(hist, 0.0) + path.prob
        # ---- oracles on the Result
        samples = obs["samples"]
        if len(samples) != N:
            add(sig(case, "sample_count"), "shots=%d returned %d samples" % (N, len(samples)), path)
        exp_multiset = sorted(o for o, c in expected.items() for _ in range(c))
        if sorted(samples) != exp_multiset:
            # diagnosis of the ascending-order defect
            changed, ops2 = _ascending_variant(case)
            if changed and len(samples) == N:
                act = list(range(case["d"]))
                perm_expected = []
                for o in exp_multiset:
                    # re-read every all-modes measurement in ascending order
                    pos = 0
                    act2 = list(range(case["d"]))
                    o2 = []
                    for op, op2 in zip(case["ops"], ops2):
                        if op["k"] == "pnm":
                            part = dict(zip(op["modes"], o[pos:pos + len(op["modes"])]))
                            o2.extend(part[m] for m in op2["modes"])
                            pos += len(op["modes"])
                    perm_expected.append(tuple(o2))
                if sorted(perm_expected) == sorted(samples):
                    add(
                        dict(sig(case, "outcome_order"), input_class="full_measurement_non_ascending_modes"),
                        "shots=%d: samples of a measurement of ALL remaining modes come back in ascending mode order: got %s, the draws dictated %s" % (N, sorted(samples), exp_multiset),
                        path,
                    )
                    return
            add(sig(case, "samples"), "shots=%d: samples %s are not the multiset the draws dictated %s" % (N, sorted(samples), exp_multiset), path)
            return
        if any(len(s) != n_out for s in samples):
            add(sig(case, "sample_length"), "samples %s do not have one entry per measured mode (%d)" % (samples, n_out), path)
        total = Fraction(0)
        seen = {}
        for b in obs["branches"]:
            f = b["freq"]
            if not isinstance(f, Fraction):
                add(sig(case, "frequency_type", type=type(f).__name__), "branch %s has frequency %r of type %s" % (b["outcome"], f, type(f).__name__), path)
                continue
            kN = f * N
            if kN.denominator != 1 or kN <= 0:
                add(sig(case, "frequency_value"), "branch %s has frequency %s, not k/%d with a positive integer k" % (b["outcome"], f, N), path)
            total += f
            seen[b["outcome"]] = seen.get(b["outcome"], 0) + f
        if not any(not isinstance(b["freq"], Fraction) for b in obs["branches"]):
            if total != 1:
                add(sig(case, "frequency_sum"), "branch frequencies sum to %s" % (total,), path)
            if seen != {o: Fraction(c, N) for o, c in expected.items()}:
                add(sig(case, "frequencies"), "branch frequencies %s, the draws dictated %s" % (seen, expected), path)
        dup_out = len({b["outcome"] for b in obs["branches"]}) != len(obs["branches"])
        if dup_out and not imperfect:
            add(sig(case, "duplicate_outcome"), "two branches carry the same outcome", path)
        if dup_out and imperfect and not any(not isinstance(b["freq"], Fraction) for b in obs["branches"]):
            # one branch per (actual, detected) pair: the entry of an outcome in Result.outcome_map must still carry the
            # frequency of that outcome
            omf = {k: f for k, f, _, _ in obs["outcome_map"]}
            wrong = sorted(k for k in seen if omf.get(k) != seen[k])
            if wrong:
                add(
                    dict(sig(case, "outcome_map"), input_class=SAME_DETECTED),
                    "shots=%d: Result.outcome_map gives outcome %s the frequency %s, the branches with that outcome hold %s (sum over the map %s)"
                    % (N, wrong[0], omf.get(wrong[0]), seen[wrong[0]], sum(omf.values())),
                    path,
                )
        counts = obs["counts"]
        if sum(counts.values()) != N or counts != expected:
            add(sig(case, "counts"), "get_counts() = %s, the draws dictated %s (sum must be %d)" % (counts, expected, N), path)
        om = obs["outcome_map"]
        br = obs["branches"]
        if len({b["outcome"] for b in br}) == len(br) and (
            [k for k, _, _, _ in om] != [b["outcome"] for b in br] or any(f != b["freq"] or sid != b["state_id"] for (k, f, sid, _), b in zip(om, br))
        ):
            add(sig(case, "outcome_map"), "Result.outcome_map is not the list of branches keyed by outcome", path)
        # branch states given the history
        by_outcome = {rb.outcome: rb for rb in branches}
        for b in obs["branches"] if N == 1 else ():
            rb = by_outcome.get(b["outcome"])
            if rb is None:
                continue
            stats["states_compared"] = stats.get("states_compared", 0) + 1
            kind, detail = compare_state(simkind, rb.leaf, b["state"])
            if kind == "norm":
                kind = None  # the property speaks about the norm of branch states for shots=None only
            if kind:
                sub = {"norm": "branch_state_norm", "direction": "branch_state", "shape": "branch_state_shape", "lost": "branch_state_cutoff"}[kind]
                add(sig(case, sub), "shots=%d, history %s: %s" % (N, b["outcome"], detail), path)

    ctl = ChoiceController(max_paths=case.get("max_paths", 200000))
    # detector draws: an imperfect measurement of ONE mode only bins its draws (every multiset is exact); the draws of
    # several modes are paired shot by shot (every ordered sequence)
    size_mode = "multiset" if all(len(op["modes"]) == 1 for op in case["ops"] if op["k"] == "ipnm") else "sequence"
    with owned_randomness(ctl, choices_mode="multiset", shuffle_mode="identity", rng_size_mode=size_mode) as config_rng:
        if imperfect:
            # the detector draws of the imperfect measurement (Config.rng.choice(n, size=multiplicity, p=column)): every
            # ordered sequence is a path (the draws of several modes are paired positionally); the answers are recorded
            orig_choice = config_rng.choice

            def rng_choice(a, size=None, replace=True, p=None, **kw):
                out = orig_choice(a, size=size, replace=replace, p=p, **kw)
                ctl.record("detector_draw", n=int(a), size=size, p=[float(x) for x in p], answer=[int(x) for x in out])
                return out

            config_rng.choice = rng_choice
        with recording(ctl, passive=case.get("sampler", "real")):
            if case.get("prefix") is not None:
                on_path(ctl.run(fn, tuple(case["prefix"])))
                return [(s, m) for s, m, _ in verdicts.values()], None
            ex = ctl.explore(fn, on_path=on_path, keep_paths=False)
    if not ex.complete:
        raise core.HarnessError("HARNESS-CAP C03 shots exploration hit the path cap on %s" % json.dumps(core.jsonable(case))[:400])
    stats["paths"] = stats.get("paths", 0) + ex.n_paths
    stats["tree_states"] = stats.get("tree_states", 0) + ex.n_states
    stats["tree_edges"] = stats.get("tree_edges", 0) + ex.n_edges
    stats["choice_points"] = stats.get("choice_points", 0) + ex.n_choice_points + ex.n_forced
    stats["max_depth"] = max(stats.get("max_depth", 0), ex.max_depth)
    if abs(ex.mass - 1.0) > 1e-9:
        raise core.HarnessError("HARNESS-MASS explored probability mass %.15g != 1 on %s" % (ex.mass, json.dumps(core.jsonable(case))[:300]))
    out = [(s, m) for s, m, _ in verdicts.values()]
    prefixes = {json.dumps(core.jsonable(s), sort_keys=True): p for s, m, p in verdicts.values()}
    # the law of the histories at N = 1 is the joint outcome law (chain rule in sampling mode)
    seen_pnm, ps_after_pnm = False, False
    for op in case["ops"]:
        seen_pnm = seen_pnm or op["k"] == "pnm"
        ps_after_pnm = ps_after_pnm or (seen_pnm and op["k"] == "ps")
    # (a post-selection AFTER a measurement is not judged: sampling never discards a shot, so the histories follow
    # p(a) p(b | a, ps) while the exact tree carries p(a, ps, b); the property fixes neither)
    if N == 1 and not out and mass["ok"] > 0 and not ps_after_pnm:
        leaves = R.run_tree(st0, rops)
        tot = sum(lf.weight for lf in leaves)
        ref = _aggregate((lf.outcome, lf.weight / tot) for lf in leaves if lf.weight > 0)
        got = {}
        for hist, p in law.items():
            got[hist[0][0]] = got.get(hist[0][0], 0.0) + p / mass["ok"]
        e, k = compare_weight_maps(got, ref, TOL)
        e2, k2 = compare_weight_maps(ref, got, TOL)
        stats["history_laws_compared"] = stats.get("history_laws_compared", 0) + 1
        if max(e, e2) > 1e-9 and mass["bound"] == 0.0:
            out.append((sig(case, "history_law"), "shots=1: the law of the outcome histories over all random paths differs from the joint Born law by %.3g at %s: got %s expected %s" % (max(e, e2), k or k2, _fmt_map(got), _fmt_map(ref))))
    return out, prefixes


# ---------------------------------------------------------------------------------------
# family "budget": the (k, N) lattice of nested shot budgets, one forced execution per lattice point


_REC_CLASSES = {}


def recording_simulator(case, log):
    """the simulator of the case as a thin user-level subclass whose _instruction_map entries of the particle-number
    measurements are wrapped: every call of the simulation step appends (instruction class, modes, the `shots`
    argument it was handed, the outcome / frequency of the branches it returned) to `log`"""
    import piquasso as pq

    base = type(build_sim(case))
    cls = _REC_CLASSES.get(base)
    if cls is None:

        class Recording(base):
            @property
            def _instruction_map(self):
                m = self.__dict__.get("_c03_map")
                if m is None:
                    m = dict(super()._instruction_map)
                    for mcls in (pq.ParticleNumberMeasurement, pq.ImperfectParticleNumberMeasurement):
                        if mcls in m:
                            m[mcls] = self._c03_wrap(m[mcls])
                    self.__dict__["_c03_map"] = m
                return m

            def _c03_wrap(self, step):
                def wrapped(state, instruction, shots):
                    log_ = self._c03_log
                    entry = {"cls": type(instruction).__name__, "modes": tuple(int(m) for m in instruction.modes), "shots": shots, "d0": len(self._c03_draws)}
                    log_.append(entry)
                    out = step(state, instruction, shots)
                    entry["d1"] = len(self._c03_draws)
                    entry["sub"] = [(tuple(int(x) for x in b.outcome), b.frequency) for b in out]
                    return out

                return wrapped

        Recording.__name__ = base.__name__
        Recording.__qualname__ = base.__qualname__
        cls = _REC_CLASSES[base] = Recording
    kw = dict(cutoff=case["cutoff"])
    if case.get("K"):
        kw["max_sample_generation_trials"] = case["K"]
    sim = cls(d=case["d"], config=pq.Config(**kw))
    sim._c03_log = log
    sim._c03_draws = []
    return sim


def budget_ops(simkind, levels, seed):
    """PNM(0), gate with an outcome-dependent parameter on (1, 2), PNM(1) [, gate on 2 with an outcome-dependent
    parameter, PNM(2)] on three modes"""
    ops = [{"k": "pnm", "modes": [0]}, make_gate(simkind, "Gpc", [1, 2], 1, seed), {"k": "pnm", "modes": [1]}]
    if levels == 3:
        ops += [make_gate(simkind, "Gps", [2], 3, seed), {"k": "pnm", "modes": [2]}]
    return ops


def _two(k, a, n):
    if n < 2:
        return [0] * k
    a = max(0, min(a, k))
    return [0] * a + [1] * (k - a)


def budget_policy(case):
    """what the harness dictates: the first categorical draw returns k1 times its first and (what it was asked for) - k1
    times its second outcome; the second draw (the second-level measurement of the first first-level branch) returns k2
    times its first outcome and the rest its second one -- k2 = None: all but one its first outcome; every other draw
    returns its first outcome only."""
    k1, k2 = case["k1"], case.get("k2")

    def policy(ci, n, k):
        if ci == 0:
            return _two(k, k1, n)
        if ci == 1:
            return _two(k, k - 1 if k2 is None else k2, n)
        return [0] * k

    return policy


_BUDGET_ENV = {}


def _bin(samples):
    out = {}
    for s in samples:
        out[s] = out.get(s, 0) + 1
    return list(out.items())


def budget_one(case, stats, env):
    """one execution of the real simulator under forced draws; env = (ctl, draws list shared with the forcing seam)"""
    import piquasso as pq
    from mc import core

    ctl, draws = env["ctl"], env["draws"]
    simkind, N = case["sim"], case["shots"]
    key = (simkind, case["levels"], case["seed"], case["d"], case["cutoff"], case["init"])
    cached = env["cache"].get(key)
    if cached is None:
        log = []
        c0 = dict(case, ops=budget_ops(simkind, case["levels"], case["seed"]))
        sim = recording_simulator(c0, log)
        sim._c03_draws = draws
        program = pq.Program(instructions=build_instructions(c0))
        cached = env["cache"][key] = (sim, program, log, c0["ops"])
    sim, program, log, ops = cached
    case = dict(case, ops=ops)
    del log[:]
    del draws[:]
    env["policy"][0] = budget_policy(case)
    verdicts = []

    def add(sub, msg, **extra):
        s = sig(case, sub, **extra)
        if all(s != v[0] for v in verdicts):
            verdicts.append((s, "shots=%d, k1=%s, k2=%s: %s" % (N, case["k1"], case.get("k2"), msg)))

    def fn():
        res = sim.execute(program, shots=N)
        return observe(simkind, res, N, with_states=False)

    stats["executions"] = stats.get("executions", 0) + 1
    path = ctl.run(fn, ())
    if path.points:
        raise core.HarnessError("HARNESS-UNCAPTURED a forced C03 budget execution met %d free choice points" % len(path.points))
    if path.exception is not None:
        e = path.exception
        u = _unsupported(e)
        if u:
            stats["unsupported_" + u] = stats.get("unsupported_" + u, 0) + 1
            return verdicts
        add("exception", "raised %s: %s" % (type(e).__name__, str(e)[:300]), exception=type(e).__name__)
        return verdicts
    obs = path.result
    stats["paths"] = stats.get("paths", 0) + 1
    stats["lattice_points"] = stats.get("lattice_points", 0) + 1
    # ---- independent bookkeeping: every branch hands its own count to the next measurement
    branches = [((), N)]
    li = 0
    for op in ops:
        if op["k"] != "pnm":
            continue
        new = []
        for outcome, count in branches:
            if li >= len(log):
                add("budget", "the measurement of %s ran for fewer branches than the draws created (%d)" % (op["modes"], len(branches)))
                return verdicts
            entry = log[li]
            li += 1
            stats["budgets_checked"] = stats.get("budgets_checked", 0) + 1
            if entry["shots"] != count or type(entry["shots"]) is not int:
                add(
                    "nested_budget",
                    "the branch with history %s holds %d of the %d shots (frequency %s) but the simulation step of the next measurement "
                    "was handed shots=%r" % (outcome, count, N, Fraction(count, N), entry["shots"]),
                )
                return verdicts
            if entry.get("d1", -1) - entry["d0"] != 1:
                raise core.HarnessError("HARNESS-UNCAPTURED a particle-number measurement step made %s categorical draws" % (entry.get("d1", -1) - entry["d0"],))
            d = draws[entry["d0"]]
            if d["k"] != count:
                add("budget", "the measurement step was handed shots=%d but asked its sampler for %d outcomes" % (count, d["k"]))
                return verdicts
            binned = _bin(d["answer"])
            if entry["sub"] != [(s, Fraction(c, count)) for s, c in binned]:
                add("step_frequencies", "a sampler returned %s for %d shots, the measurement step made the branches %s" % (binned, count, entry["sub"]))
                return verdicts
            new.extend((outcome + s, c) for s, c in binned)
        branches = new
    if li != len(log):
        add("budget", "%d measurement steps ran, the branches the draws created need %d" % (len(log), li))
        return verdicts
    expected = {}
    for o, c in branches:
        expected[o] = expected.get(o, 0) + c
    stats["tree_states"] = stats.get("tree_states", 0) + 1 + len(log)
    stats["tree_edges"] = stats.get("tree_edges", 0) + sum(len(e["sub"]) for e in log)
    stats["max_shots"] = max(stats.get("max_shots", 0), N)
    # ---- the Result
    samples = obs["samples"]
    if len(samples) != N:
        add("sample_count", "returned %d samples" % len(samples))
    if sorted(samples) != sorted(o for o, c in expected.items() for _ in range(c)):
        add("samples", "the samples are not the multiset the draws dictated: got %s, dictated %s" % (_bin(sorted(samples)), sorted(expected.items())))
    counts = obs["counts"]
    if sum(counts.values()) != N or counts != expected:
        add("counts", "get_counts() = %s (sum %d), the draws dictated %s" % (counts, sum(counts.values()), expected))
    total, seen, typed = Fraction(0), {}, True
    for b in obs["branches"]:
        f = b["freq"]
        if not isinstance(f, Fraction):
            add("frequency_type", "branch %s has frequency %r of type %s" % (b["outcome"], f, type(f).__name__), type=type(f).__name__)
            typed = False
            continue
        if N % f.denominator != 0 or f <= 0:
            add("frequency_value", "branch %s has frequency %s, not k/%d with a positive integer k" % (b["outcome"], f, N))
        total += f
        seen[b["outcome"]] = seen.get(b["outcome"], 0) + f
    if typed:
        if total != 1:
            add("frequency_sum", "branch frequencies sum to %s" % (total,))
        if seen != {o: Fraction(c, N) for o, c in expected.items()}:
            add("frequencies", "branch frequencies %s, the draws dictated %s" % (seen, expected))
    if len(seen) != len(obs["branches"]) and typed:
        add("duplicate_outcome", "two branches carry the same outcome")
    return verdicts


@contextlib.contextmanager
def budget_env():
    """owned randomness + forced categorical draws, entered once for many lattice points"""
    from mc.choice import ChoiceController, owned_randomness
    from mc.c03_own import forcing

    ctl = ChoiceController(max_paths=1)
    draws = []
    policy = [None]
    with owned_randomness(ctl, choices_mode="multiset", shuffle_mode="identity"):
        with forcing(ctl, lambda ci, n, k: policy[0](ci, n, k), draws):
            yield {"ctl": ctl, "draws": draws, "policy": policy, "cache": {}}


def check_budget(case, stats, env=None):
    if env is not None:
        return budget_one(case, stats, env)
    with budget_env() as env:
        return budget_one(case, stats, env)


def budget_lattice(levels, nmax):
    """levels 2: every (N, k1) with 1 <= N <= nmax, 0 <= k1 <= N;  levels 3: every (N, k1, k2), 0 <= k2 <= k1 <= N"""
    for N in range(1, nmax + 1):
        for k1 in range(0, N + 1):
            if levels == 2:
                yield N, k1, None
            else:
                for k2 in range(0, k1 + 1):
                    yield N, k1, k2


def work_budget(ctx, simkind, d, init, ch, nchunk, bounds):
    import piquasso as pq

    base = {"fam": "budget", "sim": simkind, "d": d, "init": init, "cutoff": 2, "seed": ctx.seed}
    sim = build_sim(base)
    if pq.ParticleNumberMeasurement not in sim._measurement_classes_allowed_mid_circuit:
        # the simulator's own declaration; one probe execution confirms the refusal (an unsupported cell)
        case = dict(base, levels=2, shots=2, k1=1, k2=None)
        run_case(ctx, case)
        return
    with budget_env() as env:
        for levels in (2, 3):
            for i, (N, k1, k2) in enumerate(budget_lattice(levels, bounds[levels])):
                if (N + k1) % nchunk != ch:
                    continue
                case = dict(base, levels=levels, shots=N, k1=k1, k2=k2)
                run_case(ctx, case, env)
                if N <= 6:
                    ctx.note_distinct(case)
                if N == 5 and k1 == 2 and not k2:
                    ctx.sample(case)
    ctx.counters["max_budget_N_2level"] = max(ctx.counters.get("max_budget_N_2level", 0), bounds[2])
    ctx.counters["max_budget_N_3level"] = max(ctx.counters.get("max_budget_N_3level", 0), bounds[3])


# ---------------------------------------------------------------------------------------
# dispatch, determinism, replay


def check_case(case, stats, cache=None):
    fam = case["fam"]
    if fam == "tree":
        return check_tree(case, stats), None
    if fam == "fbox":
        return check_fbox(case, stats), None
    if fam == "part":
        return check_part(case, stats, cache), None
    if fam == "shots":
        return check_shots(case, stats)
    if fam == "gauss":
        return check_gauss(case, stats), None
    if fam == "budget":
        return check_budget(case, stats, cache), None
    raise KeyError(fam)


def _sigkeys(verdicts):
    from mc import core

    return sorted(json.dumps(core.jsonable(s), sort_keys=True) for s, _ in verdicts)


_CONFIRMED = {}


def run_case(ctx, case, cache=None):
    from mc import core

    stats = {}
    verdicts, prefixes = check_case(case, stats, cache)
    for k, v in stats.items():
        if k.startswith("max_"):
            ctx.counters[k] = max(ctx.counters.get(k, 0), v)
        else:
            ctx.count(k, v)
    ctx.count("cases")
    if verdicts:
        keys = _sigkeys(verdicts)
        # every violation is executed a second time before it is reported; a signature that was already confirmed
        # in this worker is not re-confirmed for each of its (often hundreds of) further occurrences
        if any(k not in _CONFIRMED for k in keys):
            again, _ = check_case(case, {}, cache if case["fam"] == "budget" else None)
            if _sigkeys(again) != keys:
                raise core.HarnessError(
                    "HARNESS-NONDETERMINISM C03 case gave %s then %s: %s" % (keys, _sigkeys(again), json.dumps(core.jsonable(case))[:500])
                )
        for s, msg in verdicts:
            k = json.dumps(core.jsonable(s), sort_keys=True)
            _CONFIRMED[k] = _CONFIRMED.get(k, 0) + 1
            ctx.count("violating_cases")
            if _CONFIRMED[k] > 3:
                continue  # same signature: merged into one VIOLATION line anyway; keep the first few cases
            c = dict(case)
            if prefixes:
                p = prefixes.get(k)
                if p is not None:
                    c["prefix"] = p
            ctx.violation(s, c, msg)
    return verdicts


def replay(ctx, case, signature):
    from mc import core

    verdicts, _ = check_case(case, {}, None)
    want = json.dumps(core.jsonable(signature), sort_keys=True)
    for s, msg in verdicts:
        if json.dumps(core.jsonable(s), sort_keys=True) == want:
            ctx.violation(s, case, msg)


# ---------------------------------------------------------------------------------------
# items


def _bounds(tier):
    """shots: list of (N values, max program length) -- a program of length L is explored for every N whose bound
    admits L"""
    if tier == "quick":
        return dict(
            ds=(2, 3),
            tree=dict(depth=4, max_meas=2, max_gates=2),
            tree_d4=None,
            part_d=3,
            shots=dict(depth=3, max_meas=2, max_gates=1, N={1: 3, 2: 3, 3: 3}, d=(2, 3)),
            passive_real={2: dict(depth=3, max_meas=2, max_gates=1, N={1: 3}), 3: dict(depth=2, max_meas=2, max_gates=0, N={1: 2})},
            inits={"pure": ("n11", "sup"), "fock": ("mix",), "passive": ("n11", "n2"), "fermi": ("f11", "fsup")},
            shots_inits={"pure": ("n11",), "fock": ("mix",), "passive": ("n11",), "fermi": ("fsup",)},
            budget={2: 120, 3: 24},
            fbox={4: 1},  # d: number of chunks per root
            # programs around an ImperfectParticleNumberMeasurement, per number of modes; N: {shots: (largest width of an
            # imperfect measurement, largest number of ops behind the first measurement)}
            itree={
                2: dict(depth=2, max_meas=1, max_gates=1, pre_gate=False, letters=GATE_LETTERS, inits={"pure": ("n1",), "fock": ("n1",), "passive": ("n11", "n2")}),
                3: dict(depth=2, max_meas=1, max_gates=1, pre_gate=False, letters=GATE_LETTERS, inits={"pure": ("n1",), "fock": ("n1",), "passive": ("n11",)}),
            },
            ishots={
                2: dict(depth=2, max_meas=1, max_gates=1, pre_gate=False, letters=GATE_LETTERS, N={1: (9, 2), 2: (1, 2), 3: (1, 0)},
                        inits={"pure": ("n1",), "fock": ("n1",), "passive": ("n11",)}),
                3: dict(depth=2, max_meas=1, max_gates=1, pre_gate=False, letters=("Gu", "Gpc"), N={1: (9, 2), 2: (1, 1)},
                        N_cheap={1: (9, 2), 2: (2, 2), 3: (1, 1)}, inits={"pure": ("n1",), "fock": ("n1",), "passive": ("n11",)}),
            },
        )
    return dict(
        ds=(2, 3, 4),
        tree=dict(depth=5, max_meas=3, max_gates=2),
        tree_d4=dict(depth=4, max_meas=2, max_gates=2),
        part_d=4,
        shots=dict(depth=4, max_meas=3, max_gates=1, N={1: 4, 2: 4, 3: 3, 4: 3}, d=(2, 3)),
        passive_real={2: dict(depth=3, max_meas=2, max_gates=1, N={1: 3, 2: 2}), 3: dict(depth=3, max_meas=2, max_gates=1, N={1: 3})},
        inits={"pure": ("n11", "sup", "n21"), "fock": ("mix", "n11"), "passive": ("n11", "n2", "n21"), "fermi": ("f11", "fsup", "fnum")},
        inits_d4={"pure": ("n11", "sup"), "fock": ("mix",), "passive": ("n11", "n2"), "fermi": ("f11", "fsup")},
        shots_inits={"pure": ("n11", "sup"), "fock": ("mix",), "passive": ("n11", "n2"), "fermi": ("fsup", "fnum")},
        budget={2: 400, 3: 60},
        fbox={4: 1, 5: 5},
        itree={
            2: dict(depth=3, max_meas=2, max_gates=2, pre_gate=True, letters=GATE_LETTERS, inits={"pure": ("n1",), "fock": ("n1",), "passive": ("n11", "n2", "n21")}),
            3: dict(depth=3, max_meas=2, max_gates=2, pre_gate=True, letters=GATE_LETTERS, inits={"pure": ("n1",), "fock": ("n1",), "passive": ("n11", "n2")}),
        },
        ishots={
            2: dict(depth=2, max_meas=1, max_gates=1, pre_gate=True, letters=GATE_LETTERS, N={1: (9, 2), 2: (2, 2), 3: (1, 1), 4: (1, 0)},
                    inits={"pure": ("n1", "n11"), "fock": ("n1", "mix"), "passive": ("n11", "n2")}),
            3: dict(depth=2, max_meas=1, max_gates=1, pre_gate=False, letters=GATE_LETTERS, N={1: (9, 2), 2: (1, 2), 3: (1, 0)},
                    inits={"pure": ("n1",), "fock": ("n1",), "passive": ("n11",)}),
        },
    )


def _nchunks(tier, fam, simkind, d):
    if fam == "tree":
        if d >= 4:
            return 32
        if d == 3:
            return {"quick": 2, "thorough": 8}[tier] if simkind != "fock" else 1
        return 1
    if fam == "shots":
        if simkind == "fock":
            return 2 if d == 3 else 1
        if d == 3:
            return {"quick": 8, "thorough": 48}[tier]
        return {"quick": 1, "thorough": 4}[tier]
    return 1


def _items(tier):
    b = _bounds(tier)
    items = []
    for simkind in ("pure", "fock", "passive", "fermi"):
        for d in b["ds"]:
            inits = b["inits"][simkind] if d < 4 else b["inits_d4"][simkind]
            for init in inits:
                n = _nchunks(tier, "tree", simkind, d)
                for ch in range(n):
                    items.append(("tree", simkind, d, init, ch, n))
                if d <= b["part_d"]:
                    items.append(("part", simkind, d, init, 0, 1))
        for d in b["shots"]["d"]:
            for init in b["shots_inits"][simkind]:
                n = _nchunks(tier, "shots", simkind, d)
                for ch in range(n):
                    items.append(("shots", simkind, d, init, ch, n))
    items.append(("gauss", "gauss", 0, "", 0, 1))
    for d, n in sorted(b["fbox"].items()):
        for init in fbox_roots(d):
            for ch in range(n):
                items.append(("fbox", "fermi", d, init, ch, n))
    for fam in ("itree", "ishots"):
        for simkind in ("passive", "pure", "fock"):
            for d in sorted(b[fam]):
                for init in b[fam][d]["inits"][simkind]:
                    n = 1
                    if simkind == "passive" and d == 3:
                        n = {"quick": 2, "thorough": 16}[tier]
                    for ch in range(n):
                        items.append((fam, simkind, d, init, ch, n))
    for simkind in ("pure", "passive", "fermi", "fock"):
        n = 1 if simkind == "fock" else {"quick": 2, "thorough": 12}[tier]
        for ch in range(n):
            items.append(("budget", simkind, 3, "f1" if simkind == "fermi" else "n1", ch, n))
    # heavy items first (the pool takes them in order): shots at d = 3, then trees
    order = {"shots": 0, "tree": 1, "part": 2, "gauss": 2, "budget": 1, "itree": 1, "ishots": 0, "fbox": 1}
    items.sort(key=lambda it: (order[it[0]], -it[2]))
    return items


def run(ctx, builddir):
    from mc import core

    items = _items(ctx.tier)
    only = getattr(ctx, "only", None)
    if only:
        keys = only.split(",")
        items = [it for it in items if all(k in (it[0], it[1], "d%d" % it[2], it[3]) for k in keys)]
    ctx.rule = (
        "tree/part: every op sequence over {PNM on every ordered non-empty subset of the active modes, PostSelectPhotons(mode, 0|1), "
        "unconditioned / lambda-conditioned / string-conditioned gate, gate with callable / expression-string parameter} within the "
        "depth and measurement bounds, per simulator, d and initial state; shots: the same alphabet at smaller depth, and for each program "
        "and N EVERY path of the harness-owned randomness (every multiset of outcomes of every categorical draw, recursively per branch). "
        "itree/ishots: [Gu] ImperfectParticleNumberMeasurement(S) for every ordered subset S (strict subsets where the simulator allows "
        "it mid-circuit), then every op sequence over the same alphabet + IPNM(T) within the depth bound (terminal-only simulators: "
        "[PNM(S), [gate]] IPNM(T)); with shots=N every multiset of actual outcomes and every sequence (one measured mode: multiset) of "
        "detector draws.  budget: every lattice point (N, k) 1 <= N <= Nmax, 0 <= k <= N (two measurement levels) and (N, k1, k2), "
        "k2 <= k1 <= N (three levels), ONE forced execution each (no other multiset is enumerated there). "
        "fbox: fermionic, d = 4 (thorough: and 5): every 2-fermion and one 3-fermion number state, generic Interferometer, PNM on every "
        "single mode and every ordered pair, alone and followed by (Beamsplitter | Interferometer on every window of the remaining "
        "modes) + PNM of every single remaining mode; each also with the gate moved before the first measurement when its window "
        "is consecutive in the full register. "
        "A case is one program (tree, part, fbox), one (program, N) with all of its random paths (shots) or one lattice point (budget); "
        "distinct = distinct serialised case (budget: lattice points with N <= 6 only are registered); "
        "non-trivial = contains at least one measurement whose outcome is not deterministic."
    )
    ctx.assume("gate alphabet restricted to photon-number-conserving gates (Beamsplitter, Phaseshifter, Kerr, Interferometer): exact in a truncated Fock space, so sequential and joint measurements must agree to 1e-9")
    ctx.assume("exact trees may drop outcomes of probability <= 1e-8 (numpy.isclose in piquasso/_utils.py): reference outcomes <= 2e-8 may be absent; zero-weight branches are not compared")
    ctx.assume("generic unitary / angles are a deterministic function of VERIF_SEED (no RNG)")
    ctx.assume("fermionic branch states are compared up to a global sign per branch (the two physically equivalent conventions -- measured creation operators anticommuted to the left or to the right -- differ by one)")
    ctx.assume("budget family: the categorical draws are dictated (forced), so path probabilities play no role there; the passive sampler entry points are answered from the law computed by the reference model (the sampling law itself is C02's subject)")
    ctx.assume("imperfect detector: the implementation's representation (one branch per (actual, detected) pair while a state remains, pairs merged when no mode remains) is accepted as is: totals per reported outcome must be the exact joint probabilities, and pairs are compared pair by pair when their number agrees with the reference; detector probabilities go through Fraction(float).limit_denominator() (1e-12), far inside 1e-9")
    ctx.assume("PassiveSimulator, shots=None, a further measurement behind an imperfect one: a deviation that equals the known double count (F17a) exactly is reported with the F17a signature, any other deviation with input_class sequential_measurements_not_the_known_double_count")
    ctx.assume("passive post-selected full-mode sampling is made finite with Config.max_sample_generation_trials = 2; paths ending in 'Too many trials' are counted, not judged")
    core.pmap(ctx, "mc.checks.c03", "work", items, builddir)
    c = ctx.counters
    if any(it[0] == "shots" for it in items) and not c.get("choice_points"):
        raise core.HarnessError("HARNESS-UNCAPTURED the shots=N explorations met no choice point: the random seams are not owned")
    if any(it[0] == "shots" for it in items) and c.get("paths", 0) <= c.get("cases", 0) / 4:
        raise core.HarnessError("HARNESS-UNCAPTURED the shots=N explorations did not branch")
    return {
        "states": c.get("tree_states", 0) + c.get("branches", 0) + c.get("maps_compared", 0),
        "transitions": c.get("tree_edges", 0) + c.get("branches", 0),
        "traces_validated_against_impl": c.get("executions", 0),
        "paths": c.get("paths", 0),
        "max_depth": c.get("max_depth", 0),
        "programs": c.get("cases", 0),
        "budget_lattice_points": c.get("lattice_points", 0),
        "budget_max_shots": c.get("max_shots", 0),
        "nested_budgets_checked": c.get("budgets_checked", 0),
        "imperfect_pairs_matched": c.get("pairs_matched", 0),
        "unsupported_cells": sum(v for k, v in c.items() if k.startswith("unsupported_")),
        "explanation": "states = nodes of the choice trees of the shots=N explorations (distinct choice prefixes) + branches of the exact "
        "(shots=None) outcome trees + joint/sequential weight maps compared; transitions = alternatives of all choice points + exact-tree "
        "branches (one measurement outcome each); traces = executions of simulator.execute on the real implementation, each compared "
        "with the reference model (every random path of every (program, N), every exact tree, every partition, every lattice point of "
        "the budget family: there a state is a node of the forced outcome tree -- root + one per measurement step call -- and a transition "
        "one branch created by a step)",
    }


def work(ctx, item):
    fam, simkind, d, init, ch, nchunk = item
    if fam == "gauss":
        return work_gauss(ctx)
    tier = ctx.tier
    b = _bounds(tier)
    seed = ctx.seed
    if fam == "budget":
        return work_budget(ctx, simkind, d, init, ch, nchunk, b["budget"])
    cutoff = max_photons(simkind, init, d) + 1
    base = {"sim": simkind, "d": d, "init": init, "cutoff": cutoff, "seed": seed}
    # the simulator's own declaration of what it allows mid-circuit
    import piquasso as pq
    from mc.refmodel import projref as R

    err = R.index_self_test()
    if err:
        from mc import core

        raise core.HarnessError("HARNESS-SELFTEST projref: " + err)
    sim = build_sim(dict(base))
    mid = sim._measurement_classes_allowed_mid_circuit
    allow_mid = pq.ParticleNumberMeasurement in mid
    allow_ps = pq.PostSelectPhotons in sim._instruction_map
    if fam in ("itree", "ishots"):
        bb = b[fam][d]
        mid = pq.ImperfectParticleNumberMeasurement in mid
        if pq.ImperfectParticleNumberMeasurement not in sim._instruction_map:
            ctx.count("unsupported_not_implemented")
            return
        progs = enum_imperfect_programs(simkind, d, cutoff, bb["depth"], bb["max_meas"], bb["max_gates"], bb["letters"], allow_ps, seed, mid, allow_mid, bb["pre_gate"])
        if not mid:
            # one probe of the shape the simulator refuses (an unsupported cell)
            progs.append([{"k": "ipnm", "modes": [0], "ncols": cutoff}, {"k": "pnm", "modes": [1]}])
        if fam == "itree" and pq.ImperfectParticleNumberMeasurement not in sim._measurement_classes_allowed_with_shots_none:
            # the simulator's own declaration: no exact tree behind an imperfect detector; one probe (an unsupported cell)
            progs = progs[:1]
        for i, ops in enumerate(progs):
            if i % nchunk != ch:
                continue
            if fam == "itree":
                case = dict(base, fam="tree", ops=ops)
                run_case(ctx, case)
                ctx.note_distinct(case)
                if i < 2:
                    ctx.sample(case)
                continue
            for N in ishots_N(ops, bb["N"] if simkind == "passive" or cutoff > 2 else bb.get("N_cheap", bb["N"])):
                case = dict(base, fam="shots", ops=ops, shots=N)
                if simkind == "passive":
                    case["sampler"] = "owned"
                run_case(ctx, case)
                ctx.note_distinct(case)
                if i < 1 and N == 2:
                    ctx.sample(case)
        return
    if fam == "fbox":
        for i, S in enumerate(fbox_first_measurements(d)):
            if i % nchunk != ch:
                continue
            first = {"k": "pnm", "modes": list(S)}
            progs = [[first]] + [[first, g, {"k": "pnm", "modes": [m]}] for g, m in fbox_followups(d, S, seed)]
            for j, ops in enumerate(progs):
                case = dict(base, fam="fbox", ops=ops)
                run_case(ctx, case)
                ctx.note_distinct(case)
                if i == 1 and j == 1:
                    ctx.sample(case)
        return
    if fam == "tree":
        bb = b["tree"] if d < 4 else b["tree_d4"]
        progs = enum_programs(simkind, d, bb["depth"], bb["max_meas"], GATE_LETTERS, allow_ps, not allow_mid, seed, bb["max_gates"])
        if not allow_mid:
            # one probe per shape that the simulator refuses (counted as unsupported cells)
            progs += [[{"k": "pnm", "modes": [0]}, {"k": "pnm", "modes": [1]}]]
        for i, ops in enumerate(progs):
            if i % nchunk != ch:
                continue
            case = dict(base, fam="tree", ops=ops)
            run_case(ctx, case)
            ctx.note_distinct(case)
            if i < 2:
                ctx.sample(case)
        return
    if fam == "part":
        cache = {}
        pres = [[]]
        if tier != "quick" or d <= 2:
            pres.append([make_gate(simkind, "Gu", list(range(d)), 1, seed)])
        for pre in pres:
            for k in range(1, d + 1):
                for M in itertools.combinations(range(d), k):
                    for blocks, concat in R.ordered_set_partitions(M):
                        if len(blocks) > 1 and not allow_mid:
                            ctx.count("unsupported_mid_circuit_not_allowed")
                            continue
                        case = dict(base, fam="part", pre=pre, blocks=[list(x) for x in blocks], ops=[{"k": "pnm", "modes": list(x)} for x in blocks])
                        run_case(ctx, case, cache)
                        ctx.note_distinct(case)
        return
    if fam == "shots":
        variants = [(None, b["shots"])]
        if simkind == "passive":
            variants = [("owned", b["shots"]), ("real", b["passive_real"][d])]
        for sampler, bb in variants:
            progs = enum_programs(simkind, d, bb["depth"], bb["max_meas"], GATE_LETTERS, allow_ps, not allow_mid, seed, bb["max_gates"])
            for i, ops in enumerate(progs):
                if i % nchunk != ch:
                    continue
                for N, maxlen in sorted(bb["N"].items()):
                    if len(ops) > maxlen:
                        continue
                    case = dict(base, fam="shots", ops=ops, shots=N)
                    if sampler:
                        case["sampler"] = sampler
                    if sampler == "real":
                        case["K"] = 2
                    run_case(ctx, case)
                    ctx.note_distinct(case)
                    if i < 1 and N == 2:
                        ctx.sample(case)
        return
    raise KeyError(fam)


# ---------------------------------------------------------------------------------------
# family "gauss": general-dyne chain rule on GaussianSimulator (mid-circuit, shots = N)

GAUSS_KINDS = ("het", "gen", "hom", "hom_default")


def _gauss_measurement(pq, kind, seed):
    import numpy as np

    if kind == "het":
        return pq.HeterodyneMeasurement()
    if kind == "gen":
        return pq.GeneraldyneMeasurement(detection_covariance=np.array([[2.0, 0.5], [0.5, 0.625]]))
    if kind == "hom":
        return pq.HomodyneMeasurement(phi=0.3 + 0.1 * seed, z=0.5)
    if kind == "hom_default":
        return pq.HomodyneMeasurement(phi=0.3 + 0.1 * seed)
    raise KeyError(kind)


def _gauss_instructions(case, blocks):
    import piquasso as pq

    d, seed = case["d"], case["seed"]
    ins = [pq.Vacuum().on_modes(*range(d))]
    for m in range(d):
        ins.append(pq.Squeezing(r=0.3 + 0.15 * m + 0.02 * seed, phi=0.4 * m - 0.2).on_modes(m))
        ins.append(pq.Displacement(r=0.5 - 0.1 * m, phi=0.7 * m + 0.1 * seed).on_modes(m))
    for m in range(d - 1):
        th, ph = angles(seed, m)
        ins.append(pq.Beamsplitter(theta=th, phi=ph).on_modes(m, m + 1))
    if d >= 3:
        th, ph = angles(seed, 2)
        ins.append(pq.Beamsplitter(theta=th, phi=ph).on_modes(d - 1, 0))
    for b in blocks:
        ins.append(_gauss_measurement(pq, case["kind"], seed).on_modes(*b))
    return ins


def _gauss_lattice(n_points, forced=None):
    """answers of multivariate_normal: row j of call ci gets `n_points` alternatives mean + offsets that differ for
    every (ci, j, alternative), so that no two shots ever coincide; `forced` = list of rows returned in order"""
    import numpy as np

    state = {"i": 0}

    def lattice(mean, cov, size, call_index):
        if forced is not None:
            pt = np.asarray(forced[state["i"]], dtype=float)
            state["i"] += 1
            return [pt], [1.0]
        ci, j = call_index
        mean = np.asarray(mean, dtype=float)
        sd = np.sqrt(np.abs(np.diag(cov)))
        pts = []
        for a in range(n_points):
            off = np.array([math.sin(1.0 + 1.7 * ci + 2.3 * j + 0.9 * a + 0.6 * i) for i in range(len(mean))])
            pts.append(mean + 0.8 * off * np.minimum(sd, 3.0))
        return pts, [1.0 / n_points] * n_points

    return lattice


def _cond_gauss(mu, S, idx_known, x_known, idx_next):
    import numpy as np

    if not idx_known:
        return mu[idx_next], S[np.ix_(idx_next, idx_next)]
    Saa = S[np.ix_(idx_known, idx_known)]
    Sba = S[np.ix_(idx_next, idx_known)]
    sol = np.linalg.solve(Saa, np.column_stack([x_known - mu[idx_known], Sba.T]))
    m = mu[idx_next] + Sba @ sol[:, 0]
    C = S[np.ix_(idx_next, idx_next)] - Sba @ sol[:, 1:]
    return m, C


def _close(a, b, scale=None):
    """entrywise |a - b| <= 1e-9 * (1 + |b|); returns (ok, worst excess-normalised error)"""
    import numpy as np

    a, b = np.asarray(a, dtype=float), np.asarray(b, dtype=float)
    if a.shape != b.shape:
        return False, float("inf")
    if not a.size:
        return True, 0.0
    rel = np.abs(a - b) / (1.0 + np.abs(b))
    err = float(np.max(rel))
    return err <= TOL, err


def check_gauss(case, stats):
    import numpy as np
    import piquasso as pq
    from mc import core
    from mc.choice import ChoiceController, owned_randomness

    verdicts = {}
    N = case["shots"]
    d = case["d"]
    blocks = [list(b) for b in case["blocks"]]
    concat = [m for b in blocks for m in b]
    sim = pq.GaussianSimulator(d=d, config=pq.Config(hbar=case.get("hbar", 2.0)))
    gsig = {"check": "C03", "simulator": "GaussianSimulator", "input_class": "sequential_generaldyne:" + case["kind"]}

    def add(sub, msg, **extra):
        s = dict(gsig, sub=sub, **extra)
        verdicts.setdefault(json.dumps(s, sort_keys=True), (s, msg))

    def run(blocks_, shots, lattice):
        ctl = ChoiceController(max_paths=100000)
        ctl.lattices["multivariate_normal"] = lattice
        program = pq.Program(instructions=_gauss_instructions(case, blocks_))
        out = []

        def fn():
            res = sim.execute(program, shots=shots)
            br = []
            for b in res.branches:
                st = b.state
                br.append(
                    {
                        "outcome": tuple(float(x) for x in b.outcome),
                        "freq": b.frequency,
                        "mean": None if st is None else np.array(st.xpxp_mean_vector, dtype=float),
                        "cov": None if st is None else np.array(st.xpxp_covariance_matrix, dtype=float),
                    }
                )
            return {"branches": br, "samples": [tuple(float(x) for x in s) for s in res.samples]}

        with owned_randomness(ctl, shuffle_mode="identity") as config_rng:
            orig_mvn = config_rng.multivariate_normal

            def mvn(*a, **k):
                rows = orig_mvn(*a, **k)
                ctl.record("mvn_answer", rows=np.array(rows, dtype=float))
                return rows

            config_rng.multivariate_normal = mvn
            ex = ctl.explore(fn, on_path=out.append, keep_paths=False)
        if not ex.complete:
            raise core.HarnessError("HARNESS-CAP C03 gauss exploration hit the path cap")
        stats["executions"] = stats.get("executions", 0) + ex.n_paths
        stats["paths"] = stats.get("paths", 0) + ex.n_paths
        stats["tree_states"] = stats.get("tree_states", 0) + ex.n_states
        stats["tree_edges"] = stats.get("tree_edges", 0) + ex.n_edges
        return out

    # the joint law: arguments handed to NumPy when all modes are measured at once
    try:
        joint = run([concat], 1, _gauss_lattice(1))[0]
    except core.HarnessError:
        raise
    if joint.exception is not None:
        e = joint.exception
        u = _unsupported(e)
        if u:
            stats["unsupported_" + u] = stats.get("unsupported_" + u, 0) + 1
            return []
        add("exception", "joint %s measurement of %s raised %s: %s" % (case["kind"], concat, type(e).__name__, str(e)[:200]), exception=type(e).__name__)
        return list(verdicts.values())
    jrec = [r[1] for r in joint.records if r[0] == "multivariate_normal"]
    if len(jrec) != 1:
        raise core.HarnessError("HARNESS-UNCAPTURED joint general-dyne measurement made %d multivariate_normal calls" % len(jrec))
    mu, S = np.array(jrec[0]["mean"], dtype=float), np.array(jrec[0]["cov"], dtype=float)
    scale = max(1.0, float(np.max(np.abs(S))))
    idx_of = {}
    pos = 0
    for b in blocks:
        idx_of[tuple(b)] = list(range(pos, pos + 2 * len(b)))
        pos += 2 * len(b)

    paths = run(blocks, N, _gauss_lattice(case.get("L", 2)))
    for path in paths:
        if path.exception is not None:
            e = path.exception
            u = _unsupported(e)
            if u:
                stats["unsupported_" + u] = stats.get("unsupported_" + u, 0) + 1
                return []
            add("exception", "sequential %s measurement of %s raised %s: %s" % (case["kind"], blocks, type(e).__name__, str(e)[:200]), exception=type(e).__name__)
            continue
        obs = path.result
        args = [r[1] for r in path.records if r[0] == "multivariate_normal"]
        answers = [r[1]["rows"] for r in path.records if r[0] == "mvn_answer"]
        if len(args) != len(answers):
            raise core.HarnessError("HARNESS-UNCAPTURED %d multivariate_normal calls, %d answers recorded" % (len(args), len(answers)))
        # independent bookkeeping: a branch = the list of answers it received, one per block
        branches = [[]]
        ri = 0
        ok = True
        for bi, b in enumerate(blocks):
            idx_next = idx_of[tuple(b)]
            idx_known = [i for pb in blocks[:bi] for i in idx_of[tuple(pb)]]
            new_branches = []
            for hist in branches:
                if ri >= len(args):
                    add("budget", "fewer multivariate_normal calls than branches at block %s" % (b,))
                    ok = False
                    break
                rec, rows = args[ri], np.asarray(answers[ri], dtype=float)
                ri += 1
                want_rows = N if bi == 0 else 1
                if tuple(rec["size"] or ()) != (want_rows,):
                    add("nested_budget", "block %s: a branch holding %d shot(s) asked NumPy for size=%s" % (b, want_rows, rec["size"]))
                    ok = False
                    break
                x_known = np.concatenate(hist) if hist else np.zeros(0)
                m, C = _cond_gauss(mu, S, idx_known, x_known, idx_next)
                stats["conditional_laws_compared"] = stats.get("conditional_laws_compared", 0) + 1
                okm, em = _close(rec["mean"], m, scale)
                okc, ec = _close(rec["cov"], C, scale)
                if not (okm and okc):
                    add(
                        "chain_rule",
                        "measuring %s after %s: NumPy is handed a mean / covariance that differ from the conditional Gaussian of the joint law "
                        "of %s by %.3g / %.3g (tolerance scale %.3g)" % (b, blocks[:bi], concat, em, ec, scale),
                    )
                    ok = False
                    break
                for row in rows.reshape(want_rows, -1):
                    new_branches.append(hist + [row])
            if not ok:
                break
            branches = new_branches
        if ok and ri != len(args):
            add("budget", "%d multivariate_normal calls were made, the program needs %d" % (len(args), ri))
            ok = False
        if not ok:
            continue
        dictated = sorted(tuple(float(x) for x in np.concatenate(h)) for h in branches)
        if len(obs["samples"]) != N:
            add("sample_count", "shots=%d returned %d samples" % (N, len(obs["samples"])))
        if sorted(obs["samples"]) != dictated:
            add("samples", "samples %s are not the answers the draws dictated %s" % (sorted(obs["samples"])[:2], dictated[:2]))
            continue
        tot = Fraction(0)
        for b in obs["branches"]:
            f = b["freq"]
            if not isinstance(f, Fraction) or (f * N).denominator != 1 or f <= 0:
                add("frequency_value", "branch frequency %r is not k/%d" % (f, N))
            else:
                tot += f
        if tot != 1:
            add("frequency_sum", "branch frequencies sum to %s" % (tot,))
        # conditional states: after (B1 then B2 ...) == after the joint measurement with the concatenated outcome
        if len(concat) < d:
            for b in obs["branches"]:
                forced = [np.array(b["outcome"], dtype=float)]
                jp = run([concat], 1, _gauss_lattice(1, forced=forced))[0]
                if jp.exception is not None:
                    add("exception", "joint measurement with a forced answer raised %s" % type(jp.exception).__name__, exception=type(jp.exception).__name__)
                    continue
                jb = jp.result["branches"][0]
                stats["states_compared"] = stats.get("states_compared", 0) + 1
                okm, em = _close(b["mean"], jb["mean"], scale)
                okc, ec = _close(b["cov"], jb["cov"], scale)
                if not (okm and okc):
                    add("branch_state", "the state after measuring %s one after another differs from the state after the joint measurement with the same outcome: mean %.3g, cov %.3g" % (blocks, em, ec))
    return list(verdicts.values())


def work_gauss(ctx):
    import piquasso as pq
    from mc.refmodel import projref as R

    tier = ctx.tier
    sim = pq.GaussianSimulator(d=2)
    mid = sim._measurement_classes_allowed_mid_circuit
    if not all(c in mid for c in (pq.HomodyneMeasurement, pq.HeterodyneMeasurement, pq.GeneraldyneMeasurement)):
        ctx.count("unsupported_gauss_mid_circuit")
        return
    for d in (2, 3) if tier == "quick" else (2, 3, 4):
        for kind in GAUSS_KINDS:
            for k in range(2, min(d, 3) + 1):
                for M in itertools.combinations(range(d), k):
                    for blocks, concat in R.ordered_set_partitions(M):
                        if len(blocks) < 2:
                            continue
                        for N in (1, 2):
                            if N == 2 and (len(blocks) > 2 and tier == "quick"):
                                continue
                            case = {"fam": "gauss", "sim": "gauss", "d": d, "kind": kind, "blocks": [list(b) for b in blocks], "shots": N, "seed": ctx.seed, "L": 2, "ops": []}
                            run_case(ctx, case)
                            ctx.note_distinct(case)
