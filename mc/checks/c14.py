"""C14 -- Gaussian states are hbar-invariant and representation-consistent.

Lock-step explicit-state exploration of GaussianSimulator.  A *state* of the explorer is
the tuple of live GaussianState objects reached by one instruction history at
hbar in {0.5, 1, 2, 3.7} plus the reference-model state (dimensionless mean/covariance,
propagated by mc/refmodel/gaussref.py).  A *transition* applies one instruction of a
finite alphabet (all Gaussian gates on ordered mode tuples, Vacuum/Mean/Covariance/Thermal,
Attenuator/DeterministicGaussianChannel, Graph) to all four implementations through the
public path Simulator.execute_instructions([instr], initial_state=s).

Every transition: moments agree across hbar after the documented scaling (mean/sqrt(hbar),
cov/hbar) and agree with the reference-model successor.
Every new state (canonical key = rounded model state):
  (a) across hbar: fock_probabilities, density_matrix, purity, fidelity against 4 fixed partner
      states (+ fidelity(s,s) = 1), parity, phase-shifter expectation values (distinct / equal /
      partly-zero angle vectors), threshold probabilities of all click patterns, mean and
      variance of the photon number (all mode subsets) are equal; where a closed formula exists
      they also equal the reference value computed from the model state;
  (b) within each hbar: xpxp <-> xxpp <-> complex <-> (m, C, G) <-> correlation representations
      agree through the reference permutation / W matrices; every setter followed by every
      getter is the identity; reduced(modes) for every ORDERED subset and rotated(phi) for the
      13-point lattice commute with the conversions; get_xp_string_moment and
      get_ladder_string_moment agree through W for all strings of length <= 3.
"""

import itertools
import math

import numpy as np

LEVEL = "model_checking"

TOL_OBS = 1e-8
TOL_FID = 1e-6
TOL_FID_REF = 1e-6
MAX_VIOL_PER_SIG = 2
CUTOFF = {1: 6, 2: 5, 3: 4, 4: 3}

# exploration plan: per tier and d, the alphabet used at each depth ("full" / "core")
PLAN = {
    "quick": {1: ["full", "full"], 2: ["full", "mini"], 3: ["full"], 4: ["mini"]},
    "thorough": {1: ["full", "full"], 2: ["full", "core"], 3: ["full", "mini"], 4: ["core"]},
}
# "mini": the instruction kinds kept at the deepest level of the larger plans (one ordered tuple each)
MINI = ("Covariance", "Displacement", "Squeezing", "QuadraticPhase", "Attenuator", "DeterministicGaussianChannel", "Beamsplitter", "Squeezing2", "ControlledZ", "GaussianTransform")


# ---------------------------------------------------------------------------------------
# alphabet


def _arr(a):
    a = np.asarray(a)
    out = {"cat": "array", "re": a.real.tolist()}
    if np.iscomplexobj(a):
        out["im"] = a.imag.tolist()
    return out


def _channel_XY(k, seed):
    """a valid k-mode deterministic Gaussian channel (xpxp): generic contraction X and noise Y
    large enough for BOTH the documented CP condition and the library's validator"""
    from mc.refmodel import gaussref as R

    rng = np.random.default_rng([int(seed), 1401, k])
    X = 0.55 * np.identity(2 * k) + 0.12 * rng.uniform(-1, 1, size=(2 * k, 2 * k))
    Y = 2.3 * np.identity(2 * k) + 0.1 * (lambda M: M + M.T)(rng.uniform(-1, 1, size=(2 * k, 2 * k)))
    X = np.round(X, 6)
    Y = np.round(Y, 6)
    Om = R.omega_xpxp(k)
    for s1 in (+1, -1):
        for s2 in (+1, -1):
            ev = np.linalg.eigvalsh(Y + s1 * 1j * Om + s2 * 1j * X @ Om @ X.T)
            if ev.min() < 0.05:
                raise ValueError("channel catalogue entry is not safely completely positive")
    return X, Y


def alphabet(d, seed, kind="full"):
    """list of templates (class name, ordered modes, params); "core" = one representative
    ordered tuple per instruction kind (rotating through the tuples), "mini" = the MINI kinds of
    "core" (first occurrence each); both are only used at the deepest level of a plan"""
    from mc import c07_gauss as H
    from mc.refmodel import gaussref as R

    if kind == "mini":
        out, seen = [], set()
        for t in alphabet(d, seed, "core"):
            if t[0] in MINI and t[0] not in seen:
                seen.add(t[0])
                out.append(t)
        return out

    one = [
        ("Phaseshifter", {"phi": 0.37}),
        ("Fourier", {}),
        ("Squeezing", {"r": 0.23, "phi": 0.81}),
        ("QuadraticPhase", {"s": 0.31}),
        ("Displacement", {"r": 0.4, "phi": 0.6}),
        ("PositionDisplacement", {"x": 0.3}),
        ("MomentumDisplacement", {"p": -0.25}),
        ("Attenuator", {"theta": 0.6, "mean_thermal_excitation": 0.4}),
    ]
    X1, Y1 = _channel_XY(1, seed)
    one.append(("DeterministicGaussianChannel", {"X": _arr(X1), "Y": _arr(Y1)}))
    two = [
        ("Beamsplitter", {"theta": 0.37, "phi": 0.81}),
        ("Beamsplitter5050", {}),
        ("MachZehnder", {"int_": 1.234, "ext": -0.81}),
        ("Squeezing2", {"r": 0.23, "phi": -0.81}),
        ("ControlledX", {"s": 0.31}),
        ("ControlledZ", {"s": -0.27}),
    ]
    if d >= 2:
        X2, Y2 = _channel_XY(2, seed)
        two.append(("DeterministicGaussianChannel", {"X": _arr(X2), "Y": _arr(Y2)}))
    out = []
    # preparations (all modes)
    S = H.generic_symplectic(d, seed, tag=2)
    th = np.diag(np.concatenate([2 * np.array(H._NB[:d]) + 1] * 2))
    out.append(("Vacuum", (), {}))
    out.append(("Mean", (), {"mean": _arr(np.round(R.vec_to_xpxp(H.generic_mean(d, 0.8)), 9))}))
    cov = R.mat_to_xpxp(S @ th @ S.T)
    out.append(("Covariance", (), {"cov": _arr((cov + cov.T) / 2)}))
    out.append(("Thermal", (), {"mean_photon_numbers": [float(x) for x in H._NB[:d]]}))
    n1 = n2 = 0
    for name, p in one:
        tuples = [(m,) for m in range(d)]
        if kind == "core":
            tuples = [tuples[(n1 * 2 + 1) % d]]
            n1 += 1
        out += [(name, t, p) for t in tuples]
    for name, p in two:
        tuples = list(itertools.permutations(range(d), 2))
        if kind == "core" and tuples:
            tuples = [tuples[(n2 * 5 + len(tuples) - 1) % len(tuples)]]
            n2 += 1
        out += [(name, t, p) for t in tuples]
    # matrix gates on k = d modes: identity order and a non-ascending order
    if d >= 2:
        orders = [tuple(range(d)), tuple(range(d))[::-1]] + ([(1, 2, 0)] if d == 3 else []) + ([(2, 0, 3, 1)] if d == 4 else [])
        if kind == "core":
            orders = orders[-1:]
        for t in orders:
            out.append(("Interferometer", t, {"matrix": {"cat": "U", "k": d, "name": "generic_a"}}))
            out.append(
                ("GaussianTransform", t, {"passive": {"cat": "GT", "k": d, "name": "bloch_messiah_a", "part": 0}, "active": {"cat": "GT", "k": d, "name": "bloch_messiah_a", "part": 1}})
            )
        adj = np.array([[0.0 if i == j else (0.5 + 0.1 * ((i + 2 * j + i * j) % 4)) for j in range(d)] for i in range(d)])
        adj = (adj + adj.T) / 2
        out.append(("Graph", tuple(range(d)), {"adjacency_matrix": _arr(adj), "mean_photon_number": 0.2}))
    else:
        out.append(("Interferometer", (0,), {"matrix": {"cat": "U", "k": 1, "name": "generic_a"}}))
        out.append(("GaussianTransform", (0,), {"passive": {"cat": "GT", "k": 1, "name": "bloch_messiah_a", "part": 0}, "active": {"cat": "GT", "k": 1, "name": "bloch_messiah_a", "part": 1}}))
    return out


LINEAR = ("Phaseshifter", "Fourier", "Beamsplitter", "Beamsplitter5050", "MachZehnder", "Squeezing", "QuadraticPhase", "Squeezing2", "ControlledX", "ControlledZ", "Interferometer", "GaussianTransform")


def model_step(template, mean, cov, d, seed):
    """reference-model successor of the DIMENSIONLESS xxpp state (vacuum cov = I); None if the
    reference model does not cover the instruction (Graph)"""
    from mc import c07_gauss as H
    from mc.refmodel import gaussref as R

    name, modes, params = template
    p = {k: H.resolve_param(v, seed) for k, v in params.items()}
    if name in LINEAR:
        P, A = R.documented_blocks(name, **p)
        Pf, Af = R.embed(P, A, modes, d)
        return R.congruence(mean, cov, R.real_S_xxpp(Pf, Af))
    if name in ("Displacement", "PositionDisplacement", "MomentumDisplacement"):
        if name == "Displacement":
            al = p["r"] * complex(math.cos(p["phi"]), math.sin(p["phi"]))
        elif name == "PositionDisplacement":
            al = complex(p["x"], 0.0)
        else:
            al = complex(0.0, p["p"])
        return mean + R.displacement_shift_xxpp(al, modes[0], d, 1.0), cov
    if name == "Vacuum":
        return np.zeros(2 * d), np.identity(2 * d)
    if name == "Mean":  # documented: xpxp order, scaled with hbar at execution
        return R.vec_to_xxpp(np.asarray(p["mean"], dtype=float)), cov
    if name == "Covariance":
        return mean, R.mat_to_xxpp(np.asarray(p["cov"], dtype=float))
    if name == "Thermal":
        # the simulation step sets the covariance only (the mean is whatever it was)
        return mean, R.thermal_cov_xxpp(p["mean_photon_numbers"], 1.0)
    if name in ("Attenuator", "DeterministicGaussianChannel"):
        if name == "Attenuator":
            X = math.cos(p["theta"]) * np.identity(2)
            Y = math.sin(p["theta"]) ** 2 * (2 * p["mean_thermal_excitation"] + 1) * np.identity(2)
        else:
            X, Y = np.asarray(p["X"], dtype=float), np.asarray(p["Y"], dtype=float)
        idx = []
        for m in modes:
            idx += [2 * m, 2 * m + 1]
        Xf = np.identity(2 * d)
        Yf = np.zeros((2 * d, 2 * d))
        Xf[np.ix_(idx, idx)] = X
        Yf[np.ix_(idx, idx)] = Y
        mx, cx = R.vec_to_xpxp(mean), R.mat_to_xpxp(cov)
        return R.vec_to_xxpp(Xf @ mx), R.mat_to_xxpp(Xf @ cx @ Xf.T + Yf)
    return None


# ---------------------------------------------------------------------------------------
# runner side


def _items(tier, seed):
    items = []
    for d, plan in PLAN[tier].items():
        items.append(("root", d))
        n = len(alphabet(d, seed, plan[0]))
        for a in range(n):
            items.append(("sub", d, a))
    # larger d first (heavier)
    items.sort(key=lambda it: (-it[1], it[0], it[2] if len(it) > 2 else -1))
    return items


def run(ctx, builddir):
    from mc import core

    items = _items(ctx.tier, ctx.seed)
    if getattr(ctx, "only", None):
        # development filter: comma-separated "d" (everything on d modes) or "d:i" (root + sub-tree of first action i)
        toks = ctx.only.split(",")
        items = [it for it in items if str(it[1]) in toks or (it[0] == "root" and any(t.startswith("%d:" % it[1]) for t in toks)) or (it[0] == "sub" and "%d:%d" % (it[1], it[2]) in toks)]
    ctx.rule = (
        "breadth-first search over GaussianSimulator instruction histories, executed in lock-step at hbar in "
        "{0.5,1,2,3.7}; alphabet = every Gaussian gate on every ordered mode tuple + Vacuum/Mean/Covariance/Thermal + "
        "Attenuator/DeterministicGaussianChannel + Graph, generic parameters; plan (alphabet per depth) %s; a state is distinct "
        "if its reference-model moments rounded to 1e-9 differ; every distinct state is non-trivial by construction "
        "(full battery of observables, conversions, all ordered subsets, rotation lattice, strings <= 3 evaluated)" % (PLAN[ctx.tier],)
    )
    ctx.assume("observables are compared across hbar with |a-b| <= 1e-8 (DESIGN 2.5/2.13); fidelity with 1e-6: the library evaluates prod(w + sqrt(w^2-1)) on eigenvalues w ~ 1 of a non-symmetric matrix, i.e. an absolute noise of about d*sqrt(2*eps*kappa) (7e-8 measured in the quick tier, see max_fidelity_spread_across_hbar); 1e-7 is not safe for (near-)pure states, a wrong hbar factor would show at 1e-2")
    ctx.assume("reference value of the fidelity: Banchi et al. formula evaluated on the spectrum (mixed partner) / overlap formula (pure partner), compared with 1e-6")
    ctx.assume("conversions / setters / reduced / rotated / moments: |a-b| <= 1e-9 + 1e-9*max|expected|")
    ctx.assume("bounds shrunk to the CPU budget: depth <= 2 (d <= 2), depth 1 (quick d = 3, 4) / depth 2 with the reduced alphabet (thorough d = 3); DESIGN's 8-minute thorough plan (depth 3 on d <= 2, depth 2 on d = 3, 4) was not completed on the shared machine and is not claimed")
    ctx.assume("Thermal is modelled as the simulation step implements it (sets the covariance, leaves the mean)")
    ctx.assume("Graph has no reference successor: the model state is taken from the implementation at hbar=2 after the cross-hbar scaling check")
    ctx.assume("phase-shifter reference: Weyl-symbol Gaussian integral with the square-root branch tracked continuously from phi=0 (gaussref.phaseshifter_expectation)")
    core.pmap(ctx, "mc.checks.c14", "work", items, builddir)
    c = ctx.counters
    return {
        "states": len(ctx.distinct),
        "transitions": c.get("transitions", 0),
        "traces_validated_against_impl": c.get("transitions_vs_model", 0),
        "state_checks_run": c.get("state_checks", 0),
        "observable_comparisons": c.get("comparisons", 0),
        "implementation_executions": c.get("executions", 0),
        "max_depth": c.get("max_depth", 0),
        "unsupported_cells": c.get("unsupported_cells", 0),
        "explanation": "state = lock-step tuple of 4 GaussianState objects (one per hbar) + reference-model moments, "
        "de-duplicated globally by the rounded model moments (states = number of distinct keys over all workers; "
        "state_checks_run counts the per-worker checks, a state reached in two sub-trees is checked twice); transition = one "
        "instruction applied to all 4 implementations through execute_instructions and checked for hbar scaling; "
        "traces_validated_against_impl = transitions whose 4 results were also compared with the reference-model successor",
    }


def replay(ctx, case, signature):
    ctx.sig_filter = dict(signature)
    path = [_untpl(t) for t in case["path"]]
    _explore_path(ctx, case["d"], path)


def _tpl(t):
    return [t[0], list(t[1]), t[2]]


def _untpl(t):
    return (t[0], tuple(t[1]), t[2])


# ---------------------------------------------------------------------------------------
# reporting


def _viol(ctx, sig, case, msg, recheck=None):
    from mc import core

    s = {"check": "C14"}
    s.update(sig)
    f = getattr(ctx, "sig_filter", None)
    if f is not None and any(core.jsonable(s.get(k)) != v for k, v in f.items()):
        return
    k = tuple(sorted((a, str(b)) for a, b in s.items()))
    seen = ctx.__dict__.setdefault("_c14_sigcount", {})
    seen[k] = seen.get(k, 0) + 1
    ctx.count("violating_cases")
    if seen[k] > MAX_VIOL_PER_SIG:
        return
    if recheck is not None:
        a, b = recheck(), recheck()
        if not _same(a, b):
            raise core.HarnessError("HARNESS-NONDETERMINISM C14 %s %s" % (s, case))
    ctx.violation(s, case, msg)


def _same(a, b):
    if isinstance(a, (tuple, list)):
        return len(a) == len(b) and all(_same(x, y) for x, y in zip(a, b))
    if isinstance(a, dict):
        return a.keys() == b.keys() and all(_same(a[k], b[k]) for k in a)
    a, b = np.asarray(a), np.asarray(b)
    # equal up to last-bit noise (LAPACK results depend on buffer alignment); a real nondeterminism is O(1)
    return a.shape == b.shape and bool(np.allclose(a, b, rtol=1e-9, atol=1e-12, equal_nan=True))


class _Node:
    __slots__ = ("d", "path", "states", "mean", "cov", "desync")

    def __init__(self, d, path, states, mean, cov):
        self.d, self.path, self.states, self.mean, self.cov = d, path, states, mean, cov
        self.desync = False  # the implementations disagree with each other or with the model: reported once, not explored

    def case(self, **extra):
        c = {"d": self.d, "path": [_tpl(t) for t in self.path]}
        c.update(extra)
        return c


def _key(node):
    return (node.d, np.round(node.mean, 9).tobytes(), np.round(node.cov, 9).tobytes())


# ---------------------------------------------------------------------------------------
# the explorer


def _root(d):
    from mc import c07_gauss as H

    states = [H.simulator(d, h, CUTOFF[d]).create_initial_state() for h in H.HBARS]
    return _Node(d, [], states, np.zeros(2 * d), np.identity(2 * d))


def _apply(ctx, node, template):
    """one lock-step transition; returns the successor node (or None if refused)"""
    from mc import c07_gauss as H
    from mc import core
    from piquasso.api.exceptions import PiquassoException

    d = node.d
    succ = []
    for h, st in zip(H.HBARS, node.states):
        try:
            succ.append(H.run(d, h, [template], st, ctx.seed, CUTOFF[d]))
        except (NotImplementedError,) as e:  # partial support is not C14's business
            ctx.count("unsupported_cells")
            return None
        except PiquassoException as e:
            # never happens on the pinned tree (every alphabet entry is valid in every physical state); a
            # refusal means the live state no longer passes the library's own validation
            ctx.count("refused_transitions")
            _viol(
                ctx, {"sub": "transition_refused", "instruction": template[0], "exception": type(e).__name__},
                _Node(d, node.path + [template], [], None, None).case(hbar=h), "%s refused at hbar=%s after %d step(s): %r" % (template[0], h, len(node.path), e),
            )
            return None
        ctx.count("executions")
    ctx.count("transitions")
    child = _Node(d, node.path + [template], succ, None, None)
    # (1) hbar scaling of the moments (the statement of the property)
    dl = []
    for h, st in zip(H.HBARS, succ):
        dl.append((np.array(st.xxpp_mean_vector) / math.sqrt(h), np.array(st.xxpp_covariance_matrix) / h))
    ref_i = H.HBARS.index(2.0)
    scaling_ok = True
    for i, h in enumerate(H.HBARS):
        okm, em = H.close(dl[i][0], dl[ref_i][0], max(1.0, H.amax(dl[ref_i][0])))
        okc, ec = H.close(dl[i][1], dl[ref_i][1], max(1.0, H.amax(dl[ref_i][1])))
        if not (okm and okc):
            scaling_ok = False
            child.desync = True
            what = "mean" if not okm else "cov"
            _viol(
                ctx, {"sub": "hbar_scaling", "instruction": template[0], "what": what}, child.case(hbar=h),
                "after %s: %s/scale at hbar=%s differs from hbar=2 by %.3g" % (template[0], what, h, em if not okm else ec),
            )
            break
    # (2) reference-model successor
    m = model_step(template, node.mean, node.cov, d, ctx.seed)
    if m is None:
        ctx.count("transitions_without_reference")
        child.mean, child.cov = dl[ref_i]
    else:
        child.mean, child.cov = m
        ctx.count("transitions_vs_model")
        if scaling_ok:
            for i, h in enumerate(H.HBARS):
                okm, em = H.close(dl[i][0], m[0], max(1.0, H.amax(m[0])))
                okc, ec = H.close(dl[i][1], m[1], max(1.0, H.amax(m[1])))
                if not (okm and okc):
                    what = "mean" if not okm else "cov"
                    _viol(
                        ctx, {"sub": "transition_vs_model", "instruction": template[0], "what": what}, child.case(hbar=h),
                        "after %s at hbar=%s: dimensionless %s differs from the reference successor by %.3g\n got %s\n exp %s"
                        % (template[0], h, what, em if not okm else ec, H.fmt(dl[i][0] if not okm else dl[i][1]), H.fmt(m[0] if not okm else m[1])),
                    )
                    # reported once; the successor is neither examined nor expanded (its moments may not even
                    # be physical, and every reference value would be off for the same reason)
                    child.desync = True
                    break
    return child


def _explore_path(ctx, d, path):
    """replay helper: run one history from the root, checking every transition and the final state"""
    node = _root(d)
    for t in path:
        node = _apply(ctx, node, t)
        if node is None:
            return
    check_state(ctx, node)


def work(ctx, item):
    from mc import core
    from mc.refmodel import gaussref as R

    if not globals().get("_SELFTESTED"):
        try:
            R.selftest()
        except AssertionError as e:  # pragma: no cover
            raise core.HarnessError("gaussref self-test failed: %r" % (e,))
        globals()["_SELFTESTED"] = True
    kind, d = item[0], item[1]
    plan = PLAN[ctx.tier][d]
    root = _root(d)
    if kind == "root":
        ctx.note_distinct(_key(root))
        check_state(ctx, root)
        ctx.sample({"d": d, "path": [], "note": "root (vacuum) state"})
        return
    seen = {_key(root)}
    first = alphabet(d, ctx.seed, plan[0])[item[2]]
    node = _apply(ctx, root, first)
    if node is None:
        return
    frontier = []
    k = _key(node)
    ctx.count("max_depth", 0)
    if k not in seen:
        seen.add(k)
        ctx.note_distinct(k)
        check_state(ctx, node)
        if not node.desync:
            frontier.append(node)
    ctx.counters["max_depth"] = max(ctx.counters.get("max_depth", 0), 1)
    ctx.sample({"d": d, "path": [_tpl(first)], "lock_step_hbar": [0.5, 1.0, 2.0, 3.7]})
    for depth in range(2, len(plan) + 1):
        alpha = alphabet(d, ctx.seed, plan[depth - 1])
        nxt = []
        for s in frontier:
            for a in alpha:
                t = _apply(ctx, s, a)
                if t is None:
                    continue
                k = _key(t)
                if k in seen:
                    ctx.count("transitions_to_known_state")
                    continue
                seen.add(k)
                ctx.note_distinct(k)
                check_state(ctx, t)
                if not t.desync:
                    nxt.append(t)
        if nxt:
            ctx.counters["max_depth"] = max(ctx.counters.get("max_depth", 0), depth)
        frontier = nxt
    if frontier:
        ctx.sample({"d": d, "path": [_tpl(t) for t in frontier[-1].path]})


# ---------------------------------------------------------------------------------------
# the per-state battery


def _reps(st):
    """every representation the state offers, read through the public getters (+ the ladder
    moments m, C, G, which have no public getter)"""
    mx, cx = st.xxpp_representation
    mp, cp = st.xpxp_representation
    return {
        "xxpp_mean_vector": np.array(st.xxpp_mean_vector),
        "xxpp_covariance_matrix": np.array(st.xxpp_covariance_matrix),
        "xpxp_mean_vector": np.array(st.xpxp_mean_vector),
        "xpxp_covariance_matrix": np.array(st.xpxp_covariance_matrix),
        "xxpp_correlation_matrix": np.array(st.xxpp_correlation_matrix),
        "xpxp_correlation_matrix": np.array(st.xpxp_correlation_matrix),
        "xxpp_representation[0]": np.array(mx),
        "xxpp_representation[1]": np.array(cx),
        "xpxp_representation[0]": np.array(mp),
        "xpxp_representation[1]": np.array(cp),
        "complex_displacement": np.array(st.complex_displacement),
        "complex_covariance": np.array(st.complex_covariance),
        "Q_matrix": np.array(st.Q_matrix),
        "_m": np.array(st._m),
        "_C": np.array(st._C),
        "_G": np.array(st._G),
    }


def _ref_reps(mean, cov, hbar):
    """the same representations derived from the xxpp moments by the reference conversions"""
    from mc.refmodel import gaussref as R

    mean = np.asarray(mean, dtype=float)
    cov = np.asarray(cov, dtype=float)
    d = len(mean) // 2
    corr = cov + 2 * np.outer(mean, mean)
    mu_c, sig_c = R.complex_from_xxpp(mean, cov, hbar)
    m, C, G = R.mcg_from_xxpp(mean, cov, hbar)
    return {
        "xxpp_mean_vector": mean,
        "xxpp_covariance_matrix": cov,
        "xpxp_mean_vector": R.vec_to_xpxp(mean),
        "xpxp_covariance_matrix": R.mat_to_xpxp(cov),
        "xxpp_correlation_matrix": corr,
        "xpxp_correlation_matrix": R.mat_to_xpxp(corr),
        "xxpp_representation[0]": mean,
        "xxpp_representation[1]": corr,
        "xpxp_representation[0]": R.vec_to_xpxp(mean),
        "xpxp_representation[1]": R.mat_to_xpxp(corr),
        "complex_displacement": mu_c,
        "complex_covariance": sig_c,
        "Q_matrix": (sig_c + np.identity(2 * d)) / 2,
        "_m": m,
        "_C": C,
        "_G": G,
    }


def _cmp_reps(ctx, got, exp, skip=()):
    """names of representations that differ from the expectation"""
    from mc import c07_gauss as H

    bad = []
    for name, e in exp.items():
        if name in skip:
            continue
        ctx.count("comparisons")
        ok, er = H.close(got[name], e, max(1.0, H.amax(e)))
        if not ok:
            bad.append((name, er))
    return bad


def _partners(d, seed):
    """4 fixed dimensionless partner states for the fidelity: vacuum, pure displaced squeezed,
    displaced thermal, mixed correlated"""
    from mc import c07_gauss as H

    S1 = H.generic_symplectic(d, seed, tag=5)
    S2 = H.generic_symplectic(d, seed, tag=6, squeeze=0.6)
    th = np.diag(np.concatenate([2 * np.array(H._NB[:d][::-1]) + 1] * 2))
    th2 = np.diag(np.concatenate([2 * (0.3 + np.array(H._NB[:d])) + 1] * 2))
    mu = H.generic_mean(d, 0.6)
    return [
        ("vacuum", np.zeros(2 * d), np.identity(2 * d), True),
        ("pure_displaced_squeezed", mu, S1 @ S1.T, True),
        ("thermal_displaced", -mu[::-1], th, False),
        ("mixed_correlated", 0.5 * mu, S2 @ th2 @ S2.T, False),
    ]


def _angle_vectors(d):
    from mc import c07_gauss as H

    L = H.LATTICE
    if d == 1:
        return [(a,) for a in L] + [(2.5,)]
    base = [0.37, 1.234, -0.81, H.PI / 4]
    vecs = [
        tuple(base[:d]),  # distinct generic
        tuple([H.PI / 4, -H.PI / 2, H.PI, -3.3][:d]),  # distinct special
        tuple([0.37] * d),  # equal
        tuple([H.PI] * d),  # parity
        tuple([0.0] * d),
        tuple([2 * H.PI] + [1.234] * (d - 1)),  # one zero phase, rest equal
        tuple(([0.0, 7.3, 0.0, 2 * H.PI])[:d]),  # one effective mode
    ]
    if d >= 3:
        vecs.append(tuple([0.0, -0.81, 0.37, 1.234][:d]))  # zero phase + distinct rest
    return vecs


def _angle_class(angles):
    """input class of an angle vector as the implementation sees it: modes with a zero phase
    (sin(phi/2) ~ 0) are dropped first (the state is reduced to the other modes)"""
    if len(angles) == 1:
        return "d=1"
    eff = [a for a in angles if abs(math.sin(a / 2)) > 1e-8]
    if len(eff) <= 1:
        return "d>=2,at_most_one_nonzero_angle"
    if max(eff) - min(eff) < 1e-12:
        return ">=2_nonzero_angles,all_equal"
    return ">=2_nonzero_angles,distinct"


def _unordered_subsets(d):
    out = []
    for k in range(1, d + 1):
        out += list(itertools.combinations(range(d), k))
    return out


def check_state(ctx, node):
    from mc import c07_gauss as H

    if node.desync:
        ctx.count("desynchronised_states_skipped")
        return
    ctx.count("state_checks")
    _across_hbar(ctx, node)
    for h, st in zip(H.HBARS, node.states):
        _within_hbar(ctx, node, h, st)


def _across_hbar(ctx, node):
    """(a): dimensionless observables at the 4 hbar values agree with each other and, where a
    closed formula exists, with the reference value from the model state"""
    from mc import c07_gauss as H
    from mc.refmodel import gaussref as R

    d = node.d
    mean, cov = node.mean, node.cov  # dimensionless = "hbar 1" moments
    failed = set()

    def across(name, fn, tol=TOL_OBS, ref=None, ref_tol=None, sig_extra=None, detail=None):
        """fn(state, hbar) -> value; compare all hbar with hbar=2, then with ref"""
        vals = []
        for h, st in zip(H.HBARS, node.states):
            try:
                vals.append(np.asarray(fn(st, h)))
            except NotImplementedError:
                ctx.count("unsupported_cells")
                return None
            except Exception as e:  # an observable of a reachable state must be computable at every hbar
                failed.add(name)
                _viol(ctx, dict({"sub": "observable_raised", "observable": name}, **(sig_extra or {})), node.case(hbar=h, detail=detail), "%s %s at hbar=%s raised %r" % (name, detail, h, e))
                return None
            ctx.count("comparisons")
        base = vals[H.HBARS.index(2.0)]
        sig_extra = sig_extra or {}
        for h, v in zip(H.HBARS, vals):
            e = H.err(v, base)
            if not e <= tol:
                failed.add(name)
                _viol(
                    ctx, dict({"sub": "hbar_invariance", "observable": name}, **sig_extra), node.case(hbar=h, detail=detail),
                    "%s%s at hbar=%s is %s, at hbar=2 it is %s (diff %.3g > %.1g)%s"
                    % (name, "" if detail is None else " %s" % (detail,), h, H.fmt(v), H.fmt(base), e, tol, "" if ref is None else "; reference value %s" % H.fmt(ref)),
                    recheck=lambda: [np.asarray(fn(s, hh)) for hh, s in zip(H.HBARS, node.states)],
                )
                return vals
        if ref is not None:
            ctx.count("comparisons")
            for h, v in zip(H.HBARS, vals):
                e = H.err(v, np.asarray(ref))
                if not e <= (ref_tol or tol):
                    failed.add(name)
                    _viol(
                        ctx, dict({"sub": "reference_value", "observable": name}, **sig_extra), node.case(hbar=h, detail=detail),
                        "%s%s = %s at hbar=%s (same at every hbar) but the reference formula gives %s (diff %.3g)"
                        % (name, "" if detail is None else " %s" % (detail,), H.fmt(v), h, H.fmt(ref), e),
                        recheck=lambda: [np.asarray(fn(s, hh)) for hh, s in zip(H.HBARS, node.states)],
                    )
                    break
        return vals

    # photon statistics
    fp = across("fock_probabilities", lambda s, h: s.fock_probabilities)
    if fp is not None:
        ctx.count("comparisons")
        p0 = R.vacuum_probability(mean, cov, 1.0)
        if "fock_probabilities" not in failed and abs(fp[0][0] - p0) > TOL_OBS:
            _viol(ctx, {"sub": "reference_value", "observable": "fock_probabilities[vacuum]"}, node.case(), "p(0..0) = %r, reference %r" % (fp[0][0], p0))
    dm = across("density_matrix", lambda s, h: s.density_matrix)
    if fp is not None and dm is not None and "density_matrix" not in failed and "fock_probabilities" not in failed:
        for h, a, b in zip(H.HBARS, dm, fp):
            ctx.count("comparisons")
            if H.err(np.real(np.diag(a)), np.where(np.abs(b) < 1e-10, np.real(np.diag(a)), b)) > TOL_OBS:
                _viol(ctx, {"sub": "representation", "relation": "diag(density_matrix)=fock_probabilities"}, node.case(hbar=h), "diagonal of density_matrix differs from fock_probabilities")
                break
    across("mean_photon_number", lambda s, h: s.mean_photon_number(), ref=R.mean_photon_number(mean, cov, 1.0))
    across("variance_photon_number", lambda s, h: s.variance_photon_number(), ref=R.variance_photon_number(mean, cov, 1.0))
    for sub in _unordered_subsets(d):
        for modes in (sub, sub[::-1]) if len(sub) > 1 else (sub,):
            across("mean_photon_number", lambda s, h: s.mean_photon_number(modes), ref=R.mean_photon_number(mean, cov, 1.0, modes), sig_extra={"modes_arg": True}, detail=list(modes))
            across("variance_photon_number", lambda s, h: s.variance_photon_number(modes), ref=R.variance_photon_number(mean, cov, 1.0, modes), sig_extra={"modes_arg": True}, detail=list(modes))
    # threshold detection: every click pattern
    for pat in itertools.product((0, 1), repeat=d):
        across("get_threshold_detection_probability", lambda s, h: s.get_threshold_detection_probability(pat), ref=R.threshold_probability(mean, cov, 1.0, pat), detail=list(pat))
    # purity
    pur_ref = R.purity(cov, 1.0)
    across("get_purity", lambda s, h: s.get_purity(), ref=pur_ref)
    if "get_purity" not in failed and (abs(pur_ref - 1) < 1e-9 or abs(pur_ref - 1) > 1e-3):
        across("is_pure", lambda s, h: float(s.is_pure()), ref=float(abs(pur_ref - 1) < 1e-9))
    # parity and phase shifter
    across("get_parity_operator_expectation_value", lambda s, h: s.get_parity_operator_expectation_value(), ref=R.parity(mean, cov, 1.0))
    for ang in _angle_vectors(d):
        across(
            "get_phaseshifter_expectation_value", lambda s, h: complex(s.get_phaseshifter_expectation_value(list(ang))),
            ref=R.phaseshifter_expectation(mean, cov, 1.0, ang), sig_extra={"input_class": _angle_class(ang)}, detail=list(ang),
        )
    # fidelity
    partners = _partners(d, ctx.seed)
    pstates = ctx.__dict__.setdefault("_c14_partners", {})
    if d not in pstates:
        pstates[d] = [[H.make_state(d, h, pm, pc, CUTOFF[d]) for h in H.HBARS] for _, pm, pc, _ in partners]
    hidx = {h: i for i, h in enumerate(H.HBARS)}
    max_spread = 0.0
    for (pname, pm, pc, ppure), plist in zip(partners, pstates[d]):
        if ppure:
            ref, rtol = R.overlap(mean, cov, pm, pc, 1.0), TOL_FID_REF
        else:
            ref, rtol = R.fidelity(mean, cov, pm, pc, 1.0), TOL_FID_REF
        for direction in ("state.fidelity(partner)", "partner.fidelity(state)"):
            fn = (lambda s, h: s.fidelity(plist[hidx[h]])) if direction.startswith("state") else (lambda s, h: plist[hidx[h]].fidelity(s))
            vals = across("fidelity", fn, tol=TOL_FID, ref=ref, ref_tol=rtol, sig_extra={"partner": "pure" if ppure else "mixed"}, detail=[pname, direction])
            if vals is not None:
                max_spread = max(max_spread, float(np.max(vals) - np.min(vals)))
    vals = across("fidelity", lambda s, h: s.fidelity(s), tol=TOL_FID, ref=1.0, ref_tol=TOL_FID, sig_extra={"partner": "self"}, detail=["self"])
    if vals is not None:
        max_spread = max(max_spread, float(np.max(vals) - np.min(vals)))
    # a noise measurement, not a count (LAPACK last-bit effects make it vary by ~1e-9 from run to run): kept out of the counters
    ctx.extra["max_fidelity_spread_across_hbar"] = max(ctx.extra.get("max_fidelity_spread_across_hbar", 0.0), float("%.1e" % max_spread))


def _within_hbar(ctx, node, hbar, st):
    """(b): representations, setters/getters, reduced, rotated, string moments at one hbar"""
    from mc import c07_gauss as H
    from mc.refmodel import gaussref as R

    d = node.d
    got = _reps(st)
    mean, cov = got["xxpp_mean_vector"], got["xxpp_covariance_matrix"]
    exp = _ref_reps(mean, cov, hbar)
    for name, e in _cmp_reps(ctx, got, exp, skip=("xxpp_mean_vector", "xxpp_covariance_matrix")):
        _viol(ctx, {"sub": "representation", "relation": "%s=conv(xxpp)" % name}, node.case(hbar=hbar), "%s differs from the reference conversion of the xxpp moments by %.3g" % (name, e))
    # setters followed by getters
    sim = H.simulator(d, hbar, CUTOFF[d])
    for setter_m, setter_c in (("xxpp_mean_vector", "xxpp_covariance_matrix"), ("xpxp_mean_vector", "xpxp_covariance_matrix")):
        fresh = sim.create_initial_state()
        try:
            setattr(fresh, setter_c, got[setter_c].copy())
            setattr(fresh, setter_m, got[setter_m].copy())
        except Exception as e:  # the state's own moments must be accepted by its setters
            _viol(ctx, {"sub": "setter_getter", "setter": setter_c, "getter": "raised"}, node.case(hbar=hbar), "setting %s/%s to the state's own values raised %r" % (setter_m, setter_c, e))
            continue
        back = _reps(fresh)
        bad = _cmp_reps(ctx, back, exp)
        mean_like = ("_m", "complex_displacement", "xxpp_mean_vector", "xpxp_mean_vector", "xxpp_representation[0]", "xpxp_representation[0]")
        for setter, names in ((setter_m, [b for b in bad if b[0] in mean_like]), (setter_c, [b for b in bad if b[0] not in mean_like])):
            if names:
                _viol(
                    ctx, {"sub": "setter_getter", "setter": setter}, node.case(hbar=hbar),
                    "after setting %s/%s to the state's own values: %s" % (setter_m, setter_c, ", ".join("%s differs by %.3g" % b for b in names)),
                )
        # setting only one of the two must not disturb the other
        fresh2 = sim.create_initial_state()
        setattr(fresh2, setter_m, got[setter_m].copy())
        ctx.count("comparisons")
        if H.err(np.array(fresh2.xxpp_covariance_matrix), hbar * np.identity(2 * d)) > 1e-9 or H.err(np.array(getattr(fresh2, setter_m)), got[setter_m]) > 1e-9 * max(1.0, H.amax(got[setter_m])):
            _viol(ctx, {"sub": "setter_getter", "setter": setter_m, "getter": "after mean only"}, node.case(hbar=hbar), "setting the mean alone changed the covariance or did not round-trip")
    # reduced: every ordered subset
    for modes in H.all_ordered_subsets(d):
        red = st.reduced(modes)
        rm, rc = R.reduce_xxpp(mean, cov, modes)
        bad = _cmp_reps(ctx, _reps(red), _ref_reps(rm, rc, hbar))
        if bad or red.d != len(modes):
            _viol(
                ctx, {"sub": "reduced", "representation": bad[0][0] if bad else "d", "ordered": list(modes) == sorted(modes)}, node.case(hbar=hbar, detail=list(modes)),
                "reduced(%s): %s" % (modes, ", ".join("%s differs by %.3g" % b for b in bad) or "wrong number of modes"),
            )
    # rotated: the angle lattice
    for phi in H.LATTICE:
        rot = st.rotated(phi)
        rm, rc = R.rotate_xxpp(mean, cov, phi)
        bad = _cmp_reps(ctx, _reps(rot), _ref_reps(rm, rc, hbar))
        if bad:
            _viol(ctx, {"sub": "rotated", "representation": bad[0][0]}, node.case(hbar=hbar, detail=phi), "rotated(%r): %s" % (phi, ", ".join("%s differs by %.3g" % b for b in bad)))
    # reduced + rotated through the combined API: every ordered subset with one of 3 lattice angles
    # (d = 4: ordered pairs, and ascending/descending triples and quadruple), all modes with 2 more
    subsets = H.all_ordered_subsets(d)
    if d >= 4:
        subsets = [m for m in subsets if len(m) <= 2 or list(m) == sorted(m) or list(m) == sorted(m, reverse=True)]
    three = (H.LATTICE[10], H.LATTICE[4], H.LATTICE[7])
    combos = [(m, three[i % 3]) for i, m in enumerate(subsets)]
    combos += [(tuple(range(d)), three[(len(subsets) + 1) % 3]), (tuple(range(d)), three[(len(subsets) + 2) % 3])]
    for modes, phi in combos:
        gm, gc = st.xpxp_reduced_rotated_mean_and_covariance(modes, phi)
        rm, rc = R.reduce_xxpp(mean, cov, modes)
        rm, rc = R.rotate_xxpp(rm, rc, phi)
        ctx.count("comparisons")
        ok1, e1 = H.close(gm, R.vec_to_xpxp(rm), max(1.0, H.amax(rm)))
        ok2, e2 = H.close(gc, R.mat_to_xpxp(rc), max(1.0, H.amax(rc)))
        if not (ok1 and ok2):
            _viol(ctx, {"sub": "reduced_rotated", "what": "mean" if not ok1 else "cov"}, node.case(hbar=hbar, detail=[list(modes), phi]), "xpxp_reduced_rotated_mean_and_covariance(%s, %r) differs by %.3g / %.3g" % (modes, phi, e1, e2))
    # string moments up to length 3
    n = 2 * d
    X1 = np.array([st.get_xp_string_moment([i]) for i in range(n)], dtype=complex)
    L1 = np.array([st.get_ladder_string_moment([i]) for i in range(n)], dtype=complex)
    X2 = np.array([[st.get_xp_string_moment([i, j]) for j in range(n)] for i in range(n)], dtype=complex)
    L2 = np.array([[st.get_ladder_string_moment([i, j]) for j in range(n)] for i in range(n)], dtype=complex)
    X3 = np.array([[[st.get_xp_string_moment([i, j, k]) for k in range(n)] for j in range(n)] for i in range(n)], dtype=complex)
    L3 = np.array([[[st.get_ladder_string_moment([i, j, k]) for k in range(n)] for j in range(n)] for i in range(n)], dtype=complex)
    ctx.count("string_moments", 2 * (n + n * n + n**3))
    T1, T2, T3 = R.xp_moment_tensors(mean, cov, hbar)
    W1, W2, W3 = R.ladder_from_xp_tensors(X1, X2, X3, hbar)  # the implementation's xp moments pushed through W
    R1, R2, R3 = R.ladder_from_xp_tensors(T1, T2, T3, hbar)
    for length, gx, gl, wx, tx, rl in ((1, X1, L1, W1, T1, R1), (2, X2, L2, W2, T2, R2), (3, X3, L3, W3, T3, R3)):
        ctx.count("comparisons", 3)
        sc = max(1.0, H.amax(tx))
        ok, e = H.close(gl, wx, max(1.0, H.amax(wx)))
        if not ok:
            _viol(ctx, {"sub": "string_moment", "relation": "ladder=W(xp)", "length": length}, node.case(hbar=hbar), "get_ladder_string_moment differs from get_xp_string_moment pushed through W by %.3g (length %d)" % (e, length))
        ok, e = H.close(gx, tx, sc)
        if not ok:
            _viol(ctx, {"sub": "string_moment", "relation": "xp=reference", "length": length}, node.case(hbar=hbar), "get_xp_string_moment differs from the ordered-moment reference by %.3g (length %d)" % (e, length))
        ok, e = H.close(gl, rl, max(1.0, H.amax(rl)))
        if not ok:
            _viol(ctx, {"sub": "string_moment", "relation": "ladder=reference", "length": length}, node.case(hbar=hbar), "get_ladder_string_moment differs from the reference by %.3g (length %d)" % (e, length))
