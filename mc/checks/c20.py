"""C20 -- condition and parameter expressions are safe and mean what Python means.

Bounded-exhaustive enumeration of expression strings against Python's own `eval`.

(a) grammar: every AST of the supported grammar with depth <= d and exactly k leaf occurrences over a
    leaf alphabet (FAMILIES_QUICK / FAMILIES_THOROUGH: depth 1 over the full 17-leaf alphabet, depth 2
    over reduced ones, depth 3 / 4 over minimal ones; atoms such as x[0], x[1:] count as depth-0
    leaves; "every AST to depth 2" without a leaf bound is > 3e9 strings even over two leaves because
    of 3-operand and/or and 2-operator comparison chains, so the families bound depth AND leaf count),
    unparsed by mc/c20_gen.py (self-checked: ast.parse(src) gives back the same tree),
    times every outcome tuple over {0,1,2} up to a length plus float / numpy.int32 / numpy.float64
    variants.  Oracle: the string is accepted, and Expression(src)(x) equals
    eval(compile(src), {"__builtins__": {}}, {"x": x}) (type-exact for pure-Python outcomes;
    value and truthiness for numpy outcomes) or both raise the same exception type.
(b) hostile: every single-token replacement / insertion of a hostile token in every base string,
    plus a fixed corpus.  The expected verdict comes from an independent classifier written from
    the property's wording (mc/c20_gen.py:classify): syntax error or "anything else" => rejected
    with InvalidExpression at construction, canary never invoked; a string that is still in the
    grammar => oracle (a); further operators (//, <<, ~, is, in, complex literals) => rejection or
    Python's meaning.
(c) the same through Instruction.when(str), string parameters, and a few hundred end-to-end
    PureFockSimulator runs with a deterministic measurement outcome.
"""

import itertools
import math
import re

LEVEL = "exploration"

RC = ["==", "<", ">="]  # reduced comparison operators of the deep families
RU = ["-", "not"]

# name -> (alphabet, reduced operator sets?, max depth, leaf counts, outcome length, variant length)
FAMILIES_QUICK = {
    # small on purpose (<= ~3 CPU-minutes for the whole quick tier); every family is contained in a thorough one
    "d1_mid_k123": ("A_MID", False, 1, (1, 2, 3), 3, 2),
    "d1_red_k4": ("A_RED", False, 1, (4,), 3, 2),
    "d2_min_k12": ("A_MIN", False, 2, (1, 2), 2, 1),
    "d2_two_k3": ("A_TWO", True, 2, (3,), 1, 1),
    "d3_two_k12": ("A_TWO", True, 3, (1, 2), 1, 1),
}
FAMILIES_THOROUGH = {
    "d1_full_k1234": ("A_FULL", False, 1, (1, 2, 3, 4), 4, 2),
    "d2_full_k12": ("A_FULL", False, 2, (1, 2), 3, 2),
    "d2_min_k3": ("A_MIN", True, 2, (3,), 3, 2),
    "d2_two_k4": ("A_TWO", True, 2, (4,), 1, 1),
    "d3_tiny_k12": ("A_TINY", True, 3, (1, 2), 3, 1),
    "d4_two_k12": ("A_TWO", True, 4, (1, 2), 1, 1),
}
# base strings of the single-token mutation: (alphabet, reduced, depth, leaf counts)
MUT_BASE_QUICK = [("A_TINY", False, 1, (1, 2))]
MUT_BASE_THOROUGH = [("A_RED", False, 1, (1, 2)), ("A_MIN", False, 1, (3,)), ("A_TWO", True, 2, (1, 2))]
PAREN_QUICK = [("A_MIN", False, 1, (1, 2)), ("A_TWO", True, 2, (2,))]
PAREN_THOROUGH = [("A_RED", False, 1, (1, 2, 3)), ("A_TWO", True, 2, (2, 3))]
INSTR_QUICK = [("A_MIN", False, 1, (1, 2))]
INSTR_THOROUGH = [("A_RED", False, 1, (1, 2, 3))]

HOSTILE_TOKENS = [
    # other names
    "y", "X", "canary", "__builtins__", "os", "Ellipsis",
    # calls
    "canary(x)", "f(x)", "x()", "len(x)", "canary()",
    # attributes
    "x.canary_attr", "x.__class__", "x.count", "(1).real", "canary.attr", ".canary_attr", ".__class__",
    # literals that are not numbers / booleans
    "'s'", '"s"', "b'b'", "None", "1j", "...",
    # lambda, comprehensions, walrus, conditional expression, starred, f-string, displays
    "lambda: canary()", "(lambda: 0)", "[y for y in x]", "(y for y in x)", "{y for y in x}", "{y: y for y in x}",
    "(y := 1)", "(x := 1)", ":=", "1 if x else canary()", "if", "else", "*x", "*", "**x", "f'{x}'", "f'{canary()}'",
    "{1}", "{1: 2}", "{}",
    # operators outside the documented list
    "//", "<<", ">>", "@", "~", "is", "in", "is not", "not in", "|", "&", "=", ";", ".", "await", "yield", "for", "import",
    "`", "$", "?", "\\", "\n", "\x00",
]

HOSTILE_CORPUS = [
    "().__class__.__bases__[0].__subclasses__()",
    "x.__class__.__mro__[-1].__subclasses__()",
    "[].__class__.__base__",
    "x[0].__class__",
    "(1).__add__(1)",
    "x.__getitem__(0)",
    "__import__('os')",
    "__import__('os').system('true')",
    "__import__('c20_canary_mod')",
    "__import__('c20_canary_mod').f()",
    "x[0] > 0 or __import__('c20_canary_mod').sqrt(4)",
    "canary(canary(x))",
    "canary(canary(canary(x[0]) + 1) * 2)",
    "canary()(1)(2)",
    "getattr(x, '__class__')",
    "getattr(canary, 'attr')",
    "eval('canary()')",
    "exec('canary()')",
    "compile('1', 's', 'eval')",
    "open('/etc/passwd')",
    "globals()",
    "locals()",
    "vars()",
    "dir()",
    "type(x)",
    "type(x)(x)",
    "''.join([])",
    "'%s' % x",
    "'a' + 'b'",
    "'a' * 3",
    "x['a']",
    "f\"{x!r}\"",
    "f'{canary()}'",
    "1 if canary() else 2",
    "canary() if 1 else 2",
    "[canary() for _ in (1,)]",
    "[z for z in x if canary()]",
    "sum(z for z in x)",
    "{canary(): 1}",
    "{canary()}",
    "lambda: canary()",
    "(lambda: canary())()",
    "(lambda z: z)(x)",
    "canary() and 1",
    "0 or canary()",
    "True and canary()",
    "not canary()",
    "x[canary()]",
    "x[canary():]",
    "x[::canary()]",
    "-canary()",
    "(canary(),)",
    "[canary()]",
    "1 < canary() < 2",
    "canary.__call__()",
    "canary.attr.attr2",
    "x; canary()",
    "import os",
    "x\ncanary()",
    "canary() # comment",
    "(y := canary())",
    "[y := 1, y]",
    "*x,",
    "(*x, 1)",
    "[*x]",
    "x[*x]",
    "await canary()",
    "yield",
    "(yield)",
    "print(1)",
    "x.count(0)",
    "x.index(0)",
    "x.canary_attr",
    "None",
    "x is None",
    "...",
    "x[...]",
    "1j",
    "b'abc'",
    "b'abc'[0]",
    "u'abc'",
    "r'abc'",
    "'''abc'''",
    "__debug__",
    "__name__",
    "__builtins__",
    "__builtins__['canary']()",
    "os.path.exists('file.txt')",
    "x[0] > 0; print('Hello World')",
    "x = 1",
    "x += 1",
    "del x",
    "pass",
    "def f(): pass",
    "class A: pass",
    "with x: pass",
    "assert canary()",
    "raise canary()",
    "global x",
    "",
    " ",
    "\n",
    "#",
    "\\",
    "(",
    ")",
    "x[",
    "1 +",
    "x[0] ==",
    "x\x00",
    "canary()\x00",
    "x[0] if x else canary()",
    "x.real",
    "x[0].real",
    "(1.5).is_integer()",
    "True.__class__",
    "int",
    "int(1)",
    "float('nan')",
    "abs(-1)",
    "True if True else False",
    "not_x",
    "xx",
    "x1",
    "_",
    "x_",
    "х",  # cyrillic small ha, looks like x
    "ｘ",  # fullwidth x: NFKC-normalises to the ASCII identifier x
]


def _deep_corpus(big=True):
    """very long / deep hostile strings (built at run time); the 20000-level ones cost seconds
    each in ast.parse and are left to the thorough tier"""
    out = []
    for n in (10, 50, 150, 199, 250, 1000):
        out.append("(" * n + "canary()" + ")" * n)
        out.append("[" * n + "canary()" + "]" * n)
        out.append("x[" * min(n, 150) + "canary()" + "]" * min(n, 150))
    for n in (10, 100, 500, 2000, 20000):
        if n > 2000 and not big:
            continue
        out.append("-" * n + "canary()")
        out.append("not " * n + "canary()")
        out.append("1 + " * n + "canary()")
        out.append("canary() + " + " + ".join(["1"] * n))
        out.append("1 and " * n + "canary()")
        out.append("1 < " * n + "canary()")
        out.append("canary()" + ".a" * n)
        out.append("canary" + "()" * n)
        out.append("x" + "[0]" * n + ".canary_attr")
        out.append("2 ** " * n + "y")
        out.append("(" + "1, " * n + "canary())")
    if big:
        out.append("1 + " * 25000 + "y")
    out.append("'" + "a" * 100000 + "'")
    return out


def _long_valid_corpus():
    """long / deep strings that ARE in the grammar: python's value is the oracle as long as both
    sides stay within their recursion limits (a resource divergence is counted, not reported:
    the property quantifies over depth <= 4)"""
    out = []
    for n in (10, 50, 100, 150):
        out.append(" + ".join(["1"] * n))
        out.append(" + ".join(["x[0]"] * n))
        out.append("(" * n + "x[0]" + ")" * n)
        out.append("-" * n + "x[0]")
        out.append("not " * n + "x[0]")
        out.append(" and ".join(["x[0]"] * n))
        out.append(" < ".join(str(i) for i in range(n)))
        out.append("x" + "[:]" * n)
        out.append("1 - (" * n + "x[0]" + ")" * n)
        out.append("2 ** " * min(n, 4) + "1")
    for n in (500, 3000):
        out.append(" + ".join(["1"] * n))
        out.append("-" * n + "x[0]")
        out.append(" and ".join(["x[0]"] * n))
        out.append("1 - (" * min(n, 190) + "x[0]" + ")" * min(n, 190))
    return out


FORMAT_CORPUS = [
    " x[0] ", "\tx[0]\t", "x[0]\n", "\nx[0]", "x[0]\t+\t1", "(x[0]\n+ 1)", "x[0] # comment", "x[0]  +  1", "x[ 0 ]", "x [0]",
    "x[0 : 2]", "x[::]", "x[:]", "((((x))))", "(x)[(0)]", "x[(0)]", "x[0,]", "x[(0, 1)]", "x[0, 1]", "x[0:1, 0]", "x[0:1, 0:1]",
    "1_000 + x[0]", "0x10", "0b11", "0o7", "1e3", "1E-2", ".5", "5.", "1_0.0_1", "1e400", "-1e400", "1e-400", "00", "0_0",
    "10 ** 20", "2 ** 62 * 4", "9007199254740993", "9007199254740993 / 1", "0.1 + 0.2", "1 / 3", "-0.0", "0.0 * -1", "-7 % 3", "7 % -3",
    "-7.5 % 2", "2 ** -1", "(-8) ** (1 / 3)", "-8 ** 2", "2 ** 3 ** 2", "-2 ** -2", "0 ** 0", "0.0 ** -1", "1 ^ 3", "True ^ True",
    "True + True", "-True", "+False", "not 0.0", "not ()", "not []", "not x", "1 == 1.0", "1 == True", "(1,) == [1]", "[1] == [1.0]",
    "() < (1,)", "(1, 2) < (1, 3)", "[1, 2] >= [1]", "x == x", "x != ()", "x < (3,)", "x[0] == 2 and x[1] >= 0",
    "x[0] ** 2 + x[1] ** 2", "(x[0] ** 2 + x[1] ** 2) > 10 and x[0] < x[1]", "[x[0], x[1], 5][2]", "(x[0], x[1], 5)[1]",
    "x[::-1][0]", "x[-3:-1]", "x[:-1]", "x[5:]", "x[-100:100]", "x[::0]", "x[0.5]", "x[True]", "x[False:True]", "x[x[0]]", "x[x[0]:x[1]]",
    "1 < 2 < 3", "1 < 2 > 3", "1 < 3 > 2 == 2 != 5 <= 5 >= 0", "0 == 0 == 0 == 1", "x[0] < x[1] < x[2]",
    "0 and 1 / 0", "1 or 1 / 0", "0 or 0.0", "1 and 2 and 3", "0 or () or [] or 0.0", "1 and () and 1 / 0", "x and x[0]", "x or 7",
    "not 1 == 2", "not (1 == 2)", "(not 1) == 2", "- - 1", "+-+1", "not not x", "1 if 1 else 1",
    "x * 2", "2 * x", "x + x", "x + (1,)", "x + [1]", "[1] + [2]", "[1] * 2", "x % 2", "x / 2", "x ** 2", "x ^ 1", "-x", "+x",
    "1 / 0", "1 % 0", "1.0 / 0", "0 ** -1", "x[10]", "x[-10]", "1[0]", "1.5[0]", "True[0]", "(1, 2)[2]", "[1][1]", "()[0]",
    "1 and x - x[0]", "0 or x + x[0]", "x[0] >= 0 and x * x[0]", "x - x[0] and 1", "x - x[0] or 1", "not (x - x[0])", "x - x[0] == 0", "0 <= x - x[0] <= 1",
    # operators / literals outside the documented list: rejection or python's meaning
    "7 // 2", "-7 // 2", "7.5 // 2", "x[0] // 2", "2 // x[0]", "1 << 3", "x[0] << 1", "8 >> 1", "6 | 1", "6 & 3", "True & False", "~1", "~x[0]", "~True",
    "1 is 1", "x is x", "x is not x", "1 in (1, 2)", "x[0] in x", "0 not in x", "2 @ 2", "1j", "1j * 1j", "2 + 1j", "x[0] * 1j", "1 < 2 in (2,)",
    "1 + (2,)", "1 < (2,)", "[1] < (1,)", "x < 1", "1.5 ^ 1", "2 ** 0.5", "(-1) ** 0.5", "4 ** 0.5 == 2",
]


# ------------------------------------------------------------------------------------------------


def _families(tier):
    return FAMILIES_QUICK if tier == "quick" else FAMILIES_THOROUGH


def _nchunks(tier, name):
    big = {"d1_mid_k123": 8, "d2_two_k4": 32, "d1_full_k1234": 48, "d2_full_k12": 48, "d2_min_k3": 32, "d4_two_k12": 48}
    return big.get(name, 8)


def _items(tier):
    items = []
    for name in _families(tier):
        n = _nchunks(tier, name)
        for c in range(n):
            items.append(("gram", name, c, n))
    n = 4 if tier == "quick" else 64
    for c in range(n):
        items.append(("mut", c, n))
    for c in range(2 if tier == "quick" else 4):
        items.append(("paren", c, 2 if tier == "quick" else 4))
    items.append(("corpus",))
    for c in range(1 if tier == "quick" else 12):
        items.append(("deep", c, 1 if tier == "quick" else 12))
    for c in range(1 if tier == "quick" else 4):
        items.append(("instr", c, 1 if tier == "quick" else 4))
    items.append(("e2e",))
    return items


def run(ctx, builddir):
    from mc import core

    items = _items(ctx.tier)
    if getattr(ctx, "only", None):
        items = [it for it in items if it[0] == ctx.only or (len(it) > 1 and it[1] == ctx.only)]
    # interleave heavy and light items so that the pool stays balanced
    items.sort(key=lambda it: (it[2] if len(it) > 2 and isinstance(it[2], int) else 0, str(it[0]), str(it[1:2])))
    ctx.rule = (
        "grammar: every AST with depth <= d and exactly k leaf occurrences over a leaf alphabet (families in "
        "coverage.families; atoms like x[0], x[1:] are depth-0 leaves), own unparser self-checked against ast.parse, "
        "x every outcome tuple over {0,1,2} up to the family's length plus float / numpy.int32 / numpy.float64 variants; "
        "hostile: every replacement and every insertion of each hostile token at each token position of each base string "
        "+ fixed corpus; a case is distinct/non-trivial per (family, root production, python result class)"
    )
    ctx.assume("oracle = CPython eval(compile(src,'<e>','eval'), {'__builtins__': {}}, {'x': x}); type-exact comparison for int/float outcome tuples, value+truthiness for numpy outcomes")
    ctx.assume("literal 'every AST to depth 2 with 3-operand and/or and 2-operator comparison chains' is >3e9 strings even over 2 leaves; the families bound depth AND leaf count instead, deep families use reduced operator sets (cmp ==,<,>=; unary -,not; no list displays)")
    ctx.assume("(expression, x) pairs whose evaluation would build an integer > 2048 bits or a sequence > 4096 items are skipped by an independent guarded pre-evaluation and counted (resource_guard_skipped)")
    ctx.assume("numpy outcome tuples: numpy.bool_ versus bool results of comparisons are not distinguished (DESIGN 6.1); piquasso's value must equal Python's either with raw comparison results or with comparison results coerced by bool()")
    ctx.assume("operators outside the documented list (//, <<, >>, |, &, @, ~, is, in) and complex literals: rejection OR Python's meaning are both accepted (the property lists 'arithmetic, comparison and boolean operators' and 'numbers' without enumerating them)")
    ctx.assume("a RecursionError / MemoryError at construction of a >100-level deep hostile string counts as a rejection (counter rejected_resource_exception)")
    core.pmap(ctx, "mc.checks.c20", "work", items, builddir)
    c = ctx.counters
    fam = {}
    for name, (alpha, red, d, ks, ol, vl) in _families(ctx.tier).items():
        fam[name] = {
            "alphabet": alpha, "reduced_operator_sets": red, "max_depth": d, "leaf_counts": list(ks),
            "outcome_len": ol, "variant_len": vl, "strings": c.get("strings_" + name, 0),
        }
    return {
        "evaluations": c.get("evaluations", 0),
        "grammar_strings": c.get("grammar_strings", 0),
        "mutants": c.get("mutants", 0),
        "families": fam,
        "explanation": "evaluations = (string, outcome tuple) pairs evaluated by both piquasso and CPython and compared, plus "
        "hostile / mutated strings constructed under the canary; grammar_strings counted with multiplicity across families "
        "(families of larger depth contain the shallower trees over their own alphabet)",
    }


# --- comparison -------------------------------------------------------------------------------------


def same_strict(a, b):
    ta = type(a)
    if ta is not type(b):
        return False
    if ta is tuple or ta is list:
        if len(a) != len(b):
            return False
        for p, q in zip(a, b):
            if not same_strict(p, q):
                return False
        return True
    if ta is float:
        if a != a:
            return b != b
        return a == b and math.copysign(1.0, a) == math.copysign(1.0, b)
    if ta is complex:
        return same_strict(a.real, b.real) and same_strict(a.imag, b.imag)
    return a == b


def same_loose(a, b):
    import numpy as np

    if isinstance(a, np.ndarray) or isinstance(b, np.ndarray):
        if not (isinstance(a, np.ndarray) and isinstance(b, np.ndarray)) or a.shape != b.shape or a.dtype != b.dtype:
            return False
        try:
            return bool(np.array_equal(a, b, equal_nan=a.dtype.kind in "fc"))
        except Exception:
            return False
    sa, sb = isinstance(a, (tuple, list)), isinstance(b, (tuple, list))
    if sa or sb:
        if type(a) is not type(b) or len(a) != len(b):
            return False
        return all(same_loose(p, q) for p, q in zip(a, b))
    try:
        if bool(a) != bool(b):
            return False
        if a != a and b != b:
            return True
        return bool(a == b)
    except Exception:
        return False


_PYG = {"__builtins__": {}}


class _BoolCompare(__import__("ast").NodeTransformer):
    def visit_Compare(self, node):
        import ast

        self.generic_visit(node)
        return ast.copy_location(ast.Call(func=ast.Name(id="__c20_bool", ctx=ast.Load()), args=[node], keywords=[]), node)


def compile_bool_compare(src):
    """the same expression with every comparison's result coerced by bool(): for numpy outcomes
    python yields numpy.bool_ (or a broadcast array) where piquasso's evaluator yields a python
    bool; DESIGN 6.1 rules that np.bool_ versus bool is not something the property distinguishes,
    so for numpy outcome tuples agreement with EITHER reading is accepted"""
    import ast

    tree = _BoolCompare().visit(ast.parse(src.strip(), mode="eval"))
    ast.fix_missing_locations(tree)
    return compile(tree, "<e-bool>", "eval")


_PYG_B = {"__builtins__": {}, "__c20_bool": bool}


def py_eval_b(code_b, x):
    try:
        return (True, eval(code_b, _PYG_B, {"x": x}))
    except Exception as e:
        return (False, type(e).__name__)


def agree_np(src, code, x, q, cache, p=None):
    """numpy outcome tuple: piquasso's result q must agree with python (raw comparisons) or with
    python where comparison results are coerced by bool()"""
    if agree(p if p is not None else py_eval(code, x), q, False):
        return True
    if "b" not in cache:
        cache["b"] = compile_bool_compare(src)
    return agree(py_eval_b(cache["b"], x), q, False)


def py_eval(code, x):
    try:
        return (True, eval(code, _PYG, {"x": x}))
    except Exception as e:
        return (False, type(e).__name__)


def pq_eval(expr, x):
    try:
        return (True, expr(x))
    except Exception as e:
        return (False, type(e).__name__)


def agree(p, q, strict):
    if p[0] != q[0]:
        return False
    if not p[0]:
        return p[1] == q[1]
    return same_strict(p[1], q[1]) if strict else same_loose(p[1], q[1])


# --- outcome tuples ---------------------------------------------------------------------------------

_FMAP = {0: 0.0, 1: 1.0, 2: 2.5}


def build_x(variant, values):
    import numpy as np

    if variant == "int":
        return tuple(int(v) for v in values)
    if variant == "float":
        return tuple(_FMAP[int(v)] for v in values)
    if variant == "np32":
        return tuple(np.int32(v) for v in values)
    if variant == "npf64":
        return tuple(np.float64(_FMAP[int(v)]) for v in values)
    raise ValueError(variant)


def outcome_specs(maxlen, varlen):
    specs = []
    for n in range(maxlen + 1):
        for vals in itertools.product((0, 1, 2), repeat=n):
            specs.append(("int", vals))
    for variant in ("float", "np32", "npf64"):
        for n in range(1, varlen + 1):
            for vals in itertools.product((0, 1, 2), repeat=n):
                specs.append((variant, vals))
    return [(v, vals, build_x(v, vals)) for v, vals in specs]


# --- canary -------------------------------------------------------------------------------------------

HITS = []


class _Canary:
    def __call__(self, *a, **k):
        HITS.append("call")
        return self

    def __getattr__(self, name):
        if name.startswith("__") and name.endswith("__"):
            raise AttributeError(name)
        HITS.append("getattr:" + name)
        return self

    def __repr__(self):
        return "<canary>"


class CanaryTuple(tuple):
    @property
    def canary_attr(self):
        HITS.append("x.canary_attr")
        return 0

    def count(self, *a):
        HITS.append("x.count")
        return 0

    def index(self, *a):
        HITS.append("x.index")
        return 0


_installed = []


def install_canary():
    import builtins
    import piquasso.core._expressions as M

    if _installed:
        return
    can = _Canary()
    orig_import = builtins.__import__

    def recording_import(name, *a, **k):
        if isinstance(name, str) and name.startswith("c20_canary"):
            HITS.append("import:" + name)
            raise ImportError(name)
        return orig_import(name, *a, **k)

    for target in (builtins, M):
        for nm in ("canary", "f", "y"):
            setattr(target, nm, can)
    builtins.__import__ = recording_import
    _installed.append((can, orig_import))


def uninstall_canary():
    import builtins
    import piquasso.core._expressions as M

    if not _installed:
        return
    can, orig_import = _installed.pop()
    builtins.__import__ = orig_import
    for target in (builtins, M):
        for nm in ("canary", "f", "y"):
            if getattr(target, nm, None) is can:
                delattr(target, nm)


# --- canonical (slow, replayable) case functions --------------------------------------------------------


def _quiet():
    import warnings
    import numpy as np

    warnings.simplefilter("ignore")
    np.seterr(all="ignore")


def _construct(src, via):
    """build the object under test from a string; returns (callable taking x, exception-unwrapper)"""
    from piquasso.core._expressions import Expression

    if via == "Expression":
        e = Expression(src)
        return lambda x: e(x)
    import piquasso as pq

    if via == "Instruction.when":
        ins = pq.Phaseshifter(phi=0.25).when(src)

        def call(x):
            try:
                return ins._is_condition_met(x)
            except pq.api.exceptions.PiquassoException as exc:
                if exc.__cause__ is not None:
                    raise exc.__cause__
                raise

        return call
    if via == "string_param":
        ins = pq.Phaseshifter(phi=src)

        def call(x):
            try:
                ins._resolve_params(x)
                return ins.params["phi"]
            except pq.api.exceptions.InvalidParameter as exc:
                if exc.__cause__ is not None:
                    raise exc.__cause__
                raise
            finally:
                ins._unresolve_params()

        return call
    raise ValueError(via)


def eval_case(src, variant, values, via="Expression"):
    """-> (verdict, detail): verdict in ok / rejected / construct_error / mismatch"""
    from piquasso.api.exceptions import InvalidExpression

    _quiet()
    x = build_x(variant, values)
    code = compile(src.strip(), "<e>", "eval")
    try:
        fn = _construct(src, via)
    except InvalidExpression as e:
        return "rejected", "InvalidExpression: %s" % e
    except Exception as e:
        return "construct_error", "%s: %s" % (type(e).__name__, e)
    p = py_eval(code, x)
    q = pq_eval(fn, x)
    if variant in ("int", "float"):
        if agree(p, q, True):
            return "ok", ""
    elif agree_np(src, code, x, q, {}):
        return "ok", ""
    return "mismatch", "python -> %s, piquasso -> %s" % (_show(p), _show(q))


def eval_many(src, specs, via="Expression", tree=None):
    """construct once, evaluate on every outcome spec; -> None or the first (variant, values, verdict)
    that does not agree (fast path; the canonical eval_case re-checks before anything is reported)"""
    from piquasso.api.exceptions import InvalidExpression
    from mc import c20_gen as G

    code = compile(src.strip(), "<e>", "eval")
    try:
        fn = _construct(src, via)
    except InvalidExpression:
        return (specs[0][0], specs[0][1], "rejected")
    except Exception:
        return (specs[0][0], specs[0][1], "construct_error")
    guard = tree is not None and "*" in src
    cache = {}
    for variant, vals, x in specs:
        if guard:
            try:
                G.guard_eval(tree, x)
            except G.Skip:
                continue
        if variant in ("int", "float"):
            if not agree(py_eval(code, x), pq_eval(fn, x), True):
                return (variant, vals, "mismatch")
        elif not agree_np(src, code, x, pq_eval(fn, x), cache):
            return (variant, vals, "mismatch")
    return None


def _show(r):
    if not r[0]:
        return "raises " + r[1]
    s = repr(r[1])
    if len(s) > 120:
        s = s[:120] + "..."
    return "%s (%s)" % (s, type(r[1]).__name__)


def _localise(tree, variant, values, via):
    """smallest sub-expression that already disagrees on its own (children first)"""
    from mc import c20_gen as G

    for sub in G.subtrees(tree):
        try:
            verdict, _ = eval_case(G.unparse(sub), variant, values, via)
        except Exception:
            continue
        if verdict != "ok":
            return sub, verdict
    return tree, "mismatch"


def report_eval(ctx, src, variant, values, via, tree=None, origin="grammar"):
    """canonical second evaluation + localisation + violation"""
    from mc import core, c20_gen as G

    v1 = eval_case(src, variant, values, via)
    v2 = eval_case(src, variant, values, via)
    if v1 != v2:
        raise core.HarnessError("HARNESS-NONDETERMINISM C20 %r x=%s/%s: %r vs %r" % (src, variant, values, v1, v2))
    if v1[0] == "ok":
        return False
    if tree is None:
        cls = G.classify(src)
        tree = cls[1] if cls[0] == "grammar" else None
    node = "?"
    loc_src = src
    if tree is not None:
        sub, _ = _localise(tree, variant, values, via)
        node = G.node_label(sub)
        loc_src = G.unparse(sub)
    vloc = v1
    if loc_src != src:
        try:
            vl = eval_case(loc_src, variant, values, via)
            if vl[0] != "ok":
                vloc = vl
        except Exception:
            pass
    # signature = (kind of the smallest deviating sub-expression, kind of deviation): one root cause gives
    # one to three signatures, whatever the operand shapes and outcome types it is reached through
    if vloc[0] == "rejected":
        sig = {"check": "C20", "sub": "grammar_rejected", "node": node}
    elif vloc[0] == "construct_error":
        sig = {"check": "C20", "sub": "construction_raises_other", "node": node}
    else:
        x = build_x(variant, values)
        p_ = py_eval(compile(loc_src.strip(), "<e>", "eval"), x)
        try:
            q_ = pq_eval(_construct(loc_src, via), x)
        except Exception:
            q_ = (False, "?")
        if p_[0] and q_[0]:
            dev = "value"
        elif p_[0]:
            dev = "piquasso_raises_only"
        elif q_[0]:
            dev = "python_raises_only"
        else:
            dev = "exception_type"
        sig = {"check": "C20", "sub": "semantics", "node": node, "deviation": dev}
    if via != "Expression":
        sig["via"] = via
    case = {"kind": "eval", "src": src, "variant": variant, "values": list(values), "via": via, "origin": origin}
    ctx.violation(sig, case, "%s(%r) with x=%s%s: %s" % (via, src, variant, tuple(values), v1[1]))
    return True


def hostile_case(src, via="Expression"):
    """-> dict(verdict=rejected|rejected_resource|wrong_exception|accepted, exc=..., hits=[...], eval=...)"""
    from piquasso.api.exceptions import InvalidExpression

    _quiet()
    install_canary()
    try:
        n0 = len(HITS)
        out = {"exc": None, "hits": [], "eval": None}
        try:
            fn = _construct(src, via)
        except InvalidExpression:
            out["verdict"] = "rejected"
            fn = None
        except (RecursionError, MemoryError) as e:
            out["verdict"] = "rejected_resource"
            out["exc"] = type(e).__name__
            fn = None
        except Exception as e:
            out["verdict"] = "wrong_exception"
            out["exc"] = type(e).__name__
            fn = None
        out["hits_construction"] = list(HITS[n0:])
        if fn is not None:
            out["verdict"] = "accepted"
            n1 = len(HITS)
            for x in (CanaryTuple((1, 2)), CanaryTuple(())):
                try:
                    r = fn(x)
                    out["eval"] = "returned %s" % type(r).__name__
                except Exception as e:
                    out["eval"] = "raised %s" % type(e).__name__
            out["hits_evaluation"] = list(HITS[n1:])
        else:
            out["hits_evaluation"] = []
        return out
    finally:
        uninstall_canary()


def check_string(ctx, src, via="Expression", origin="corpus", specs=None):
    """classify a string by the property's wording and check the matching obligation"""
    from mc import core, c20_gen as G

    cls, info = G.classify(src)
    ctx.count("class_" + cls)
    if origin != "mutant":
        ctx.note_distinct((origin.split(":")[0], via, cls, str(info) if cls != "grammar" else G.node_label(info)))
    if cls == "grammar":
        ctx.count("evaluations", len(specs))
        bad = eval_many(src, specs, via, tree=info)
        if bad:
            report_eval(ctx, src, bad[0], bad[1], via, tree=info, origin=origin)
        return cls
    res = hostile_case(src, via)
    ctx.count("evaluations")
    case = {"kind": "hostile", "src": src if len(src) < 400 else None, "src_len": len(src), "via": via, "origin": origin, "class": cls, "why": info}
    if len(src) >= 400:
        case["src_head"] = src[:60]
        case["src_tail"] = src[-60:]
        case["deep_index"] = origin
    hits = res["hits_construction"] + res["hits_evaluation"]
    if hits:
        res2 = hostile_case(src, via)
        if (res2["hits_construction"] + res2["hits_evaluation"]) != hits:
            raise core.HarnessError("HARNESS-NONDETERMINISM C20 canary %r" % src[:80])
        stage = "construction" if res["hits_construction"] else "evaluation"
        ctx.violation(
            {"check": "C20", "sub": "canary_invoked", "stage": stage, "construct": str(info), "via": via},
            case, "%s(%r): canary invoked during %s: %s" % (via, src[:200], stage, hits[:4]),
        )
    v = res["verdict"]
    if v == "rejected":
        ctx.count("rejected_" + cls)
        return cls
    if v == "rejected_resource":
        ctx.count("rejected_resource_exception")
        ctx.note_distinct(("resource", res["exc"], cls))
        return cls
    if v == "wrong_exception":
        if hostile_case(src, via)["verdict"] != v:
            raise core.HarnessError("HARNESS-NONDETERMINISM C20 %r" % src[:80])
        ctx.violation(
            {"check": "C20", "sub": "rejected_with_wrong_exception", "exc": res["exc"], "class": cls, "via": via},
            case, "%s(%r) raised %s instead of InvalidExpression" % (via, src[:200], res["exc"]),
        )
        return cls
    # accepted
    if cls in ("syntax", "hostile"):
        if hostile_case(src, via)["verdict"] != "accepted":
            raise core.HarnessError("HARNESS-NONDETERMINISM C20 %r" % src[:80])
        sub = "hostile_accepted" if cls == "hostile" else "syntax_invalid_accepted"
        ctx.violation(
            {"check": "C20", "sub": sub, "construct": str(info), "via": via},
            case, "%s(%r) was accepted (class %s: %s); evaluation then %s" % (via, src[:200], cls, info, res["eval"]),
        )
        return cls
    # neutral and accepted: must mean what python means
    ctx.count("neutral_accepted")
    bad = eval_many(src, specs, via)
    if bad:
        variant, vals, _ = bad
        verdict, detail = eval_case(src, variant, vals, via)
        if True:
            if verdict != "mismatch" or eval_case(src, variant, vals, via)[0] != "mismatch":
                raise core.HarnessError("HARNESS-NONDETERMINISM C20 %r" % src[:80])
            ctx.violation(
                {"check": "C20", "sub": "neutral_operator_value_mismatch", "construct": str(info), "via": via},
                {"kind": "eval", "src": src, "variant": variant, "values": list(vals), "via": via, "origin": origin},
                "%s(%r) accepted but x=%s%s: %s" % (via, src, variant, vals, detail),
            )
    return cls


# --- replay ---------------------------------------------------------------------------------------------


def replay(ctx, case, signature):
    kind = case["kind"]
    if kind == "eval":
        cls = None
        if signature.get("sub") == "neutral_operator_value_mismatch":
            verdict, detail = eval_case(case["src"], case["variant"], case["values"], case["via"])
            if verdict == "mismatch":
                ctx.violation(signature, case, detail)
            return
        report_eval(ctx, case["src"], case["variant"], case["values"], case["via"], origin=case.get("origin", "replay"))
    elif kind == "hostile":
        src = case["src"]
        if src is None:
            _, i, big = case["deep_index"].split(":")
            src = _deep_corpus(bool(int(big)))[int(i)]
        check_string(ctx, src, case["via"], origin=case["origin"], specs=outcome_specs(2, 1))
    elif kind == "e2e":
        _e2e_one(ctx, case["src"], case["role"])
    else:
        raise ValueError(kind)


# --- workers ----------------------------------------------------------------------------------------------


def work(ctx, item):
    _quiet()
    globals()["_w_" + item[0]](ctx, item)


def _enumerator(alpha, red):
    from mc import c20_gen as G

    A = getattr(G, alpha)
    if red:
        return G.Enumerator(A, cmpops=RC, unops=RU, reduced=True)
    return G.Enumerator(A)


def _result_class(p):
    if not p[0]:
        return "exc:" + p[1]
    return type(p[1]).__name__


def _w_gram(ctx, item):
    import ast
    from mc import core, c20_gen as G
    from piquasso.core._expressions import Expression
    from piquasso.api.exceptions import InvalidExpression

    _, name, chunk, nchunks = item
    alpha, red, d, ks, olen, vlen = _families(ctx.tier)[name]
    E = _enumerator(alpha, red)
    specs = outcome_specs(olen, vlen)
    specs0 = [specs[0]]
    idx = -1
    nstr = nev = nskip = 0
    reported = set()
    for k in ks:
        for tree in E.iter_trees(d, k):
            idx += 1
            if idx % nchunks != chunk:
                continue
            src = G.unparse(tree)
            nstr += 1
            # harness self-check: the string denotes the tree that was enumerated
            if G.from_ast(ast.parse(src, mode="eval")) != tree:
                raise core.HarnessError("C20 unparser self-check failed for %r / %r" % (tree, src))
            code = compile(src, "<e>", "eval")
            try:
                expr = Expression(src)
            except Exception:
                lab = G.node_label(tree)
                if ("rej", lab) not in reported:
                    reported.add(("rej", lab))
                    report_eval(ctx, src, "int", (), "Expression", tree=tree, origin=name)
                continue
            usex = "x" in src
            guard = "*" in src
            cache = {}
            for variant, vals, x in specs if usex else specs0:
                if guard:
                    try:
                        G.guard_eval(tree, x)
                    except G.Skip:
                        nskip += 1
                        continue
                nev += 1
                p = py_eval(code, x)
                q = pq_eval(expr, x)
                strict = variant == "int" or variant == "float"
                if not (agree(p, q, True) if strict else agree_np(src, code, x, q, cache, p)):
                    lab = (G.node_label(tree), p[0], q[0])
                    if lab not in reported:
                        reported.add(lab)
                        if not report_eval(ctx, src, variant, vals, "Expression", tree=tree, origin=name):
                            raise core.HarnessError("HARNESS-NONDETERMINISM C20: fast path disagreed, canonical path agreed: %r %s %s" % (src, variant, vals))
                    break
                if nstr % 7 == 0:
                    ctx.note_distinct((name, G.node_label(tree), _result_class(p)))
            else:
                if nstr % 5000 == 1:
                    ctx.sample({"family": name, "src": src, "outcome_tuples": len(specs) if usex else 1})
    ctx.count("grammar_strings", nstr)
    ctx.count("strings_" + name, nstr)
    ctx.count("evaluations", nev)
    ctx.count("resource_guard_skipped", nskip)
    ctx.count("max_depth", d)


_TOKEN_RE = re.compile(r"\d+\.\d+|\d+|\*\*|[<>=!]=|\w+|\S")


def _mutants(src):
    toks = _TOKEN_RE.findall(src)
    for i in range(len(toks) + 1):
        for h in HOSTILE_TOKENS:
            yield " ".join(toks[:i] + [h] + toks[i:])
            if i < len(toks):
                yield " ".join(toks[:i] + [h] + toks[i + 1:])


def _w_mut(ctx, item):
    from mc import c20_gen as G

    _, chunk, nchunks = item
    bases = MUT_BASE_QUICK if ctx.tier == "quick" else MUT_BASE_THOROUGH
    specs = outcome_specs(2, 1)
    idx = -1
    seen = set()
    nb = nm = 0
    for alpha, red, d, ks in bases:
        E = _enumerator(alpha, red)
        for k in ks:
            for tree in E.iter_trees(d, k):
                idx += 1
                if idx % nchunks != chunk:
                    continue
                src = G.unparse(tree)
                nb += 1
                for m in _mutants(src):
                    if m in seen:
                        continue
                    seen.add(m)
                    nm += 1
                    cls = check_string(ctx, m, "Expression", origin="mutant", specs=specs)
                    if nm % 50000 == 1:
                        ctx.sample({"base": src, "mutant": m, "class": cls})
                if len(seen) > 400000:
                    seen.clear()
    ctx.count("mutation_base_strings", nb)
    ctx.count("mutants", nm)
    for k, v in list(ctx.counters.items()):
        if k.startswith("class_") or k.startswith("rejected_"):
            ctx.note_distinct(("mut", k))


def _w_paren(ctx, item):
    """fully parenthesised rendering of the same trees: same meaning"""
    import ast
    from mc import core, c20_gen as G

    _, chunk, nchunks = item
    bases = PAREN_QUICK if ctx.tier == "quick" else PAREN_THOROUGH
    specs = outcome_specs(2, 1)
    idx = -1
    n = 0
    for alpha, red, d, ks in bases:
        E = _enumerator(alpha, red)
        for k in ks:
            for tree in E.iter_trees(d, k):
                idx += 1
                if idx % nchunks != chunk:
                    continue
                src = G.unparse(tree, full=True)
                if G.from_ast(ast.parse(src, mode="eval")) != tree:
                    raise core.HarnessError("C20 full-parenthesis unparser self-check failed for %r" % (src,))
                n += 1
                ctx.count("evaluations", len(specs))
                bad = eval_many(src, specs, "Expression", tree=tree)
                if bad:
                    report_eval(ctx, src, bad[0], bad[1], "Expression", tree=tree, origin="paren")
                if n % 300 == 1:
                    ctx.note_distinct(("paren", G.node_label(tree)))
    ctx.count("paren_strings", n)
    ctx.count("grammar_strings", n)


def _w_corpus(ctx, item):
    specs = outcome_specs(3, 2)
    def all_vias(s, origin):
        # a defect of Expression itself shows through every entry point: report it once, at its source
        n0 = len(ctx.violations)
        check_string(ctx, s, "Expression", origin=origin, specs=specs)
        if len(ctx.violations) > n0:
            ctx.count("not_repeated_through_instruction", 2)
            return
        for via in ("Instruction.when", "string_param"):
            check_string(ctx, s, via, origin=origin, specs=specs)

    for s in HOSTILE_CORPUS:
        all_vias(s, "corpus")
    for h in HOSTILE_TOKENS:
        all_vias(h, "token")
    for s in FORMAT_CORPUS:
        all_vias(s, "format")
    ctx.count("corpus_strings", len(HOSTILE_CORPUS) + len(HOSTILE_TOKENS) + len(FORMAT_CORPUS))
    # long but valid strings: python is the oracle while both sides stay inside their recursion limits
    from piquasso.core._expressions import Expression

    for s in _long_valid_corpus():
        ctx.count("long_valid_strings")
        try:
            code = compile(s, "<e>", "eval")
        except (RecursionError, MemoryError, SyntaxError):
            ctx.count("long_valid_python_refuses")
            continue
        try:
            e = Expression(s)
        except (RecursionError, MemoryError):
            ctx.count("resource_divergence")
            continue
        except Exception as exc:
            ctx.violation(
                {"check": "C20", "sub": "grammar_rejected", "node": "long", "via": "Expression"},
                {"kind": "eval", "src": s, "variant": "int", "values": [2, 1], "via": "Expression", "origin": "long"},
                "long valid string rejected: %s" % type(exc).__name__,
            )
            continue
        for x in ((2, 1), (0, 0)):
            p = py_eval(code, x)
            q = pq_eval(e, x)
            ctx.count("evaluations")
            if not agree(p, q, True):
                if "RecursionError" in (p[1], q[1]) or "MemoryError" in (p[1], q[1]):
                    ctx.count("resource_divergence")
                else:
                    report_eval(ctx, s, "int", x, "Expression", origin="long")
    ctx.sample({"corpus": "hostile", "strings": len(HOSTILE_CORPUS), "example": HOSTILE_CORPUS[0]})


def _w_deep(ctx, item):
    _, chunk, nchunks = item
    specs = outcome_specs(1, 0)
    big = ctx.tier != "quick"
    for i, s in enumerate(_deep_corpus(big)):
        if i % nchunks != chunk:
            continue
        check_string(ctx, s, "Expression", origin="deep:%d:%d" % (i, int(big)), specs=specs)
        ctx.count("corpus_strings")
        ctx.count("max_hostile_string_length", len(s))


def _w_instr(ctx, item):
    """every expression of the instr families as a condition and as a string parameter"""
    from mc import c20_gen as G

    _, chunk, nchunks = item
    bases = INSTR_QUICK if ctx.tier == "quick" else INSTR_THOROUGH
    specs = outcome_specs(2, 1)
    idx = -1
    n = 0
    reported = set()
    for alpha, red, d, ks in bases:
        E = _enumerator(alpha, red)
        for k in ks:
            for tree in E.iter_trees(d, k):
                idx += 1
                if idx % nchunks != chunk:
                    continue
                src = G.unparse(tree)
                n += 1
                for via in ("Instruction.when", "string_param"):
                    fn = None
                    try:
                        fn = _construct(src, via)
                    except Exception:
                        pass
                    code = compile(src, "<e>", "eval")
                    cache = {}
                    for variant, vals, x in specs:
                        try:
                            G.guard_eval(tree, x)
                        except G.Skip:
                            continue
                        ctx.count("evaluations")
                        ok = fn is not None
                        if ok:
                            q = pq_eval(fn, x)
                            if variant in ("int", "float"):
                                ok = agree(py_eval(code, x), q, True)
                            else:
                                ok = agree_np(src, code, x, q, cache)
                        if not ok:
                            if eval_case(src, variant, vals, "Expression")[0] != "ok":
                                # Expression itself disagrees: reported by the grammar families (the instr
                                # families are sub-families of d1_full), not once more per entry point
                                ctx.count("instr_mismatch_inherited_from_expression")
                                break
                            lab = (via, G.node_label(tree))
                            if lab not in reported:
                                reported.add(lab)
                                report_eval(ctx, src, variant, vals, via, tree=tree, origin="instr")
                            break
                if n % 400 == 1:
                    ctx.note_distinct(("instr", G.node_label(tree)))
    ctx.count("instruction_strings", n)


# --- end-to-end: a measured outcome drives a condition and a parameter ---------------------------------


def _e2e_run(phi, cond):
    import numpy as np
    import piquasso as pq

    with pq.Program() as p:
        pq.Q(0, 1, 2) | pq.NumberState([2, 1, 0])
        pq.Q(0) | pq.ParticleNumberMeasurement()
        pq.Q(1, 2) | pq.Beamsplitter(theta=0.37, phi=0.81)
        ins = pq.Phaseshifter(phi=phi)
        if cond is not None:
            ins = ins.when(cond)
        pq.Q(1) | ins
        pq.Q(1, 2) | pq.Beamsplitter(theta=0.23, phi=0.11)
    sim = pq.PureFockSimulator(d=3, config=pq.Config(cutoff=4, seed_sequence=1))
    try:
        r = sim.execute(p, shots=1)
    except Exception as e:
        cause = e.__cause__
        return ("exc", type(e).__name__, type(cause).__name__ if cause is not None else None)
    return ("state", np.array(r.state.state_vector, dtype=complex), tuple(int(v) for v in r.samples[0]))


def _e2e_same(a, b):
    import numpy as np

    if a[0] != b[0]:
        return False
    if a[0] == "exc":
        return a[1:] == b[1:]
    return a[2] == b[2] and a[1].shape == b[1].shape and bool(np.all(np.abs(a[1] - b[1]) <= 1e-12))


def _e2e_one(ctx, src, role):
    import numpy as np

    code = compile(src, "<e>", "eval")
    fn = lambda x: eval(code, {"__builtins__": {}}, {"x": x})
    if role == "cond":
        got = _e2e_run(0.4, src)
        exp = _e2e_run(0.4, fn)
    else:
        got = _e2e_run(src, None)
        exp = _e2e_run(fn, None)
    ctx.count("evaluations")
    ctx.count("e2e_runs", 2)
    if not _e2e_same(got, exp):
        got2 = _e2e_run(0.4, src) if role == "cond" else _e2e_run(src, None)
        if not _e2e_same(got, got2):
            from mc import core

            raise core.HarnessError("HARNESS-NONDETERMINISM C20 e2e %r" % src)
        ctx.violation(
            {"check": "C20", "sub": "end_to_end_mismatch", "role": role, "via": "PureFockSimulator"},
            {"kind": "e2e", "src": src, "role": role},
            "string %r as %s: run differs from the run with the equivalent python callable (%s vs %s)"
            % (src, role, got[0] if got[0] == "exc" else got[2], exp[0] if exp[0] == "exc" else exp[2]),
        )
        return True
    return False


def _w_e2e(ctx, item):
    from mc import c20_gen as G

    A = [G.N(2), G.N(0.5), G.xi(0), G.xi(-1)]
    E = G.Enumerator(A)
    n = 0
    for k in (1, 2):
        for tree in E.iter_trees(1, k):
            if tree[0] in ("tuple", "list", "slice"):
                continue
            src = G.unparse(tree)
            n += 1
            _e2e_one(ctx, src, "cond")
            _e2e_one(ctx, src, "param")
            ctx.note_distinct(("e2e", G.node_label(tree)))
    ctx.count("e2e_strings", n)
    ctx.sample({"e2e": "NumberState[2,1,0]; measure mode 0 -> x=(2,); Phaseshifter(phi=<str>).when(<str>)", "strings": n})
