"""C15 -- matrix decompositions reconstruct their input.

Bounded-exhaustive input enumeration against reconstruction oracles.  For each of the five
decompositions (Clements, Takagi, Williamson, Euler/Bloch-Messiah, graph embedding) the
*structured degenerate* families of DESIGN.md section 3/C15 are enumerated completely
(every permutation matrix times every phase diagonal, every block-diagonal composition,
every product of <= 2 Givens rotations over an angle lattice, every symmetric matrix over
{0, 1, i}, every multiplicity pattern of singular / symplectic values in every frame of a
catalogue, every product of <= 2 gate symplectics, every simple labelled graph ...), each
matrix is pushed through the real NumPy-connector implementation and the result is checked
against the defining identity, computed with plain numpy in mc/refmodel/decompref.py.

A "history" family (mc/c15_history.py) does what the one-call-one-use families cannot: for
every entry point (clements, inverse_clements, instructions_from_decomposition, the four
weight-vector functions, takagi, williamson, euler), every dimension d <= 4 and every ordered
pair (and the ordered triples of the first three) of DIFFERENT representative inputs of that
dimension it performs call(A); call(B); [call(C)] and only then uses the results: every
returned object must still be what its call returned (bitwise snapshot) and must still
reconstruct its own input.

VERIF_SEED only changes the "generic" catalogue entries (Haar unitaries, generic angles);
every family is enumerated for every seed.
"""

import hashlib
import itertools
import math

LEVEL = "exploration"

TOL = 1e-9  # |a - b| <= TOL + TOL * scale everywhere (guide default)
PI = math.pi

KINDS = ("clements", "takagi", "williamson", "euler", "graph")


# =======================================================================================
# encoding of cases (replays carry the full matrix: no dependence on the catalogue)


def _enc(M):
    import numpy as np

    M = np.asarray(M)
    out = {"dtype": str(M.dtype), "re": M.real.tolist()}
    if np.iscomplexobj(M):
        out["im"] = M.imag.tolist()
    return out


def _dec(e):
    import numpy as np

    M = np.array(e["re"], dtype=float)
    if "im" in e:
        M = M + 1j * np.array(e["im"], dtype=float)
    return M.astype(np.dtype(e["dtype"]))


def _key(kind, M, extra):
    import numpy as np

    M = np.ascontiguousarray(M)
    h = hashlib.sha1()
    h.update(kind.encode())
    h.update(str(M.dtype).encode())
    h.update(str(M.shape).encode())
    h.update(M.tobytes())
    h.update(repr(sorted((extra or {}).items())).encode())
    return h.hexdigest()


# =======================================================================================
# catalogues


def _generic_angles(seed):
    import numpy as np

    rng = np.random.default_rng([15, 1, int(seed)])
    return [float(x) for x in rng.uniform(0.2, 1.35, size=6)]


def _rot_chain(n, angles=(0.37, 0.81, 1.13, 0.59, 1.41)):
    """closed-form 'irrational-looking' real rotation: product of real Givens rotations on
    neighbouring modes (does not depend on the seed)"""
    import numpy as np
    from mc.refmodel import decompref as R

    M = np.eye(n, dtype=complex)
    for k in range(n - 1):
        M = R.givens(n, k, k + 1, angles[k % len(angles)], 0.0) @ M
    if n >= 3:
        M = R.givens(n, 0, n - 1, angles[(n - 1) % len(angles)], 0.0) @ M
    return M.real.copy()


def _frames(n, seed, tag):
    """unitary 'frames' used to rotate diagonal spectra: closed-form ones plus two seeded"""
    import numpy as np
    from mc.refmodel import decompref as R

    rng = np.random.default_rng([15, 2, int(seed), n, tag])
    out = [("I", np.eye(n))]
    if n >= 2:
        out.append(("P", R.perm_matrix(list(range(n))[::-1], dtype=float)))
        out.append(("R", _rot_chain(n)))
        out.append(("F", R.dft(n)))
        out.append(("RD", _rot_chain(n) @ np.diag(np.exp(1j * 0.7 * np.arange(1, n + 1)))))
        out.append(("O*", R.real_orthogonal(rng, n)))
    out.append(("D", np.diag(np.exp(1j * 0.7 * np.arange(1, n + 1)))))
    out.append(("H*", R.haar_unitary(rng, n)))
    return out


# ---------------------------------------------------------------------------------------
# Clements


def _clements_families(tier):
    fams = [("d1", 0), ("identity", 0), ("generic", 0), ("givens_tiny", 0)]
    for d in (2, 3, 4, 5):
        fams.append(("perm_diag", d))
        fams.append(("perm_sign_real", d))
        fams.append(("block_diag", d))
        fams.append(("givens1", d))
        if d <= 4 or tier == "thorough":
            fams.append(("givens2", d))
    if tier == "thorough":
        fams.append(("perm_diag", 6))
    return fams


def _block_catalogue(k, seed):
    import numpy as np
    from mc.refmodel import decompref as R

    rng = np.random.default_rng([15, 3, int(seed), k])
    g = _generic_angles(seed)
    if k == 1:
        return [("1", np.array([[1.0 + 0j]])), ("i", np.array([[1j]])), ("-1", np.array([[-1.0 + 0j]])), ("e^ig", np.array([[np.exp(1j * g[0])]]))]
    if k == 2:
        return [
            ("X", R.perm_matrix([1, 0])),
            ("Had", np.array([[1, 1], [1, -1]], dtype=complex) / math.sqrt(2)),
            ("rot", R.givens(2, 0, 1, 0.37, 0.0)),
            ("U2*", R.haar_unitary(rng, 2)),
        ]
    if k == 3:
        return [("cyc3", R.perm_matrix([1, 2, 0])), ("F3", R.dft(3)), ("U3*", R.haar_unitary(rng, 3))]
    if k == 4:
        return [("rev4", R.perm_matrix([3, 2, 1, 0])), ("F4", R.dft(4)), ("U4*", R.haar_unitary(rng, 4))]
    return [("F5", R.dft(5)), ("U5*", R.haar_unitary(rng, 5))]


def _clements_cases(fam, d, tier, seed):
    """yields (label, U)"""
    import numpy as np
    from mc.refmodel import decompref as R

    g = _generic_angles(seed)
    if fam == "d1":
        for z in (1, 1j, -1, -1j, np.exp(1j * g[0]), np.exp(-1j * g[1])):
            yield {"z": complex(z)}, np.array([[z]], dtype=complex)
        yield {"z": 1.0, "dtype": "float64"}, np.array([[1.0]])
        yield {"z": -1.0, "dtype": "float64"}, np.array([[-1.0]])
    elif fam == "identity":
        for n in range(1, 7):
            yield {"d": n}, np.eye(n, dtype=complex)
            yield {"d": n, "dtype": "float64"}, np.eye(n)
    elif fam == "generic":
        for n in range(2, 7):
            rng = np.random.default_rng([15, 4, int(seed), n])
            for k in range(6):
                yield {"d": n, "haar": k}, R.haar_unitary(rng, n)
            yield {"d": n, "real_orthogonal": 0}, R.real_orthogonal(rng, n)
    elif fam == "perm_diag":
        if (d == 5 and tier == "quick") or d == 6:
            # reduced: the trivial diagonal and every diagonal with one non-trivial entry
            diags = [(1,) * d]
            for pos in range(d):
                for z in (1j, -1):
                    diags.append(tuple(z if k == pos else 1 for k in range(d)))
        else:
            diags = list(itertools.product((1, 1j, -1), repeat=d))
        for p in itertools.permutations(range(d)):
            P = R.perm_matrix(p)
            for dg in diags:
                yield {"perm": list(p), "diag": [str(z) for z in dg]}, np.diag(np.array(dg, dtype=complex)) @ P
    elif fam == "perm_sign_real":
        if d == 5 and tier == "quick":
            signs = [(1,) * 5, (-1,) * 5, (1, -1, 1, -1, 1)]
        else:
            signs = list(itertools.product((1, -1), repeat=d))
        for p in itertools.permutations(range(d)):
            P = R.perm_matrix(p, dtype=float)
            for sg in signs:
                yield {"perm": list(p), "signs": list(sg), "dtype": "float64"}, np.diag(np.array(sg, dtype=float)) @ P
    elif fam == "block_diag":
        cats = {k: _block_catalogue(k, seed) for k in range(1, 6)}
        for comp in R.compositions(d):
            if comp == (d,) and d == 1:
                continue
            for choice in itertools.product(*[cats[k] for k in comp]):
                yield {"composition": list(comp), "blocks": [c[0] for c in choice]}, R.block_diag(*[c[1] for c in choice]).astype(complex)
    elif fam == "givens1":
        thetas = [0.0, PI / 4, PI / 2, PI, -PI / 4, 3 * PI / 4, 2 * PI, g[0]]
        phis = [0.0, PI / 2, PI, -PI / 2, g[1]]
        for i, j in itertools.permutations(range(d), 2):
            for t in thetas:
                for p in phis:
                    yield {"d": d, "modes": [i, j], "theta": t, "phi": p}, R.givens(d, i, j, t, p)
    elif fam == "givens2":
        thetas = [PI / 4, PI / 2, g[0]]
        phis = [0.0, PI / 2, g[1]]
        single = []
        for i, j in itertools.combinations(range(d), 2):
            for t in thetas:
                for p in phis:
                    single.append(((i, j, t, p), R.givens(d, i, j, t, p)))
        for (a, A), (b, B) in itertools.product(single, repeat=2):
            yield {"d": d, "first": list(a), "second": list(b)}, B @ A
    elif fam == "givens_tiny":
        thetas = [1e-7, 1e-8, 3e-9, 1e-10, 1e-13, PI / 2 - 3e-9, PI / 2 + 1e-7]
        for n in (2, 3, 4):
            for i, j in itertools.permutations(range(n), 2):
                for t in thetas:
                    for p in (0.0, g[1]):
                        yield {"d": n, "modes": [i, j], "theta": t, "phi": p}, R.givens(n, i, j, t, p)
    else:
        raise ValueError(fam)


# ---------------------------------------------------------------------------------------
# Takagi


def _takagi_families(tier):
    fams = [("zero", 0), ("lambda_identity", 0), ("generic", 0), ("near_degenerate", 0)]
    for n in (1, 2, 3) + ((4,) if tier == "thorough" else ()):
        fams.append(("sym_01i", n))
    for n in range(1, (6 if tier == "thorough" else 4) + 1):
        fams.append(("direct_sum", n))
    for n in range(1, (6 if tier == "thorough" else 4) + 1):
        fams.append(("UDUt", n))
    return fams


def _sym(A):
    return (A + A.T) / 2


def _takagi_cases(fam, n, tier, seed):
    """yields (label, A); real-valued matrices are yielded in both dtypes"""
    import numpy as np
    from mc.refmodel import decompref as R

    g = _generic_angles(seed)

    def both(label, A):
        A = np.asarray(A)
        if np.iscomplexobj(A) and R.maxabs(A.imag) == 0.0:
            yield dict(label, dtype="complex128"), A.astype(complex)
            yield dict(label, dtype="float64"), A.real.astype(float).copy()
        elif np.iscomplexobj(A):
            yield dict(label, dtype="complex128"), A
        else:
            yield dict(label, dtype="float64"), A.astype(float)
            yield dict(label, dtype="complex128"), A.astype(complex)

    if fam == "zero":
        for k in range(1, 7):
            yield from both({"n": k}, np.zeros((k, k)))
    elif fam == "lambda_identity":
        for k in range(1, 7):
            for lam in (1.0, 2.5, -1.0, 1j, 0.7 * np.exp(1j * g[0]), 1e-8, 1e3):
                yield from both({"n": k, "lambda": complex(lam)}, lam * np.eye(k, dtype=complex))
    elif fam == "generic":
        for k in range(1, 7):
            rng = np.random.default_rng([15, 5, int(seed), k])
            for c in range(6):
                A = rng.normal(size=(k, k)) + 1j * rng.normal(size=(k, k))
                yield {"n": k, "complex_symmetric": c}, _sym(A)
            yield from both({"n": k, "real_symmetric": 0}, _sym(rng.normal(size=(k, k))))
    elif fam == "sym_01i":
        for vals, A in R.symmetric_over_alphabet(n, (0, 1, 1j)):
            yield from both({"n": n, "upper": [str(v) for v in vals]}, A)
    elif fam == "direct_sum":
        rng = np.random.default_rng([15, 6, int(seed)])
        G2 = _sym(rng.normal(size=(2, 2)) + 1j * rng.normal(size=(2, 2)))
        c, s = math.cos(0.37), math.sin(0.37)
        blocks = [
            ("1", np.array([[1.0 + 0j]])),
            ("i", np.array([[1j]])),
            ("-1", np.array([[-1.0 + 0j]])),
            ("0", np.array([[0.0 + 0j]])),
            ("X", np.array([[0, 1], [1, 0]], dtype=complex)),
            ("iX", 1j * np.array([[0, 1], [1, 0]], dtype=complex)),
            ("refl", np.array([[c, s], [s, -c]], dtype=complex)),
            ("G2*", G2),
        ]

        def seqs(m):
            if m == 0:
                yield ()
                return
            for b in blocks:
                if len(b[1]) <= m:
                    for rest in seqs(m - len(b[1])):
                        yield (b,) + rest

        for seq in seqs(n):
            yield from both({"n": n, "blocks": [b[0] for b in seq]}, R.block_diag(*[b[1] for b in seq]).astype(complex))
    elif fam == "UDUt":
        values = (0.0, 1.0, 2.5)
        for name, M in _frames(n, seed, 0):
            for pat in itertools.product(values, repeat=n):
                A = _sym(M @ np.diag(np.array(pat, dtype=float)) @ M.T)
                yield from both({"n": n, "frame": name, "singular_values": list(pat)}, A)
    elif fam == "near_degenerate":
        for k in (2, 3):
            for name, M in _frames(k, seed, 1):
                for delta in (1e-3, 1e-6, 1e-9, 1e-13):
                    for pat in itertools.product((1.0, 1.0 + delta), repeat=k):
                        if len(set(pat)) == 1:
                            continue
                        A = _sym(M @ np.diag(np.array(pat)) @ M.T)
                        yield from both({"n": k, "frame": name, "singular_values": list(pat)}, A)
    else:
        raise ValueError(fam)


# ---------------------------------------------------------------------------------------
# Williamson


def _williamson_families(tier):
    return [("SDSt", d) for d in range(1, (6 if tier == "thorough" else 3) + 1)] + [("generic", 0)]


def _symplectic_catalogue(d, seed):
    import numpy as np
    from mc.refmodel import decompref as R

    rng = np.random.default_rng([15, 7, int(seed), d])
    out = [("identity", np.eye(2 * d))]
    for name, U in _frames(d, seed, 2):
        if name != "I":
            out.append(("rotation:" + name, R.passive_xxpp(U)))
    out.append(("squeezer_equal", R.squeezer_xxpp([0.3] * d)))
    out.append(("squeezer_distinct", R.squeezer_xxpp(np.linspace(-0.5, 0.7, d))))
    if d >= 2:
        # direct sums: a one-mode generic symplectic on mode 0 (+) identity; a rotation on
        # the first two modes (+) squeezers on the rest
        one = R.passive_xxpp(np.array([[np.exp(0.4j)]])) @ R.squeezer_xxpp([0.6]) @ R.passive_xxpp(np.array([[np.exp(-1.1j)]]))
        out.append(("sum:generic1+identity", R.embed_modes_xxpp(one, [0], d)))
        S = R.embed_modes_xxpp(R.passive_xxpp(_rot_chain(2)), [0, 1], d)
        if d >= 3:
            rest = list(range(2, d))
            S = R.embed_modes_xxpp(R.squeezer_xxpp([0.5] * len(rest)), rest, d) @ S
        out.append(("sum:rotation2+squeezers", S))
        out.append(("sum:generic1_on_last", R.embed_modes_xxpp(one, [d - 1], d)))
    out.append(
        ("bloch_messiah", R.passive_xxpp(_rot_chain(d) @ np.diag(np.exp(0.7j * np.arange(d)))) @ R.squeezer_xxpp(np.linspace(0.2, 0.8, d)) @ R.passive_xxpp(R.dft(d)))
    )
    out.append(("generic*", R.passive_xxpp(R.haar_unitary(rng, d)) @ R.squeezer_xxpp(rng.uniform(-0.7, 0.7, size=d)) @ R.passive_xxpp(R.haar_unitary(rng, d))))
    return out


def _williamson_cases(fam, d, tier, seed):
    import numpy as np
    from mc.refmodel import decompref as R

    if fam == "SDSt":
        values = (1.0, 2.5, 4.0)
        if d <= 4:
            pats = list(itertools.product(values, repeat=d))
        else:  # every multiplicity pattern of {1, 1, 2.5} padded, plus all two-valued patterns
            pats = sorted(set(itertools.product((1.0, 2.5), repeat=d)) | {tuple(p) + (4.0,) * (d - 3) for p in itertools.product(values, repeat=3)})
        for name, S in _symplectic_catalogue(d, seed):
            for pat in pats:
                D = np.diag(np.array(pat + pat, dtype=float))
                M = S @ D @ S.T
                yield {"d": d, "S": name, "symplectic_values": list(pat)}, (M + M.T) / 2
    elif fam == "generic":
        for k in range(1, 7):
            rng = np.random.default_rng([15, 8, int(seed), k])
            for c in range(6):
                S = R.passive_xxpp(R.haar_unitary(rng, k)) @ R.squeezer_xxpp(rng.uniform(-0.8, 0.8, size=k)) @ R.passive_xxpp(R.haar_unitary(rng, k))
                nu = rng.uniform(1.0, 4.0, size=k)
                M = S @ np.diag(np.concatenate([nu, nu])) @ S.T
                yield {"d": k, "generic": c}, (M + M.T) / 2
    else:
        raise ValueError(fam)


# ---------------------------------------------------------------------------------------
# Euler


def _euler_families(tier):
    fams = [("gate_products", d) for d in (1, 2, 3)]
    fams += [("frames", d) for d in range(1, (4 if tier == "thorough" else 3) + 1)]
    fams.append(("generic", 0))
    return fams


def _gate_lattice(d, tier, seed):
    from mc.refmodel import decompref as R

    g = _generic_angles(seed)
    rs = [0.3, 1.2, -0.5] + ([1e-7, 2.0] if tier == "thorough" else [])
    phis = [0.0, PI / 2, PI, g[1]] + ([-PI / 2] if tier == "thorough" else [])
    gates = []
    for m in range(d):
        gates.append((("S", [m], [0.0, 0.0])))
        for r in rs:
            for p in phis:
                gates.append(("S", [m], [r, p]))
        for p in (PI / 2, PI, g[0]):
            gates.append(("P", [m], [p]))
        for s in (0.5, -1.0):
            gates.append(("Q", [m], [s]))
    for pair in itertools.permutations(range(d), 2):
        for t in (PI / 4, PI / 2, g[0]):
            for p in (0.0, PI / 2, g[1]):
                gates.append(("B", list(pair), [t, p]))
        for r in (0.3, 1.2):
            for p in (0.0, PI / 2, g[1]):
                gates.append(("S2", list(pair), [r, p]))
        gates.append(("CX", list(pair), [0.5]))
    out = []
    for name, modes, params in gates:
        P, A = R.gate_blocks(name, params)
        out.append(((name, modes, params), R.embed_complex_form(P, A, modes, d)))
    return out


def _euler_cases(fam, d, tier, seed):
    import numpy as np
    from mc.refmodel import decompref as R

    if fam == "gate_products":
        gates = _gate_lattice(d, tier, seed)
        for lab, S in gates:
            yield {"d": d, "gates": [list(lab)]}, S
        for (l1, S1), (l2, S2) in itertools.product(gates, repeat=2):
            yield {"d": d, "gates": [list(l1), list(l2)]}, S2 @ S1
    elif fam == "frames":
        frames = _frames(d, seed, 3)
        values = (0.0, 0.4, 0.9)
        for (n1, U1), (n2, U2) in itertools.product(frames, repeat=2):
            for pat in itertools.product(values, repeat=d):
                yield {"d": d, "last": n1, "first": n2, "squeezings": list(pat)}, R.euler_recompose(U1.astype(complex), np.array(pat), U2.astype(complex))
    elif fam == "generic":
        for k in range(1, 7):
            rng = np.random.default_rng([15, 9, int(seed), k])
            for c in range(6):
                yield {"d": k, "generic": c}, R.euler_recompose(R.haar_unitary(rng, k), rng.uniform(0.0, 1.2, size=k), R.haar_unitary(rng, k))
    else:
        raise ValueError(fam)


# ---------------------------------------------------------------------------------------
# Graph embedding

MEAN_PHOTON_NUMBERS = (0.1, 1.0, 2.5)


def _graph_families(tier):
    fams = [("all_graphs", n) for n in range(2, (5 if tier == "thorough" else 4) + 1)]
    fams += [("weighted", 0), ("placement", 0)]
    return fams


def _graph_cases(fam, n, tier, seed):
    """yields (label, adjacency, extra) ; extra = {"mpn", "modes", "d"}"""
    import numpy as np
    from mc.refmodel import decompref as R

    if fam == "all_graphs":
        for bits, A in R.graphs(n):
            for mpn in MEAN_PHOTON_NUMBERS:
                for dtype in (float, complex):
                    yield {"vertices": n, "edge_bits": bits, "dtype": np.dtype(dtype).name}, A.astype(dtype), {"mpn": mpn, "modes": list(range(n)), "d": n}
    elif fam == "weighted":
        for k in range(1, 6):
            rng = np.random.default_rng([15, 10, int(seed), k])
            entries = []
            entries.append(("lambda_identity", 0.8 * np.eye(k)))
            entries.append(("lambda_identity_c", (0.8 * np.eye(k)).astype(complex)))
            entries.append(("i_identity", 1j * np.eye(k)))
            if k >= 2:
                entries.append(("half_complete", 0.5 * (np.ones((k, k)) - np.eye(k))))
                entries.append(("all_ones_selfloops", np.ones((k, k))))
                entries.append(("all_ones_selfloops_c", np.ones((k, k), dtype=complex)))
                v = np.exp(1j * 0.7 * np.arange(k)) * (1 + np.arange(k))
                v = v * math.sqrt(2.0) / np.linalg.norm(v)
                entries.append(("rank1_complex", np.outer(v, v)))
                entries.append(("rotated_repeated", _sym(_rot_chain(k) @ np.diag([1.0, 1.0] + [0.5] * (k - 2)) @ _rot_chain(k).T)))
                entries.append(("rotated_repeated_c", _sym(_rot_chain(k) @ np.diag([1.0, 1.0] + [0.5] * (k - 2)) @ _rot_chain(k).T).astype(complex)))
                F = R.dft(k)
                entries.append(("dft_repeated", _sym(F @ np.diag([1.0, 1.0] + [0.5] * (k - 2)) @ F.T)))
            for c in range(3):
                entries.append(("real_weighted*%d" % c, _sym(rng.uniform(0, 1, size=(k, k)))))
                entries.append(("complex_symmetric*%d" % c, _sym(rng.normal(size=(k, k)) + 1j * rng.normal(size=(k, k)))))
            for name, A in entries:
                for mpn in MEAN_PHOTON_NUMBERS:
                    yield {"n": k, "matrix": name, "dtype": str(A.dtype)}, A, {"mpn": mpn, "modes": list(range(k)), "d": k}
    elif fam == "placement":
        # the same graphs on a permuted subset of a larger register (3 vertices: all graphs)
        for k in (2, 3):
            for bits, A in R.graphs(k):
                for modes in itertools.permutations(range(k + 1), k):
                    yield {"vertices": k, "edge_bits": bits, "modes": list(modes)}, A, {"mpn": 1.0, "modes": list(modes), "d": k + 1}
    else:
        raise ValueError(fam)


# =======================================================================================
# evaluation of one case: returns (failures, stats); a failure is a dict with the
# signature attributes and a human-readable detail


def _cls(mc, first):
    order = {
        "nonzero": ("repeated_nonzero", "repeated_zero", "near", "distinct"),
        "zero": ("repeated_zero", "repeated_nonzero", "near", "distinct"),
    }[first]
    flags = {
        "repeated_nonzero": mc["repeated_nonzero"],
        "repeated_zero": mc["zeros"] >= 2,
        "near": mc["near_repeated"],
        "distinct": True,
    }
    names = {
        "repeated_nonzero": "repeated_nonzero_value",
        "repeated_zero": "repeated_zero_value",
        "near": "near_repeated_value",
        "distinct": "distinct_values",
    }
    for k in order:
        if flags[k]:
            return names[k]


def _eval_clements(U, extra):
    import numpy as np
    import piquasso as pq
    from piquasso.decompositions import clements as C
    from mc.refmodel import decompref as R

    conn = pq.NumpyConnector()
    d = len(U)
    tol = TOL + TOL * max(1.0, R.spectral_norm(U))
    a = np.abs(np.asarray(U))
    tiny = bool(np.any((a > 1e-12) & (a <= 1e-8)))
    icls = "nonzero_entry_below_1e-8" if tiny else "regular"
    dt = "real" if not np.iscomplexobj(U) else "complex"
    fails, stats = [], {}

    def fail(oracle, detail, **kw):
        f = {"site": "clements", "oracle": oracle, "input_class": icls, "dtype": dt, "detail": detail}
        f.update(kw)
        fails.append(f)

    Uin = np.array(U, copy=True)
    try:
        dec = C.clements(Uin, conn)
        back = C.inverse_clements(dec, conn, np.complex128)
    except Exception as e:  # a unitary must be decomposable
        fail("exception", "clements/inverse_clements raised %r" % (e,), exc=type(e).__name__)
        return fails, stats
    if not R.all_finite(back):
        fail("finite", "inverse_clements returned non-finite entries")
        return fails, stats
    err = R.maxabs(back - U)
    stats["clements_inverse"] = err
    inverse_ok = err <= tol
    if not inverse_ok:
        fail("inverse_clements", "max|inverse_clements(clements(U)) - U| = %.3e > %.1e" % (err, tol))

    def derived(oracle, got, what, **kw):
        """the instruction list / simulators / weight vector must reproduce U; when the
        decomposition itself is already off (reported above) only a *further* deviation
        from the library's own inverse_clements is reported separately"""
        e = R.maxabs(got - U)
        stats["clements_" + oracle] = e
        if e <= tol:
            return
        if not inverse_ok and R.maxabs(got - back) <= tol:
            return
        fail(oracle, "%s differs from U by %.3e" % (what, e), **kw)

    # instruction list against the documented gate matrices
    ins = C.instructions_from_decomposition(dec)
    gates = [(type(i).__name__, tuple(i.modes), dict(i.params)) for i in ins]
    try:
        derived("instruction_list_vs_documented_gates", R.unitary_of_gate_list(gates, d), "product of the documented Beamsplitter/Phaseshifter matrices")
    except ValueError as e:
        fail("instruction_list_vs_documented_gates", "unexpected instruction in the list: %s" % (e,))
    # ... executed on the passive simulator
    try:
        sim = _simulator("passive", d)
        state = sim.execute(pq.Program(instructions=[pq.Vacuum()] + C.instructions_from_decomposition(dec))).state
        derived("instruction_list_on_PassiveSimulator", np.asarray(state.interferometer), "PassiveState.interferometer after the instruction list")
    except Exception as e:
        fail("exception", "PassiveSimulator on the instruction list raised %r" % (e,), exc=type(e).__name__, where="PassiveSimulator")
    # ... on the one-photon subspace of the pure Fock simulator
    if extra.get("purefock"):
        try:
            sim = _simulator("purefock", d)
            M = np.zeros((d, d), dtype=complex)
            for k in range(d):
                occ = [0] * d
                occ[k] = 1
                state = sim.execute(pq.Program(instructions=[pq.NumberState(occ)] + C.instructions_from_decomposition(dec))).state
                for m in range(d):
                    M[m, k] = state[tuple(int(x == m) for x in range(d))]
            derived("instruction_list_on_PureFockSimulator", M, "one-photon amplitudes after the instruction list")
        except Exception as e:
            fail("exception", "PureFockSimulator on the instruction list raised %r" % (e,), exc=type(e).__name__, where="PureFockSimulator")
    # weight vector round trip
    try:
        w = C.get_weights_from_interferometer(np.array(U, copy=True), conn)
        if not (np.shape(w) == (d * d,) and not np.iscomplexobj(w) and bool(np.all(np.isfinite(w)))):
            fail("weights_roundtrip", "weight vector is not a finite real vector of length d^2: shape %s dtype %s" % (np.shape(w), np.asarray(w).dtype))
        else:
            U2 = C.get_interferometer_from_weights(w, d, conn, np.complex128)
            derived("weights_roundtrip", U2, "get_interferometer_from_weights(get_weights_from_interferometer(U))")
    except Exception as e:
        fail("exception", "weight-vector round trip raised %r" % (e,), exc=type(e).__name__, where="weights")
    return fails, stats


def _eval_takagi(A, extra, via="direct"):
    import numpy as np
    import piquasso as pq
    from piquasso._math.decompositions import takagi
    from mc.refmodel import decompref as R

    conn = pq.NumpyConnector()
    n = len(A)
    scale = max(1.0, R.spectral_norm(A))
    tol = TOL + TOL * scale
    sv = np.linalg.svd(np.asarray(A, dtype=complex), compute_uv=False)
    mc = R.multiplicity_class(sv)
    dt = "real" if not np.iscomplexobj(A) else "complex"
    fails, stats = [], {}

    def fail(oracle, detail, first, **kw):
        f = {"site": "takagi", "via": via, "oracle": oracle, "input_class": _cls(mc, first), "dtype": dt, "detail": detail}
        f.update(kw)
        fails.append(f)

    try:
        s, U = takagi(np.array(A, copy=True), conn)
    except Exception as e:
        fail("exception", "takagi raised %r" % (e,), "nonzero", exc=type(e).__name__)
        return fails, stats
    s = np.asarray(s)
    U = np.asarray(U)
    if s.shape != (n,) or U.shape != (n, n):
        fail("shape", "shapes %s %s" % (s.shape, U.shape), "nonzero")
        return fails, stats
    if not R.all_finite(s, U):
        fail("finite", "takagi returned non-finite entries", "nonzero")
        return fails, stats
    if np.iscomplexobj(s) or not np.all(s >= 0):
        fail("values_nonnegative", "singular values %s" % (s,), "nonzero")
    eu = R.unitarity_defect(U)
    stats["takagi_unitarity"] = eu
    if not eu <= 2 * TOL:
        fail("unitarity", "max|U U^+ - 1| = %.3e" % eu, "zero")
    er = R.maxabs(U @ np.diag(s) @ U.T - A)
    stats["takagi_reconstruction_rel"] = er / scale
    if not er <= tol:
        fail("reconstruction", "max|U diag(s) U^T - A| = %.3e (||A|| = %.3g, tol %.1e)" % (er, scale, tol), "nonzero")
    return fails, stats


def _eval_williamson(M, extra):
    import numpy as np
    import piquasso as pq
    from piquasso._math.decompositions import williamson
    from mc.refmodel import decompref as R

    conn = pq.NumpyConnector()
    d = len(M) // 2
    fails, stats = [], {}
    # symplectic spectrum of the input (harness side, for the signature only)
    nu = np.sort(np.abs(np.linalg.eigvals(1j * R.omega_xxpp(d) @ M)))[::2]
    mc = R.multiplicity_class(nu)
    icls = "repeated_symplectic_value" if mc["repeated_nonzero"] else "distinct_symplectic_values"

    def fail(oracle, detail, **kw):
        f = {"site": "williamson", "oracle": oracle, "input_class": icls, "detail": detail}
        f.update(kw)
        fails.append(f)

    try:
        S, D = williamson(np.array(M, copy=True), conn)
    except Exception as e:
        fail("exception", "williamson raised %r" % (e,), exc=type(e).__name__)
        return fails, stats
    S, D = np.asarray(S), np.asarray(D)
    if S.shape != M.shape or D.shape != M.shape:
        fail("shape", "shapes %s %s" % (S.shape, D.shape))
        return fails, stats
    if not R.all_finite(S, D):
        fail("finite", "williamson returned non-finite entries")
        return fails, stats
    im = max(R.maxabs(np.imag(S)), R.maxabs(np.imag(D)))
    if not im <= TOL * max(1.0, R.maxabs(S)):
        fail("real", "max|Im S|, max|Im D| = %.3e" % im)
    S, D = S.real, D.real
    ns = max(1.0, R.spectral_norm(S) ** 2)
    es = R.maxabs(S @ R.omega_xxpp(d) @ S.T - R.omega_xxpp(d))
    stats["williamson_symplectic_rel"] = es / ns
    if not es <= TOL + TOL * ns:
        fail("symplectic_xxpp", "max|S Omega S^T - Omega| = %.3e (||S||^2 = %.3g)" % (es, ns))
    dd = np.diag(D)
    dscale = max(1.0, float(np.max(np.abs(dd))))
    off = R.maxabs(D - np.diag(dd))
    pair = R.maxabs(dd[:d] - dd[d:])
    stats["williamson_pairing_rel"] = max(off, pair) / dscale
    if not (off <= TOL * dscale and pair <= TOL + TOL * dscale and bool(np.all(dd > 0))):
        fail("diagonal_positive_paired", "off-diagonal %.3e, pair mismatch %.3e, min diag %.3e" % (off, pair, float(np.min(dd))))
    scale = max(1.0, R.spectral_norm(M))
    er = R.maxabs(S @ D @ S.T - M)
    stats["williamson_reconstruction_rel"] = er / scale
    if not er <= TOL + TOL * scale:
        fail("reconstruction", "max|S D S^T - M| = %.3e (||M|| = %.3g)" % (er, scale))
    return fails, stats


def _eval_euler(S, extra):
    import numpy as np
    import scipy.linalg
    import piquasso as pq
    from piquasso._math.decompositions import euler
    from mc.refmodel import decompref as R

    conn = pq.NumpyConnector()
    d = len(S) // 2
    fails, stats = [], {}
    scale = max(1.0, R.spectral_norm(S))
    # squeezing spectrum of the input: singular values of S are exp(+-r)
    r_in = np.abs(np.log(np.linalg.svd(S, compute_uv=False)))[:d]
    mc = R.multiplicity_class(np.sort(r_in)[::-1], rel=1e-9)

    def fail(oracle, detail, first, **kw):
        f = {"site": "euler", "via": "direct", "oracle": oracle, "input_class": _cls(mc, first), "dtype": "complex", "detail": detail}
        f.update(kw)
        fails.append(f)

    try:
        U_last, sq, U_first = euler(np.array(S, copy=True), conn)
    except Exception as e:
        fail("exception", "euler raised %r" % (e,), "nonzero", exc=type(e).__name__)
        return fails, stats
    U_last, sq, U_first = np.asarray(U_last), np.asarray(sq), np.asarray(U_first)
    if U_last.shape != (d, d) or U_first.shape != (d, d) or sq.shape != (d,):
        fail("shape", "shapes %s %s %s" % (U_last.shape, sq.shape, U_first.shape), "nonzero")
        return fails, stats
    if not R.all_finite(U_last, sq, U_first):
        fail("finite", "euler returned non-finite entries", "nonzero")
        return fails, stats
    eu = max(R.unitarity_defect(U_last), R.unitarity_defect(U_first))
    stats["euler_unitarity"] = eu
    if not eu <= 2 * TOL:
        fail("unitarity", "max unitarity defect of the passive factors = %.3e" % eu, "zero")
    if np.iscomplexobj(sq) or not np.all(sq >= 0):
        fail("values_nonnegative", "squeezings %s" % (sq,), "nonzero")
    er = R.maxabs(R.euler_recompose(U_last, sq.real, U_first) - S)
    stats["euler_recomposition_rel"] = er / scale
    if not er <= TOL + TOL * scale:
        fail("reconstruction", "max|U_last Sq(r) U_first - S| = %.3e (||S|| = %.3g)" % (er, scale), "nonzero")
    if fails:
        # attribute: does the inner Takagi step already violate its own contract on the
        # matrix euler() hands to it?  (same scipy calls as the library, signature only)
        try:
            _, Rm = scipy.linalg.polar(S, side="left")
            Z = -scipy.linalg.logm(Rm)[:d, d:]
            tf, _ = _eval_takagi(Z, {}, via="euler")
        except Exception:
            tf = []
        if tf:
            out = []
            for f in fails:
                match = [t for t in tf if t["oracle"] == f["oracle"]] or tf
                g = dict(match[0])
                g["detail"] = f["detail"] + " ; inner takagi(Z): " + match[0]["detail"]
                out.append(g)
            fails = out
    return fails, stats


def _eval_graph(A, extra):
    import numpy as np
    import piquasso as pq
    from mc.refmodel import decompref as R

    modes = list(extra["modes"])
    d = int(extra["d"])
    mpn = float(extra["mpn"])
    n = len(A)
    fails, stats = [], {}
    sv = np.linalg.svd(np.asarray(A, dtype=complex), compute_uv=False)
    mc = R.multiplicity_class(sv)
    dt = "real" if not np.iscomplexobj(A) else "complex"

    def fail(oracle, detail, first="nonzero", **kw):
        f = {"site": "Graph", "via": "direct", "oracle": oracle, "input_class": _cls(mc, first), "dtype": dt, "detail": detail}
        f.update(kw)
        fails.append(f)

    config = pq.Config()
    hbar = float(config.hbar)
    try:
        sim = pq.GaussianSimulator(d=d, config=config, connector=pq.NumpyConnector())
        program = pq.Program(instructions=[pq.Vacuum(), pq.Graph(np.array(A, copy=True), mean_photon_number=mpn).on_modes(*modes)])
        state = sim.execute(program).state
        cov = np.asarray(state.xxpp_covariance_matrix)
        mu = np.asarray(state.xxpp_mean_vector)
    except Exception as e:
        fail("exception", "Graph on GaussianSimulator raised %r" % (e,), exc=type(e).__name__)
        return fails, stats
    if not R.all_finite(cov, mu):
        fail("finite", "the Gaussian state after Graph has non-finite moments")
        return fails, stats
    nbar = R.mean_photon_numbers(cov, mu, hbar)
    got = float(np.sum(nbar[modes]) / n)
    err = abs(got - mpn)
    stats["graph_mean_photon_rel"] = err / max(1.0, mpn)
    if not err <= TOL + TOL * max(1.0, mpn):
        fail("mean_photon_number", "sum <n_i> / N = %.12g, requested %.12g" % (got, mpn))
    # embedding: B block of the state's A-matrix is proportional to the adjacency matrix
    try:
        Ag = R.gbs_A_matrix(cov, hbar)
        B = Ag[np.ix_(modes, modes)]
        cands = [R.proportionality_defect(B, A), R.proportionality_defect(B, np.conj(A))]
        good = [(dfc, c) for dfc, c in cands if dfc <= 2 * TOL and abs(np.imag(c)) <= 2 * TOL and np.real(c) > 0]
        if good:
            stats["graph_embedding"] = min(g[0] for g in good)
        else:
            stats["graph_embedding"] = min(c[0] for c in cands)
            fail(
                "embedding_B_proportional_to_adjacency",
                "B is not a positive multiple of the adjacency matrix or of its conjugate: max|B - c A| = %.3e (c = %s), max|B - c conj(A)| = %.3e (c = %s)"
                % (cands[0][0], cands[0][1], cands[1][0], cands[1][1]),
            )
    except np.linalg.LinAlgError as e:
        fail("embedding_B_proportional_to_adjacency", "Q matrix of the state is singular: %r" % (e,))
    if fails:
        tf, _ = _eval_takagi(A, {}, via="Graph")
        emb = [f for f in fails if f["oracle"].startswith("embedding")]
        if tf and emb:
            t = [x for x in tf if x["oracle"] == "reconstruction"] or tf
            for f in emb:
                f.update({"site": "takagi", "via": "Graph", "input_class": t[0]["input_class"]})
                f["detail"] += " ; takagi(adjacency): " + t[0]["detail"]
    return fails, stats


_EVAL = {
    "clements": _eval_clements,
    "takagi": _eval_takagi,
    "williamson": _eval_williamson,
    "euler": _eval_euler,
    "graph": _eval_graph,
}

_SIMS = {}


def _simulator(kind, d):
    import piquasso as pq

    key = (kind, d)
    if key not in _SIMS:
        if kind == "passive":
            _SIMS[key] = pq.PassiveSimulator(d=d, connector=pq.NumpyConnector())
        else:
            _SIMS[key] = pq.PureFockSimulator(d=d, config=pq.Config(cutoff=2), connector=pq.NumpyConnector())
    return _SIMS[key]


# =======================================================================================
# one case: evaluate, re-run on failure (determinism), report


def _sig_of(fail):
    sig = {"check": "C15"}
    for k, v in fail.items():
        if k != "detail":
            sig[k] = v
    return sig


def _digest(fails):
    return [(tuple(sorted((k, str(v)) for k, v in f.items() if k != "detail")), f["detail"]) for f in fails]


def _run_case(ctx, kind, fam, label, M, extra, stats_acc=None):
    from mc import core

    fails, stats = _EVAL[kind](M, extra)
    ctx.count("evaluations")
    ctx.count("cases:%s/%s" % (kind, fam))
    ctx.count("oracle_comparisons", max(1, len(stats)))
    ctx.note_distinct(_key(kind, M, extra))
    if stats_acc is not None and not fails:
        for k, v in stats.items():
            if v == v and v != float("inf"):
                stats_acc[k] = max(stats_acc.get(k, 0.0), float(v))
    if fails:
        again, _ = _EVAL[kind](M, extra)
        if _digest(again) != _digest(fails):
            raise core.HarnessError("HARNESS-NONDETERMINISM C15 %s/%s %s: %s vs %s" % (kind, fam, label, _digest(fails), _digest(again)))
        for f in fails:
            ctx.count("violating_cases:%s" % kind)
            case = {"kind": kind, "family": fam, "label": label, "matrix": _enc(M), "extra": extra}
            ctx.violation(_sig_of(f), case, "%s/%s %s: %s" % (kind, fam, core.jsonable(label), f["detail"]))
    return fails, stats


def replay(ctx, case, signature):
    if case.get("family") == "history":
        mats = [_dec(e) for e in case["matrices"]]
        from mc import c15_history as H

        oks = [H.single_ok(case["kind"], case["site"], M) for M in mats]
        _run_history(ctx, case["kind"], case["site"], case["labels"], mats, oks)
        return
    M = _dec(case["matrix"])
    _run_case(ctx, case["kind"], case["family"], case["label"], M, case.get("extra") or {})


# =======================================================================================
# call histories (mc/c15_history.py)


def _hdigest(fails):
    return [tuple(sorted((k, str(v)) for k, v in f.items())) for f in fails]


def _run_history(ctx, kind, site, labels, mats, oks):
    from mc import core
    from mc import c15_history as H

    fails = H.eval_history(kind, site, mats, oks)
    ctx.count("evaluations")
    ctx.count("cases:%s/history" % kind)
    ctx.count("history_calls", len(mats))
    ctx.count("oracle_comparisons", len(mats) + sum(1 for o in oks if o))
    ctx.count("history_sequences_len%d" % len(mats))
    h = hashlib.sha1(("history:%s:%s" % (kind, site)).encode())
    for M in mats:
        h.update(_key(kind, M, None).encode())
    ctx.note_distinct(h.hexdigest())
    if fails:
        again = H.eval_history(kind, site, mats, oks)
        if _hdigest(again) != _hdigest(fails):
            raise core.HarnessError("HARNESS-NONDETERMINISM C15 history %s/%s %s: %s vs %s" % (kind, site, labels, _hdigest(fails), _hdigest(again)))
        for f in fails:
            ctx.count("violating_cases:%s" % kind)
            sig = {"check": "C15", "sub": f["sub"], "site": f["site"]}
            if "exc" in f:
                sig["exc"] = f["exc"]
            case = {"kind": kind, "family": "history", "site": site, "labels": labels, "matrices": [_enc(M) for M in mats]}
            ctx.violation(sig, case, "%s/history %s after calls on %s: %s" % (kind, site, core.jsonable(labels), f["detail"]))
    return fails


def _work_history(ctx, kind):
    from mc import c15_history as H

    reps = H.representatives(kind, ctx.tier, ctx.seed)
    sampled = False
    for site in H.SITES[kind]:
        for d in sorted(reps):
            rs = reps[d]
            # single pass: the call alone, result used at once (the oracle of the other families)
            oks = []
            for fam, label, M in rs:
                ok = H.single_ok(kind, site, M)
                ctx.count("history_single_calls")
                if not ok:
                    ctx.count("history_inputs_excluded_single_call_fails")
                oks.append(ok)
            for seq in H.sequences(len(rs)):
                labels = [dict(rs[i][1], family=rs[i][0]) for i in seq]
                fails = _run_history(ctx, kind, site, labels, [rs[i][2] for i in seq], [oks[i] for i in seq])
                if not sampled and kind == "clements" and site == "get_decomposition_from_weights" and d == 3 and len(seq) == 3:
                    sampled = True
                    ctx.sample({"decomposition": kind, "family": "history", "site": site, "calls_in_order": labels,
                                "then": "snapshots compared, every result verified against its own input", "violations": [f["sub"] for f in fails]})


# =======================================================================================
# work items


def _all_items(tier):
    """(kind, family, size argument, part, nparts)"""
    parts = {
        ("clements", "perm_diag", 4): 2,
        ("clements", "perm_diag", 5): 2 if tier == "quick" else 24,
        ("clements", "perm_diag", 6): 10,
        ("clements", "perm_sign_real", 5): 1 if tier == "quick" else 4,
        ("clements", "block_diag", 5): 3,
        ("clements", "givens1", 5): 1,
        ("clements", "givens2", 3): 1,
        ("clements", "givens2", 4): 4,
        ("clements", "givens2", 5): 10,
        ("euler", "gate_products", 2): 2 if tier == "quick" else 4,
        ("euler", "gate_products", 3): 8 if tier == "quick" else 20,
        ("euler", "frames", 4): 2,
        ("takagi", "sym_01i", 4): 12,
        ("takagi", "direct_sum", 6): 6,
        ("takagi", "direct_sum", 5): 2,
        ("takagi", "UDUt", 6): 4,
        ("williamson", "SDSt", 4): 2,
        ("williamson", "SDSt", 5): 2,
        ("williamson", "SDSt", 6): 3,
        ("graph", "all_graphs", 5): 8,
    }
    items = []
    fam_lists = {
        "clements": _clements_families(tier),
        "takagi": _takagi_families(tier),
        "williamson": _williamson_families(tier),
        "euler": _euler_families(tier),
        "graph": _graph_families(tier),
    }
    for kind in KINDS:
        for fam, n in fam_lists[kind]:
            np_ = parts.get((kind, fam, n), 1)
            for p in range(np_):
                items.append((kind, fam, n, p, np_))
    from mc import c15_history as H

    for kind in H.KINDS:  # call histories: one item per decomposition
        items.append((kind, "history", 0, 0, 1))
    return items


def _order(items):
    """heavy items first so that the pool drains evenly (deterministic)"""
    heavy = {("clements", "perm_diag"): 0, ("euler", "gate_products"): 0, ("clements", "givens2"): 1, ("clements", "block_diag"): 1, ("takagi", "sym_01i"): 2}
    return sorted(items, key=lambda it: (heavy.get((it[0], it[1]), 5), -it[2], KINDS.index(it[0]), it[1], it[3]))


def run(ctx, builddir):
    from mc import core

    items = _all_items(ctx.tier)
    only = getattr(ctx, "only", None)
    if only:
        items = [it for it in items if it[0] == only or it[1] == only or "%s/%s" % (it[0], it[1]) == only]
    items = _order(items)
    ctx.rule = (
        "every matrix of every structured family is one case (families and bounds in coverage.families); a case is "
        "pushed through the real decomposition with the NumPy connector and checked against its defining identity; "
        "distinct = distinct (decomposition, dtype, matrix bytes, extra parameters) keys, so a matrix reached through two "
        "families counts once; non-trivial = every case (each runs the complete decomposition and all of its oracles); "
        "seeded 'generic' entries (marked * / family 'generic') are included in the counts but every degenerate family "
        "is enumerated completely for every seed; family 'history': one case = one ordered sequence of 2 or 3 different "
        "representative inputs of one dimension pushed through ONE entry point before any result is used (distinct = entry point + matrices in order)"
    )
    ctx.assume("tolerance |a-b| <= 1e-9 + 1e-9*scale with scale = max(1, spectral norm of the input) (||S||^2 for the symplectic condition, max(1, n) for the mean photon number); unitarity defects <= 2e-9; no tolerance is looser than the default")
    ctx.assume("NumPy connector only (other connectors are C09's subject)")
    ctx.assume("williamson: input and output in xxpp ordering (the ordering of the library's callers: GaussianState.purify and the Gaussian particle-number sampler), symplectic form [[0,1],[-1,0]]")
    ctx.assume("euler: factors are consumed as in PureFockSimulator's `linear` step: interferometer U_first, then Squeezing(r_k, phi=0) on every mode (documented blocks cosh r, -sinh r), then interferometer U_last")
    ctx.assume("Graph: mean_photon_number is documented as 'the mean photon number for a mode', asserted as sum_i <n_i> / N over the graph's modes; <n_i> is computed by the harness from the state's xxpp moments at the default hbar")
    ctx.assume("Graph: 'embedding' (arXiv:1612.01199, referenced by the docstring) is asserted as: the B block of the state's A-matrix X(1-Q^-1) is a positive multiple of the adjacency matrix or of its complex conjugate (both give the same GBS statistics)")
    ctx.assume("the Interferometer gate of GaussianSimulator applies the matrix directly and uses no decomposition: nothing to check there")
    ctx.assume("when inputs of the non-degenerate class ('distinct_values', 'regular') violate the same (site, via, oracle) too, input_class is reported as 'any' (it does not discriminate); likewise dtype 'any' when both dtypes fail")
    ctx.assume("violation signatures carry site/oracle/input_class/dtype; input_class is computed by the harness from the spectrum of the INPUT (repeated / near-repeated / distinct singular, symplectic or squeezing values; Clements: an entry with 1e-12 < |u| <= 1e-8); a failure of euler or Graph whose inner takagi() call already violates the Takagi contract on the matrix handed to it is attributed to site=takagi with via=euler/Graph")
    ctx.assume("history family: representatives are 4-6 members per dimension of the structured families (d <= 4; williamson d <= 3 in the quick tier, euler d <= 3), "
               "all ordered pairs + the 6 ordered triples of the first three; 'unchanged' means bitwise equality of the numbers of the returned object "
               "(arrays, Decomposition angles and modes, instruction kinds/modes/parameters) with a snapshot taken right after the call that returned it; "
               "an input that fails its oracle in a single call is excluded from the correctness oracle of the histories (reported by the structured families)")
    core.pmap(ctx, "mc.checks.c15", "work", items, builddir)
    _collapse_signatures(ctx)
    c = ctx.counters
    fams = {k[len("cases:") :]: v for k, v in sorted(c.items()) if k.startswith("cases:")}
    return {
        "evaluations": c.get("evaluations", 0),
        "oracle_comparisons": c.get("oracle_comparisons", 0),
        "families": fams,
        "cases_per_decomposition": {k: sum(v for f, v in fams.items() if f.startswith(k + "/")) for k in KINDS},
        "work_items": len(items),
        "history": {k[len("history_"):]: v for k, v in sorted(c.items()) if k.startswith("history_")},
        "explanation": "evaluations = matrices pushed through a decomposition (each with all of its oracles); oracle_comparisons = individual "
        "reconstruction / unitarity / symplecticity / round-trip comparisons; families = measured number of cases per family; "
        "max_* = largest error observed on passing cases (relative to the stated scale); history = call sequences (calls = library calls whose "
        "result was kept and used only after the whole sequence; single_calls = the same calls alone)",
    }


_GENERIC_CLASSES = ("distinct_values", "distinct_symplectic_values", "regular")


def _collapse_signatures(ctx):
    """input_class / dtype are meant to name the DISCRIMINATING input class.  If, for one
    (site, via, oracle), inputs of the non-degenerate class fail as well, the class does
    not discriminate: all violations of that group get input_class 'any' (same for dtype
    when both dtypes fail), so that one defect is reported once per oracle and not once
    per spectrum class."""
    groups = {}
    for v in ctx.violations:
        key = tuple(sorted((k, str(x)) for k, x in v.signature.items() if k not in ("input_class", "dtype")))
        groups.setdefault(key, []).append(v)
    for vs in groups.values():
        if any(v.signature.get("input_class") in _GENERIC_CLASSES for v in vs):
            for v in vs:
                v.signature["input_class"] = "any"
        for cls in {v.signature.get("input_class") for v in vs}:
            same = [v for v in vs if v.signature.get("input_class") == cls and "dtype" in v.signature]
            if len({v.signature["dtype"] for v in same}) > 1:
                for v in same:
                    v.signature["dtype"] = "any"


def work(ctx, item):
    kind, fam, n, part, nparts = item
    if fam == "history":
        _work_history(ctx, kind)
        return
    gen = {
        "clements": _clements_cases,
        "takagi": _takagi_cases,
        "williamson": _williamson_cases,
        "euler": _euler_cases,
        "graph": _graph_cases,
    }[kind](fam, n, ctx.tier, ctx.seed)
    acc = {}
    sampled = False
    for idx, tup in enumerate(gen):
        if idx % nparts != part:
            continue
        if kind == "graph":
            label, M, extra = tup
        else:
            label, M = tup
            extra = {}
        if kind == "clements":
            # the (slower) pure-Fock execution: every 7th case, all small special families
            if fam in ("d1", "identity", "generic") or idx % 7 == 0:
                extra = {"purefock": True}
        if kind == "euler":
            _selftest_symplectic(M, label)
        if kind == "williamson":
            _selftest_positive_definite(M, label)
        fails, stats = _run_case(ctx, kind, fam, label, M, extra, acc)
        if not sampled and idx >= 3 * nparts and (kind, fam, n) in _SAMPLE_FROM:
            sampled = True
            ctx.sample({"decomposition": kind, "family": fam, "label": label, "matrix": _enc(M) if M.size <= 16 else "%dx%d" % M.shape, "extra": extra, "errors": stats, "violations": [f["oracle"] for f in fails]})
    for k, v in acc.items():
        ctx.extra["max_" + k] = max(ctx.extra.get("max_" + k, 0.0), v)


# one written-out sample per decomposition (the evidence keeps the first six)
_SAMPLE_FROM = {
    ("clements", "perm_diag", 3),
    ("takagi", "UDUt", 3),
    ("williamson", "SDSt", 2),
    ("euler", "frames", 2),
    ("graph", "all_graphs", 3),
    ("takagi", "sym_01i", 2),
}


def _selftest_positive_definite(M, label):
    import numpy as np
    from mc import core

    if not (np.isrealobj(M) and np.array_equal(M, M.T) and float(np.min(np.linalg.eigvalsh(M))) > 0):
        raise core.HarnessError("HARNESS-SELFTEST C15: generated Williamson input is not symmetric positive definite: %r" % (label,))


def _selftest_symplectic(S, label):
    from mc import core
    from mc.refmodel import decompref as R

    if not R.is_complex_symplectic(S):
        raise core.HarnessError("HARNESS-SELFTEST C15: generated Euler input is not a complex-form symplectic matrix: %r" % (label,))
