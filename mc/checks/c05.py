"""C05 -- Passive-state probability interfaces agree with a unitary dilation.

Explicit-state search over *PassiveState configurations*.  A state is what a program
(preparation, optional base interferometer, then <= 3 actions) leaves in the real
`PassiveState`: (input pattern, distinguishability, transmission matrix, lossy flag,
post-selections, cutoff).  A transition executes the whole program on the real
`PassiveSimulator` through the public path (`execute_instructions`, original mode labels, so
the simulator's active-mode remapping is part of what is tested) and, in lock-step, on a
10-line matrix model (embed the documented matrix of the instruction on its modes, multiply,
remember post-selections).  In every *distinct* state the oracle is evaluated:

 (1) `get_particle_detection_probability` on every basis vector == `fock_probabilities` ==
     `fock_probabilities_map` == |`state_vector`|^2 (where defined);
     `get_marginal_fock_probabilities(M)` for every ordered subset M of the remaining modes
     (original mode labels, the meaning pinned by the repository's tests) == the marginal of the
     table; the same marginal taken through the public path (program + one exact
     `ParticleNumberMeasurement` on M, shots=None: branch frequencies) == the marginal of the table;
 (2) all values >= -1e-12;
 (3) the table sums to 1, or to the post-selection success probability (`state.norm`);
 (4) everything equals the reference of `mc/refmodel/passiveref.py`: SVD dilation of the
     model's transmission matrix, number-state input, permanents / permutation double sum,
     loss modes summed out, post-selection by restriction (un-normalised).

`NotImplementedCalculation` of an interface is an unsupported cell (counted).  Nothing is
sampled: the roots, the alphabets and the depth are finite lists, the search is their full
product (per box, see `_boxes`); `VERIF_SEED` only changes the generic angles / matrices.
"""

import itertools
import math

LEVEL = "model_checking"

ATOL = 1e-9
RTOL = 1e-9
NEG_TOL = 1e-12
MAX_VIOL_PER_SIG_PER_ITEM = 1

SITE_GENERAL = "get_lossy_partially_distinguishable_detection_probabilities"
SITE_IDEAL = "get_ideal_particle_number_probability"
SITE_LOOPHAF = "get_lossy_particle_number_probability"
SITE_TENSOR = "get_partially_distinguishable_detection_probability"
SITE_SLOS = "PassiveState.state_vector/calculate_state_vector"
SITE_MARGINAL = "PassiveState.get_marginal_fock_probabilities"

LOSS_CLASSES = ("Loss", "UniformLoss", "LossyInterferometer")


# =======================================================================================
# catalogue of generic values (the only thing VERIF_SEED influences)


class Catalogue:
    def __init__(self, seed):
        import numpy as np
        from mc.refmodel import passiveref as R

        rng = np.random.default_rng(505000 + int(seed))
        self.theta = float(rng.uniform(0.35, 1.15))
        self.phi = float(rng.uniform(0.5, 2.5))
        self.ps = float(rng.uniform(0.4, 2.7))
        self.mz = (float(rng.uniform(0.4, 2.7)), float(rng.uniform(0.4, 2.7)))
        self.tc = complex(float(rng.uniform(0.45, 0.8)) * np.exp(1j * float(rng.uniform(0.5, 2.6))))
        self.t_real = (0.0, 0.35, 0.8, 1.0)
        self.U = {k: R._unitary(rng, k) for k in range(1, 5)}
        self.V = {k: R._unitary(rng, k) for k in range(1, 5)}
        self.contraction = {}
        for k in range(1, 5):
            s = np.sort(rng.uniform(0.3, 0.95, size=k))[::-1]
            U, V = R._unitary(rng, k), R._unitary(rng, k)
            srd = s.copy()
            srd[-1] = 0.0
            self.contraction[k] = {
                "ud": U * s,  # unitary . diag
                "du": (U.T * s).T,  # diag . unitary   (complex, non-uniform, output-side loss)
                "cplx": (V * s) @ U,
                "rankdef": (V * srd) @ U,
                "zero": np.zeros((k, k), dtype=complex),
                "unitary": U.copy(),
                "uniform": 0.7 * U,
            }
        self.gram = {}
        for n in range(0, 5):
            g = {"id": np.eye(n), "ones": np.ones((n, n))}
            if n >= 2:
                g["cplx2"] = R.complex_gram(n, rng, rank=2)
                while n >= 3 and R.triad_phase(g["cplx2"]) < 0.05:  # deterministic redraw: a clearly non-zero triad phase
                    g["cplx2"] = R.complex_gram(n, rng, rank=2)
            self.gram[n] = g


_CAT = {}


def _cat(seed):
    if seed not in _CAT:
        _CAT[seed] = Catalogue(seed)
    return _CAT[seed]


# =======================================================================================
# serialisable programs


def _enc(x):
    import numpy as np

    if isinstance(x, np.ndarray):
        if x.dtype.kind == "c":
            return {"re": x.real.tolist(), "im": x.imag.tolist()}
        return x.tolist()
    if isinstance(x, (complex, np.complexfloating)):
        return {"re": float(x.real), "im": float(x.imag)}
    if isinstance(x, (np.floating,)):
        return float(x)
    if isinstance(x, (np.integer,)):
        return int(x)
    if isinstance(x, (tuple, list)):
        return [_enc(v) for v in x]
    return x


def _dec(x):
    import numpy as np

    if isinstance(x, dict) and set(x) == {"re", "im"}:
        re, im = x["re"], x["im"]
        if isinstance(re, list):
            return np.array(re, dtype=float) + 1j * np.array(im, dtype=float)
        return complex(re, im)
    if isinstance(x, list) and x and isinstance(x[0], list):
        return np.array(x, dtype=float)
    return x


def step(cls, modes=(), **params):
    return {"cls": cls, "modes": [int(m) for m in modes], "params": {k: _enc(v) for k, v in params.items()}}


def _instruction(pq, st):
    cls = st["cls"]
    p = {k: _dec(v) for k, v in st["params"].items()}
    if cls == "NumberState":
        ins = pq.NumberState(tuple(p["occupation_numbers"]))
    elif cls == "DistinguishableNumberState":
        ins = pq.DistinguishableNumberState(tuple(p["occupation_numbers"]), particle_overlap=p["particle_overlap"])
    elif cls == "PostSelectPhotons":
        ins = pq.PostSelectPhotons(photon_counts=tuple(p["photon_counts"]))
    elif cls in ("Fourier", "Beamsplitter5050", "ParticleNumberMeasurement"):
        ins = getattr(pq, cls)()
    else:
        ins = getattr(pq, cls)(**p)
    return ins.on_modes(*st["modes"])


def _documented_matrix(st):
    """the documented one-particle matrix of a gate / loss instruction (the model)"""
    import numpy as np

    cls = st["cls"]
    p = {k: _dec(v) for k, v in st["params"].items()}
    if cls == "Beamsplitter":
        t, r = math.cos(p["theta"]), np.exp(1j * p["phi"]) * math.sin(p["theta"])
        return np.array([[t, -np.conj(r)], [r, t]], dtype=complex)
    if cls == "Beamsplitter5050":
        return np.array([[1, -1], [1, 1]], dtype=complex) / math.sqrt(2)
    if cls == "Phaseshifter":
        return np.array([[np.exp(1j * p["phi"])]], dtype=complex)
    if cls == "Fourier":
        return np.array([[1j]], dtype=complex)
    if cls == "MachZehnder":
        a, e = np.exp(1j * p["int_"]), np.exp(1j * p["ext"])
        return 0.5 * np.array([[e * (a - 1), 1j * (a + 1)], [1j * e * (a + 1), 1 - a]], dtype=complex)
    if cls in ("Interferometer", "LossyInterferometer"):
        return np.asarray(p["matrix"], dtype=complex)
    if cls == "Loss":
        return np.array([[p["transmissivity"]]], dtype=complex)
    if cls == "UniformLoss":
        return None  # size depends on the modes
    raise KeyError(cls)


class Model:
    """the boring transition function: T <- embed(M, modes) @ T, post-selections remembered"""

    def __init__(self, D):
        import numpy as np

        self.D = D
        self.occ = None
        self.kind = None  # "ind" | "ov" | "gram"
        self.overlap = None  # scalar or matrix
        self.T = np.eye(D, dtype=complex)
        self.post = {}
        self.lossy = False
        self.depth = 0

    def copy(self):
        m = Model(self.D)
        m.occ, m.kind, m.overlap = self.occ, self.kind, self.overlap
        m.T = self.T.copy()
        m.post = dict(self.post)
        m.lossy = self.lossy
        m.depth = self.depth
        return m

    @property
    def active(self):
        return [m for m in range(self.D) if m not in self.post]

    @property
    def n(self):
        return sum(self.occ)

    @property
    def n_left(self):
        return self.n - sum(self.post.values())

    def gram(self):
        """Gram matrix the reference uses (None = indistinguishable)"""
        from mc.refmodel import passiveref as R
        import numpy as np

        if self.kind == "ind":
            return None
        if self.kind == "ov":
            return R.gram_uniform(self.n, float(self.overlap))
        return np.asarray(self.overlap, dtype=complex)

    def apply(self, st):
        import numpy as np

        cls = st["cls"]
        if cls == "NumberState":
            self.occ, self.kind = tuple(st["params"]["occupation_numbers"]), "ind"
            return
        if cls == "DistinguishableNumberState":
            self.occ = tuple(st["params"]["occupation_numbers"])
            ov = _dec(st["params"]["particle_overlap"])
            if isinstance(ov, np.ndarray):
                self.kind, self.overlap = "gram", ov
            else:
                self.kind, self.overlap = "ov", float(ov)
            return
        modes = list(st["modes"]) or self.active
        if cls == "PostSelectPhotons":
            for m, c in zip(modes, st["params"]["photon_counts"]):
                self.post[m] = int(c)
            return
        if cls == "UniformLoss":
            M = np.eye(len(modes), dtype=complex) * st["params"]["transmissivity"]
        else:
            M = _documented_matrix(st)
        E = np.eye(self.D, dtype=complex)
        E[np.ix_(modes, modes)] = M
        self.T = E @ self.T
        if cls in LOSS_CLASSES:
            self.lossy = True


# =======================================================================================
# alphabets


def _count_vectors(k, total):
    """all k-vectors of non-negative integers with sum <= total"""
    out = []
    for n in range(total + 1):
        for c in itertools.product(range(n + 1), repeat=k):
            if sum(c) == n:
                out.append(c)
    return out


def alphabet(cat, model, level):
    """finite list of actions available in the model state; `level` in tiny/small/mid/full"""
    a = model.active
    k = len(a)
    nl = model.n_left
    acts = []
    bs = dict(theta=cat.theta, phi=cat.phi)
    pairs = list(itertools.permutations(a, 2))
    # ---- gates -------------------------------------------------------------------
    if level == "tiny":
        if k >= 2:
            acts.append(step("Beamsplitter", (a[-1], a[0]), **bs))
    else:
        for pr in pairs:
            acts.append(step("Beamsplitter", pr, **bs))
        ps_modes = a if level in ("mid", "full") else a[-1:]
        for m in ps_modes:
            acts.append(step("Phaseshifter", (m,), phi=cat.ps))
        if level in ("mid", "full"):
            acts.append(step("Interferometer", (), matrix=cat.V[k]))  # all active modes
        if level == "full":
            for pr in pairs:
                acts.append(step("MachZehnder", pr, int_=cat.mz[0], ext=cat.mz[1]))
                acts.append(step("Beamsplitter5050", pr))
                acts.append(step("Interferometer", pr, matrix=cat.U[2]))
            for m in a:
                acts.append(step("Fourier", (m,)))
            for tr in itertools.permutations(a, 3):
                acts.append(step("Interferometer", tr, matrix=cat.U[3]))
    # ---- losses ------------------------------------------------------------------
    C = cat.contraction
    if level == "tiny":
        acts.append(step("Loss", (a[0],), transmissivity=0.35))
        acts.append(step("Loss", (a[-1],), transmissivity=cat.tc))
        acts.append(step("LossyInterferometer", (), matrix=C[k]["cplx"]))
    elif level == "small":
        for m in a:
            acts.append(step("Loss", (m,), transmissivity=0.35))
        for m in sorted({a[0], a[-1]}):
            acts.append(step("Loss", (m,), transmissivity=cat.tc))
        acts.append(step("UniformLoss", (), transmissivity=0.8))
        acts.append(step("LossyInterferometer", (), matrix=C[k]["cplx"]))
    elif level == "mid":
        for m in a:
            acts.append(step("Loss", (m,), transmissivity=0.35))
            acts.append(step("Loss", (m,), transmissivity=cat.tc))
        acts.append(step("Loss", (a[-1],), transmissivity=0.0))
        acts.append(step("Loss", (a[0],), transmissivity=1.0))
        acts.append(step("Loss", (a[0],), transmissivity=0.8))
        acts.append(step("UniformLoss", (), transmissivity=0.8))
        if k >= 3:
            acts.append(step("UniformLoss", tuple(a[:2]), transmissivity=0.35))
        for kind in ("cplx", "du", "rankdef"):
            acts.append(step("LossyInterferometer", (), matrix=C[k][kind]))
        if k >= 2:
            acts.append(step("LossyInterferometer", (a[-1], a[0]), matrix=C[2]["cplx"]))
            acts.append(step("LossyInterferometer", (a[0], a[1]), matrix=C[2]["du"]))
    else:
        for m in a:
            for t in cat.t_real + (cat.tc,):
                acts.append(step("Loss", (m,), transmissivity=t))
        subsets = [()]
        if k >= 3:
            subsets += list(itertools.combinations(a, 2))
        for sub in subsets:
            for t in cat.t_real:
                acts.append(step("UniformLoss", sub, transmissivity=t))
        for kind in ("ud", "du", "cplx", "rankdef", "zero", "unitary", "uniform"):
            acts.append(step("LossyInterferometer", (), matrix=C[k][kind]))
        for pr in pairs:
            for kind in ("ud", "cplx", "rankdef", "zero"):
                acts.append(step("LossyInterferometer", pr, matrix=C[2][kind]))
    # ---- post-selections: proper subsets of the active modes only ---------------------
    if k >= 2:
        if level == "tiny":
            if nl >= 1:
                acts.append(step("PostSelectPhotons", (a[0],), photon_counts=(1,)))
            acts.append(step("PostSelectPhotons", (a[-1],), photon_counts=(0,)))
        elif level == "small":
            for m in a:
                for c in range(0, min(nl, 1) + 1):
                    acts.append(step("PostSelectPhotons", (m,), photon_counts=(c,)))
        elif level == "mid":
            for m in a:
                for c in range(0, min(nl, 2) + 1):
                    acts.append(step("PostSelectPhotons", (m,), photon_counts=(c,)))
            if k >= 3:
                prs = list(itertools.combinations(a, 2)) + [(a[-1], a[0])]
                for pr in prs:
                    for cv in _count_vectors(2, min(nl, 2)):
                        acts.append(step("PostSelectPhotons", pr, photon_counts=cv))
        else:
            for size in range(1, k):
                for tup in itertools.permutations(a, size):
                    if size >= 3 and list(tup) != sorted(tup) and list(tup) != sorted(tup, reverse=True):
                        continue  # size-3 tuples: ascending and descending order only
                    for cv in _count_vectors(size, nl):
                        acts.append(step("PostSelectPhotons", tup, photon_counts=cv))
    return acts


# =======================================================================================
# roots and boxes


def _variants(cat, n, which):
    """list of (tag, overlap-or-None); tag is stable across seeds"""
    out = []
    for w in which:
        if w == "ind":
            out.append(("ind", None))
        elif w.startswith("ov"):
            out.append((w, float(w[2:])))
        else:
            name = w[2:]
            if name in cat.gram[n]:
                out.append((w, cat.gram[n][name]))
    return out


ALL_VARIANTS = ("ind", "ov0.0", "ov0.4", "ov1.0", "g:id", "g:ones", "g:cplx2")
CORE_VARIANTS = ("ind", "ov0.4", "g:cplx2")


def _root_program(cat, d, occ, tag, overlap, base):
    if tag == "ind":
        prog = [step("NumberState", range(d), occupation_numbers=tuple(occ))]
    else:
        prog = [step("DistinguishableNumberState", range(d), occupation_numbers=tuple(occ), particle_overlap=overlap)]
    if base == "U":
        prog.append(step("Interferometer", range(d), matrix=cat.U[d]))
    return prog


def _compositions(d, nmax):
    from mc.refmodel import passiveref as R

    out = []
    for n in range(nmax + 1):
        out.extend(R.sector(d, n))
    return out


def _boxes(tier):
    """The enumeration is the union of these boxes; in each box EVERY root is combined with
    EVERY action sequence of the given per-position alphabet levels."""
    B = []
    if tier == "quick":
        # all inputs (every composition, bunched included), every distinguishability variant, with and
        # without a generic base interferometer: depth 0
        for d in (1, 2, 3):
            B.append(dict(name="roots", d=d, nmax=3, occs="all", variants=ALL_VARIANTS, bases=("id", "U"), levels=()))
        # four photons (the default cutoff of 4 no longer holds them): two modes, default and explicit cutoff
        B.append(dict(name="roots-n4", d=2, nmax=4, occs=[(0, 4), (2, 2), (3, 1)], variants=ALL_VARIANTS, bases=("U",), levels=(), cutoffs=(None, "n+1")))
        # every input x every single feature
        B.append(dict(name="all-inputs-x1", d=2, nmax=3, occs="all", variants=ALL_VARIANTS, bases=("U",), levels=("mid",)))
        B.append(dict(name="all-inputs-x1", d=3, nmax=3, occs="all", variants=CORE_VARIANTS, bases=("U",), levels=("small",)))
        B.append(dict(name="all-inputs-x1", d=3, nmax=3, occs=[(1, 1, 1), (0, 2, 1)], variants=ALL_VARIANTS, bases=("U",), levels=("small",)))
        # the full alphabet at depth 1 on generic inputs
        B.append(dict(name="full-x1", d=2, nmax=3, occs=[(1, 1), (1, 2)], variants=CORE_VARIANTS, bases=("U", "id"), levels=("full",)))
        B.append(dict(name="full-x1", d=3, nmax=3, occs=[(1, 1, 0), (1, 1, 1), (2, 0, 1)], variants=CORE_VARIANTS, bases=("U",), levels=("full",)))
        # pairs and triples of features
        B.append(dict(name="x2", d=2, nmax=3, occs=[(1, 1), (2, 1)], variants=CORE_VARIANTS, bases=("U",), levels=("mid", "mid")))
        B.append(dict(name="x2", d=3, nmax=3, occs=[(1, 1, 0), (1, 1, 1)], variants=CORE_VARIANTS, bases=("U",), levels=("small", "small")))
        B.append(dict(name="x3", d=3, nmax=3, occs=[(1, 1, 0), (0, 2, 1)], variants=CORE_VARIANTS, bases=("U",), levels=("tiny", "tiny", "tiny")))
        B.append(dict(name="x3", d=2, nmax=2, occs=[(1, 1)], variants=CORE_VARIANTS, bases=("U",), levels=("small", "small", "small")))
    else:
        for d in (1, 2, 3, 4):
            B.append(dict(name="roots", d=d, nmax=4, occs="all", variants=ALL_VARIANTS, bases=("id", "U"), levels=(), cutoffs=(None, "n+1")))
        B.append(dict(name="all-inputs-x1", d=1, nmax=4, occs="all", variants=ALL_VARIANTS, bases=("id",), levels=("full",)))
        B.append(dict(name="all-inputs-x1", d=2, nmax=4, occs="all", variants=ALL_VARIANTS, bases=("U",), levels=("full",)))
        B.append(dict(name="all-inputs-x1", d=3, nmax=3, occs="all", variants=ALL_VARIANTS, bases=("U",), levels=("mid",)))
        B.append(dict(name="all-inputs-x1", d=3, nmax=4, occs="n=4", variants=CORE_VARIANTS, bases=("U",), levels=("small",), cutoffs=("n+1",)))
        B.append(dict(name="all-inputs-x1", d=4, nmax=3, occs="all", variants=CORE_VARIANTS, bases=("U",), levels=("small",)))
        B.append(dict(name="all-inputs-x1", d=4, nmax=4, occs="n=4", variants=CORE_VARIANTS, bases=("U",), levels=("tiny",), cutoffs=("n+1",)))
        B.append(dict(name="full-x1", d=3, nmax=3, occs=[(1, 1, 0), (1, 1, 1), (2, 0, 1), (0, 3, 0)], variants=ALL_VARIANTS, bases=("U", "id"), levels=("full",)))
        B.append(dict(name="full-x1", d=4, nmax=4, occs=[(1, 1, 0, 0), (1, 0, 1, 1), (0, 2, 1, 0), (1, 1, 1, 1)], variants=CORE_VARIANTS, bases=("U",), levels=("full",), cutoffs=("n+1",)))
        B.append(dict(name="x2", d=2, nmax=4, occs="all", variants=CORE_VARIANTS, bases=("U",), levels=("mid", "mid")))
        B.append(dict(name="x2", d=3, nmax=3, occs=[(1, 1, 0), (1, 1, 1), (2, 0, 1)], variants=CORE_VARIANTS, bases=("U",), levels=("mid", "mid")))
        B.append(dict(name="x2", d=3, nmax=3, occs=[(1, 1, 1)], variants=("ov0.0", "ov1.0", "g:id", "g:ones"), bases=("U",), levels=("small", "small")))
        B.append(dict(name="x2", d=4, nmax=3, occs=[(1, 1, 0, 0), (1, 0, 1, 1)], variants=CORE_VARIANTS, bases=("U",), levels=("small", "small")))
        B.append(dict(name="x3", d=2, nmax=3, occs=[(1, 1), (2, 1)], variants=CORE_VARIANTS, bases=("U",), levels=("small", "small", "small")))
        B.append(dict(name="x3", d=3, nmax=3, occs=[(1, 1, 0), (0, 2, 1), (1, 1, 1)], variants=CORE_VARIANTS, bases=("U",), levels=("small", "tiny", "small")))
        B.append(dict(name="x3", d=4, nmax=3, occs=[(1, 1, 0, 0), (1, 0, 1, 1)], variants=CORE_VARIANTS, bases=("U",), levels=("tiny", "tiny", "tiny")))
    return B


def _items(tier, seed):
    cat = _cat(seed)
    items = []
    grouped = {}
    for bi, box in enumerate(_boxes(tier)):
        d = box["d"]
        if box["occs"] == "all":
            occs = _compositions(d, box["nmax"])
        elif box["occs"] == "n=4":
            occs = [o for o in _compositions(d, 4) if sum(o) == 4]
        else:
            occs = [tuple(o) for o in box["occs"]]
        for occ in occs:
            n = sum(occ)
            which = box["variants"]
            if n <= 1:  # all variants coincide physically: keep one of each API route
                which = tuple(w for w in which if w in (("ind", "ov0.4", "g:ones") if n == 1 else ("ind", "ov0.4")))
            for tag, _ov in _variants(cat, n, which):
                for base in box["bases"]:
                    for cutoff in box.get("cutoffs", (None,)):
                        if cutoff == "n+1" and None in box.get("cutoffs", ()) and not (n >= 4 and tag != "ind"):
                            continue  # explicit cutoff only where the default one truncates the table
                        root = (d, tuple(occ), tag, base, cutoff)
                        depth = len(box["levels"])
                        if depth == 0:
                            grouped.setdefault((bi, d, tuple(occ)), []).append(root)
                            continue
                        nsplit = 1
                        if depth >= 2:  # split by first action: the sub-trees are disjoint, finer parts balance the pool
                            nsplit = 8 if depth == 2 else 16
                        for part in range(nsplit):
                            items.append({"box": box["name"], "bi": bi, "roots": [root], "levels": list(box["levels"]), "part": part, "nsplit": nsplit})
    for (bi, d, occ), roots in grouped.items():
        items.append({"box": _boxes(tier)[bi]["name"], "bi": bi, "roots": roots, "levels": [], "part": 0, "nsplit": 1})
    # heavy items first (deterministic order), so that the pool is balanced
    def key(it):
        r = it["roots"][0]
        return (-len(it["levels"]), -r[0], -sum(r[1]), it["bi"], r[1], r[2], r[3], str(r[4]), it["part"])

    items.sort(key=key)
    return items


# =======================================================================================
# run / work / replay


def run(ctx, builddir):
    from mc import core
    from mc.refmodel import passiveref as R

    try:
        ncmp = R.self_test(ctx.seed)
    except AssertionError as e:
        raise core.HarnessError("HARNESS-SELFTEST passiveref routes disagree: %r" % (e,))
    ctx.count("reference_selftest_comparisons", ncmp)
    items = _items(ctx.tier, ctx.seed)
    only = getattr(ctx, "only", None)
    if only:
        wanted = set(only.split(","))
        items = [it for it in items if it["box"] in wanted or ("%s-d%d" % (it["box"], it["roots"][0][0])) in wanted]
    ctx.rule = (
        "union of boxes; in a box every root (mode count d, every listed input pattern incl. bunched, "
        "distinguishability variant, base circuit identity / generic interferometer, cutoff mode) is combined with "
        "every action sequence over the box's per-position alphabets (gates on every ordered mode tuple, Loss(t) per mode "
        "with t in {0,.35,.8,1,complex}, UniformLoss, LossyInterferometer catalogue, PostSelectPhotons on ordered proper "
        "subsets with every count vector <= remaining photons); a case is distinct by the canonical (rounded 1e-9) "
        "content of the reached PassiveState + model; every distinct state is non-trivial (all interfaces evaluated "
        "against each other and against the dilation reference)"
    )
    ctx.assume("reference = mc/refmodel/passiveref.py: SVD dilation + permanents / permutation double sum; three independent "
               "routes (explicit internal modes, dilation, loss-kernel generating function) cross-validated at start-up and "
               "dilation vs kernel route again on every table")
    ctx.assume("gate matrices of the model are the documented ones (Beamsplitter, Phaseshifter, MachZehnder, Fourier, "
               "Beamsplitter5050); that the gates implement them is C07's subject")
    ctx.assume("tolerance |a-b| <= 1e-9 + 1e-9*max(|a|,|b|) per value; sums of a table: that tolerance times (1 + number of entries); "
               "non-negativity tolerance 1e-12")
    ctx.assume("the cutoff of a fixed-particle-number program is inferred under the default Config (documented in Config; true for "
               "NumberState); a table that lacks the n-photon sector under the default Config is a violation (cutoff_not_inferred), "
               "its remaining entries are still compared with the reference on the truncated basis")
    ctx.assume("get_marginal_fock_probabilities(M) on a post-selected state takes ORIGINAL mode labels (pinned by the repository's "
               "tests test_marginal_probabilities_4_modes_postselected / test_postselecting_on_same_mode_raises_PiquassoException); "
               "the same marginal is also taken through the public path: program + one ParticleNumberMeasurement on M, shots=None")
    ctx.assume("workers run with OMP_THREAD_LIMIT=1: the native permanent otherwise starts 4*hardware_concurrency threads per call; "
               "its job loop and arithmetic are unchanged (thread partitions are C11's subject)")
    ctx.assume("post-selection of ALL active modes (d=0 state) is not part of the space; exceptions raised while EXECUTING a "
               "program are counted as refused cells (C13's subject), never as agreement")
    # the native permanent asks for 4*hardware_concurrency OpenMP threads on EVERY call (10-35 ms of thread start-up per
    # 3x3 permanent, times 16 workers); the thread limit does not change its arithmetic (same job loop), C11 owns threading
    core.pmap(ctx, "mc.checks.c05", "work", items, builddir, env={"OMP_THREAD_LIMIT": "1"})
    c = ctx.counters
    if c.get("marginal_checked", 0) == 0 or c.get("single_checked", 0) == 0 or c.get("state_vector_checked", 0) == 0:
        if not only:
            raise core.HarnessError("HARNESS-VACUOUS an interface was never evaluated")
    return {
        "states": len(ctx.distinct),
        "transitions": c.get("transitions", 0),
        "traces_validated_against_impl": c.get("programs_executed", 0),
        "evaluations": c.get("interface_values_compared", 0),
        "max_depth": c.get("max_depth", 0),
        "unsupported_cells": c.get("unsupported_cells", 0),
        "explanation": "state = distinct canonical PassiveState configuration (input, overlap, transmission matrix, lossy "
        "flag, post-selections, cutoff) reached by a program; transition = one action appended to a program and the program "
        "executed on the real PassiveSimulator in lock-step with the matrix model; traces_validated = programs executed on the "
        "implementation; evaluations = individual interface values compared with the reference; states re-reached through a "
        "different program are executed but their oracle is evaluated once per worker item",
    }


def replay(ctx, case, signature):
    _check_program(ctx, case["d"], case.get("cutoff"), case["program"], confirm=False)


_SEEN_SIG = {}


def work(ctx, item):
    seen = set()
    _SEEN_SIG.clear()
    before = ctx.counters.get("states_checked", 0), ctx.counters.get("transitions", 0)
    try:
        _work(ctx, item, seen)
    finally:
        name = "box:%s-d%d" % (item["box"], item["roots"][0][0])
        ctx.count(name + ":states_checked", ctx.counters.get("states_checked", 0) - before[0])
        ctx.count(name + ":transitions", ctx.counters.get("transitions", 0) - before[1])


def _work(ctx, item, seen):
    for root in item["roots"]:
        _explore(ctx, item, tuple(root), seen)


def _explore(ctx, item, root, seen):
    cat = _cat(ctx.seed)
    d, occ, tag, base, cutoff = root
    occ = tuple(occ)
    n = sum(occ)
    ov = dict(_variants(cat, n, (tag,)))[tag]
    prog = _root_program(cat, d, occ, tag, ov, base)
    cfg_cutoff = (n + 1) if cutoff == "n+1" else None
    model = Model(d)
    for st in prog:
        model.apply(st)
    levels = item["levels"]
    frontier = [(prog, model)]
    if item["part"] == 0:
        _visit(ctx, d, cfg_cutoff, prog, model, seen, depth=0)
    for depth, level in enumerate(levels, start=1):
        nxt = []
        for prog0, m0 in frontier:
            acts = alphabet(cat, m0, level)
            for ai, act in enumerate(acts):
                if depth == 1 and item["nsplit"] > 1 and ai % item["nsplit"] != item["part"]:
                    continue
                prog1 = prog0 + [act]
                m1 = m0.copy()
                m1.apply(act)
                m1.depth = depth
                ctx.count("transitions")
                ctx.counters["max_depth"] = max(ctx.counters.get("max_depth", 0), depth)
                new = _visit(ctx, d, cfg_cutoff, prog1, m1, seen, depth)
                if new and depth < len(levels):
                    nxt.append((prog1, m1))
        frontier = nxt


def _canon(state, model):
    import numpy as np

    def r(x):
        x = np.round(np.asarray(x, dtype=complex), 9) + (0.0 + 0.0j)
        return x.tobytes()

    ov = state._particle_overlap
    lib = (
        tuple(tuple(int(v) for v in o) for o in state._occupation_numbers),
        None if ov is None else r(ov),
        r(state.interferometer),
        bool(state.is_lossy),
        tuple((int(k), int(v)) for k, v in state._postselections.items()),
        int(state._config.cutoff),
    )
    mod = (model.occ, model.kind, r(model.T), tuple(sorted(model.post.items())))
    return repr((lib, mod))


def _visit(ctx, d, cfg_cutoff, prog, model, seen, depth):
    """execute, dedup, check.  Returns True when the state is new (and accepted)."""
    state = _execute(ctx, d, cfg_cutoff, prog)
    if state is None:
        return False
    key = _canon(state, model)
    if key in seen:
        ctx.count("transitions_to_known_state")
        return False
    seen.add(key)
    ctx.note_distinct(key)
    _check_state(ctx, d, cfg_cutoff, prog, model, state, confirm=True)
    return True


def _execute(ctx, d, cfg_cutoff, prog):
    import piquasso as pq

    ctx.count("programs_executed")
    try:
        config = pq.Config(cutoff=cfg_cutoff) if cfg_cutoff is not None else pq.Config()
        sim = pq.PassiveSimulator(d=d, config=config)
        result = sim.execute_instructions([_instruction(pq, st) for st in prog], shots=None)
        state = result.state
        if state is None:
            raise RuntimeError("no state")
        return state
    except Exception as e:  # the program was not accepted: not this property's subject
        ctx.count("refused_cells")
        ctx.count("refused_%s" % type(e).__name__)
        if ctx.counters["refused_cells"] <= 2:
            ctx.sample({"refused": type(e).__name__, "message": str(e)[:200], "program": _short(prog)})
        return None


def _check_program(ctx, d, cfg_cutoff, prog, confirm):
    model = Model(d)
    for st in prog:
        model.apply(st)
    state = _execute(ctx, d, cfg_cutoff, prog)
    if state is not None:
        _check_state(ctx, d, cfg_cutoff, prog, model, state, confirm=confirm)


def _short(prog):
    out = []
    for st in prog:
        p = {}
        for k, v in st["params"].items():
            v = _dec(v)
            p[k] = "matrix%s" % (tuple(getattr(v, "shape", ())),) if hasattr(v, "shape") else v
        out.append("%s%s%s" % (st["cls"], tuple(st["modes"]), p))
    return out


# ---------------------------------------------------------------------------------------
# the oracle

_REF_CACHE = {}


def _reference_full(model):
    """full table on all D modes (before post-selection) of the model configuration; dilation
    route, cross-checked against the loss-kernel route"""
    import numpy as np
    from mc import core
    from mc.refmodel import passiveref as R

    G = model.gram()
    key = (model.occ, None if G is None else np.round(G, 12).tobytes(), np.round(model.T, 12).tobytes())
    hit = _REF_CACHE.get(key)
    if hit is not None:
        return hit
    a = R.dilation_table(model.occ, model.T, G)
    b = R.kernel_table(model.occ, model.T, G)
    if R.max_abs_diff(a, b) > 1e-11 or abs(sum(a.values()) - 1.0) > 1e-11:
        raise core.HarnessError("HARNESS-REFERENCE dilation and kernel routes disagree by %g (sum %r)" % (R.max_abs_diff(a, b), sum(a.values())))
    if len(_REF_CACHE) > 4000:
        _REF_CACHE.clear()
    _REF_CACHE[key] = a
    return a


def _num(x):
    """python complex of a library value"""
    import numpy as np

    x = np.asarray(x)
    if x.shape != ():
        x = x.reshape(-1)[0]
    return complex(x)


def _close(a, b):
    return abs(a - b) <= ATOL + RTOL * max(abs(a), abs(b))


class _Obs:
    """values of one interface: {outcome: complex} or an exception"""

    def __init__(self):
        self.values = None
        self.exc = None
        self.unsupported = False


def _call(ctx, obs, fn, name):
    from piquasso.api.exceptions import NotImplementedCalculation

    try:
        obs.values = fn()
    except NotImplementedCalculation:
        obs.unsupported = True
        ctx.count("unsupported_cells")
        ctx.count("unsupported_%s" % name)
    except Exception as e:
        obs.exc = e
    return obs


def _classify(model):
    """stable input classes of the configuration"""
    import numpy as np

    G = model.gram()
    r = [m for m, k in enumerate(model.occ) for _ in range(k)]
    cg = False
    if model.kind == "gram" and G is not None and G.size:
        cg = bool(np.abs(G - G.T).max() > 1e-9)
    Tr = model.T[:, r]
    L = np.eye(model.D)[np.ix_(r, r)] - Tr.conj().T @ Tr if r else np.zeros((0, 0))
    cl = bool(L.size and np.abs(L - L.T).max() > 1e-9)
    parts = []
    if cg:
        parts.append("complex-gram")
    if cl:
        parts.append("complex-nonuniform-loss")
    return "+".join(parts) if parts else "symmetric-gram-and-loss-kernel"


def _routes(model):
    if model.kind == "ind" or (model.kind == "ov" and abs(model.overlap - 1.0) <= 1e-8):
        single = SITE_LOOPHAF if model.lossy else SITE_IDEAL
        table = SITE_GENERAL if model.lossy else SITE_SLOS
    else:
        single = SITE_TENSOR if (model.kind == "ov" and not model.lossy) else SITE_GENERAL
        table = SITE_GENERAL
    return single, table


def _check_state(ctx, d, cfg_cutoff, prog, model, state, confirm):
    findings = _evaluate(ctx, d, cfg_cutoff, prog, model, state)
    if not findings:
        return
    will_list = any(_SEEN_SIG.get(repr(sorted(f[0].items())), 0) < MAX_VIOL_PER_SIG_PER_ITEM for f in findings)
    if confirm and will_list:
        # determinism: the same program, fresh objects, must give the same findings
        state2 = _execute(ctx, d, cfg_cutoff, prog)
        from mc import core

        again = _evaluate(ctx.child(), d, cfg_cutoff, prog, model, state2) if state2 is not None else None
        if again is None or [(f[0], f[2]) for f in again] != [(f[0], f[2]) for f in findings]:
            raise core.HarnessError("HARNESS-NONDETERMINISM C05 findings differ between two executions of %s" % (_short(prog),))
    if will_list and any(f[0].get("sub") == "probabilities_vs_dilation" for f in findings):
        # before a disagreement with the reference is reported, the reference table is recomputed by the slow literal
        # route (explicit internal modes, polynomial expansion): the oracle must not be the one that is wrong
        from mc import core
        from mc.refmodel import passiveref as R

        truth = R.internal_mode_table(model.occ, model.T, model.gram())
        if R.max_abs_diff(truth, _reference_full(model)) > 1e-11:
            raise core.HarnessError("HARNESS-REFERENCE explicit internal-mode route disagrees with the dilation route for %s" % (_short(prog),))
        ctx.count("reference_reconfirmed_by_explicit_route")
    for sig, detail, _fingerprint in findings:
        skey = repr(sorted(sig.items()))
        _SEEN_SIG[skey] = _SEEN_SIG.get(skey, 0) + 1
        ctx.count("violating_states")
        ctx.count("viol:%s/%s" % (sig.get("sub"), sig.get("input_class", sig.get("exception", ""))))
        if _SEEN_SIG[skey] > MAX_VIOL_PER_SIG_PER_ITEM:
            ctx.count("violations_not_listed_same_signature")
            continue
        case = {"d": d, "cutoff": cfg_cutoff, "program": prog, "detail": detail, "program_short": _short(prog)}
        ctx.violation(sig, case, "%s\n%s" % (_short(prog), detail.get("summary", "")))


def _evaluate(ctx, d, cfg_cutoff, prog, model, state):
    """returns the list of (signature, detail, fingerprint) violated in this state"""
    import numpy as np
    from mc.refmodel import passiveref as R

    findings = []
    ctx.count("states_checked")
    dd = state.d
    active = model.active
    cutoff = int(state._config.cutoff)
    n, npost = model.n, sum(model.post.values())
    cls_in = _classify(model)
    site_single, site_table = _routes(model)

    def base_sig(**kw):
        s = {"check": "C05"}
        s.update(kw)
        return s

    # ---------------- reference ----------------------------------------------------
    full = _reference_full(model)
    ref, success = R.restrict(full, model.post)
    basis = R.basis(dd, cutoff)
    truncated = cutoff <= n - npost
    if truncated:
        ctx.count("truncated_tables")
    exp = {v: ref.get(v, 0.0) for v in basis}
    postsel = bool(model.post)
    if len(active) != dd:
        findings.append((base_sig(sub="mode_count", site="PassiveState.d"), {"summary": "state.d=%d, model has %d active modes" % (dd, len(active))}, "d"))
        return findings

    # ---------------- interfaces -----------------------------------------------------
    tab = _call(ctx, _Obs(), lambda: [_num(x) for x in state.fock_probabilities], "table")
    mp = _call(ctx, _Obs(), lambda: {tuple(int(x) for x in k): _num(v) for k, v in state.fock_probabilities_map.items()}, "map")
    sv = _call(ctx, _Obs(), lambda: [abs(_num(x)) ** 2 for x in state.state_vector], "state_vector")
    single = _call(
        ctx, _Obs(), lambda: {v: _num(state.get_particle_detection_probability(np.array(v, dtype=int))) for v in basis}, "single"
    )
    norm = _call(ctx, _Obs(), lambda: _num(state.norm), "norm")

    raised = {}
    for name, obs, site in (("table", tab, site_table), ("map", mp, site_table), ("state_vector", sv, SITE_SLOS), ("single", single, site_single), ("norm", norm, "PassiveState.norm")):
        if obs.exc is not None:
            raised[name] = (site, obs.exc)

    # A number state prepared through DistinguishableNumberState under the default Config: the cutoff is documented to be
    # inferred "whenever possible, for example for simulations with a fixed particle number" (and is, for NumberState), so
    # the table must contain the n-photon sector.  If it does not, that is ONE finding; exceptions of the interfaces that
    # index the truncated space belong to it, the values that ARE there are still compared with the reference.
    if truncated and cfg_cutoff is None and model.kind != "ind":
        symptoms = ["cutoff %d <= %d photons: the table has no %d-photon sector (reference mass inside the table %.6f, norm says %s)"
                    % (cutoff, n - npost, n - npost, sum(exp.values()), norm.values if norm.values is not None else "n/a")]
        for nm in ("table", "map", "state_vector", "norm"):
            if nm in raised and isinstance(raised[nm][1], IndexError):
                symptoms.append("%s raises IndexError (%s)" % (nm, str(raised[nm][1])[:80]))
                del raised[nm]
        findings.append((
            base_sig(sub="cutoff_not_inferred", site="passive/simulation_steps.distinguishable_number_state",
                     input_class="DistinguishableNumberState+default-config+photons>=4"),
            {"summary": "; ".join(symptoms), "symptoms": symptoms}, "cni%d" % len(symptoms)))

    def compare(name, values):
        """values: {outcome: complex}; returns list of (outcome, got, expected)"""
        bad = []
        for v in basis:
            got = values.get(v)
            ctx.count("interface_values_compared")
            if got is None or not _close(got, exp[v]) or abs(got.imag) > ATOL:
                bad.append((v, got, exp[v]))
        extra = [v for v in values if v not in exp]
        for v in extra:
            bad.append((v, values[v], None))
        return bad

    wrong = {}
    vals = {}
    layout = {}
    if tab.values is not None:
        ctx.count("table_checked")
        if len(tab.values) != len(basis):
            layout["table"] = "table has %d entries, basis(d=%d, cutoff=%d) has %d" % (len(tab.values), dd, cutoff, len(basis))
        else:
            vals["table"] = dict(zip(basis, tab.values))
    if mp.values is not None:
        ctx.count("map_checked")
        if list(mp.values.keys()) != basis:
            layout["map"] = "keys of the map are not the Fock basis of (d=%d, cutoff=%d) in the documented order" % (dd, cutoff)
        else:
            vals["map"] = mp.values
    if sv.values is not None:
        ctx.count("state_vector_checked")
        if len(sv.values) != len(basis):
            layout["state_vector"] = "state vector has %d entries, basis has %d" % (len(sv.values), len(basis))
        else:
            vals["state_vector"] = dict(zip(basis, [complex(x) for x in sv.values]))
    if single.values is not None:
        ctx.count("single_checked")
        vals["single"] = single.values
    for name, values in vals.items():
        bad = compare(name, values)
        if bad:
            wrong[name] = bad
    sum_tol = (ATOL + RTOL) * (1 + len(basis))
    norm_bad = None
    if norm.values is not None and postsel and not truncated:
        ctx.count("norm_checked")
        if abs(norm.values - success) > sum_tol:
            norm_bad = "norm %r, post-selection success probability %r" % (norm.values, success)

    # A post-selected state whose table comes from the general (loss / distinguishability) routine: exceptions and
    # wrong LAYOUT of the table family {fock_probabilities, fock_probabilities_map, norm} are ONE finding (the basis of the
    # table is built from the wrong mode count / cutoff); wrong VALUES in a table of the right layout go the normal way
    if postsel and site_table == SITE_GENERAL:
        symptoms = []
        for nm in ("table", "map", "norm"):
            if nm in raised:
                symptoms.append("%s raises %s (%s)" % (nm, type(raised[nm][1]).__name__, str(raised[nm][1])[:90]))
                del raised[nm]
            if nm in layout:
                symptoms.append(layout.pop(nm))
        if symptoms:
            if norm_bad:
                symptoms.append(norm_bad)
                norm_bad = None
            for nm in ("table", "map"):
                vals.pop(nm, None)
                wrong.pop(nm, None)
            findings.append((
                base_sig(sub="postselected_table", site="PassiveState.fock_probabilities/get_postselected_fock_basis",
                         input_class="postselected+lossy-or-distinguishable"),
                {"summary": "remaining modes %s, post-selected %s, d=%d, cutoff=%d: %s" % (active, model.post, dd, cutoff, "; ".join(symptoms)), "symptoms": symptoms},
                "pst%d" % len(symptoms)))

    for name, (site, exc) in sorted(raised.items()):
        findings.append((
            base_sig(sub="interface_raises", site=site, interface=name, exception=type(exc).__name__, input_class=cls_in + ("+postselected" if postsel else "")),
            {"summary": "%s raised %s: %s" % (name, type(exc).__name__, str(exc)[:300])}, name + type(exc).__name__))
    for name, text in sorted(layout.items()):
        findings.append((base_sig(sub="layout", site="PassiveState." + {"table": "fock_probabilities", "map": "fock_probabilities_map", "state_vector": "state_vector"}[name],
                                  input_class=cls_in + ("+postselected" if postsel else "")), {"summary": text}, "layout" + name))
    if norm_bad and "table" not in wrong and "table" in vals:  # norm IS the sum of the table: a wrong table is reported once
        findings.append((base_sig(sub="norm_vs_success_probability", site="PassiveState.norm", input_class=cls_in), {"summary": norm_bad}, "norm"))

    # group the wrong interfaces by the library routine that produced them
    by_site = {}
    for name in wrong:
        site = {"table": site_table, "map": site_table, "state_vector": SITE_SLOS, "single": site_single}[name]
        by_site.setdefault(site, []).append(name)
    mutant = None
    for site, names in sorted(by_site.items()):
        cause = "unexplained"
        if site == SITE_GENERAL:
            if mutant is None:
                mfull = R.kernel_table(model.occ, model.T, model.gram(), transpose_detected=True)
                mutant, _ = R.restrict(mfull, model.post)
            if all(_close(vals[nm].get(v, 0.0), mutant.get(v, 0.0)) for nm in names for v in basis):
                cause = "detected-term-transposed"
        bad = wrong[names[0]]
        sectors = sorted({"lost-photon" if sum(v) + npost < n else ("all-detected" if sum(v) + npost == n else "excess") for v, _g, _e in bad})
        ifaces = "+".join(sorted(set("table" if nm == "map" else nm for nm in names)))
        detail = {
            "summary": "%s (%s) differs from the dilation reference on %d of %d outcomes, sectors %s, cause %s; first: outcome %s got %r expected %r; table sum %r, reference sum %r"
            % (ifaces, site, len(bad), len(basis), sectors, cause, bad[0][0], bad[0][1], bad[0][2],
               (sum(vals["table"].values()).real if "table" in vals else None), sum(exp.values())),
            "mismatches": [[list(v), _enc(g) if g is not None else None, e] for v, g, e in bad[:6]],
            "sectors": sectors,
            "wrong_interfaces": ifaces,
            "right_interfaces": "+".join(sorted(nm for nm in vals if nm not in wrong)),
        }
        findings.append((
            base_sig(sub="probabilities_vs_dilation", site=site, input_class=cls_in, cause=cause),
            detail, "%s/%s/%d" % (site, ifaces, len(bad))))

    # (1) pairwise agreement among the interfaces that are individually right
    names_ok = [nm for nm in vals if nm not in wrong]
    for i in range(len(names_ok)):
        for j in range(i + 1, len(names_ok)):
            a, b = vals[names_ok[i]], vals[names_ok[j]]
            badp = [v for v in basis if abs(a[v] - b[v]) > 2 * (ATOL + RTOL)]
            if badp:
                findings.append((base_sig(sub="interfaces_disagree", site="%s~%s" % (names_ok[i], names_ok[j]), input_class=cls_in), {"summary": "%s vs %s differ on %s" % (names_ok[i], names_ok[j], badp[:3])}, "pair"))

    # (2) non-negativity (only for interfaces not already reported wrong)
    for nm in names_ok:
        neg = [(v, x) for v, x in vals[nm].items() if x.real < -NEG_TOL]
        if neg:
            findings.append((base_sig(sub="negative_probability", site=nm, input_class=cls_in), {"summary": "%s has %d negative values, first %r" % (nm, len(neg), neg[0])}, "neg" + nm))

    # (3) normalisation / success probability
    if "table" in vals and "table" not in wrong:
        total = sum(vals["table"].values()).real
        target = sum(exp.values())
        if not truncated:
            target = success if postsel else 1.0
        ctx.count("sum_checked")
        if abs(total - target) > sum_tol:
            findings.append((base_sig(sub="normalisation", site="PassiveState.fock_probabilities", input_class=cls_in), {"summary": "table sums to %r, expected %r" % (total, target)}, "sum"))

    # ---------------- marginals ----------------------------------------------------------
    findings.extend(_check_marginals(ctx, d, cfg_cutoff, prog, state, model, full, ref, dd, active, postsel, cls_in, vals.get("table") if ("table" not in wrong and not truncated) else None))

    if len(ctx.samples) < ctx.max_samples and model.depth >= 1:
        ctx.sample({"program": _short(prog), "d_remaining": dd, "cutoff": cutoff, "lossy": model.lossy, "postselected": {str(k): v for k, v in model.post.items()},
                    "interfaces": sorted(vals), "reference_success_probability": success, "table_sum": (sum(vals["table"].values()).real if "table" in vals else None)})
    return findings


SITE_MEASUREMENT = "passive/simulation_steps.particle_number_measurement(shots=None)->PassiveState.get_marginal_fock_probabilities"


def _check_marginals(ctx, d, cfg_cutoff, prog, state, model, full, ref, dd, active, postsel, cls_in, lib_table):
    """A. `PassiveState.get_marginal_fock_probabilities(M)` for every ordered subset M of the remaining modes.  The
    repository's own tests (tests/_simulators/passive/test_state.py: test_marginal_probabilities_4_modes_postselected,
    test_postselecting_on_same_mode_raises_PiquassoException) pin the meaning of M on a post-selected state: ORIGINAL
    mode labels.  So M is passed as original labels and compared with the marginal of the table at the corresponding
    positions.
    B. the same marginal through the public path: the program + `ParticleNumberMeasurement` on M (original labels, as
    every instruction of a program), shots=None; the branch frequencies are the marginal probabilities."""
    import piquasso as pq
    from mc.refmodel import passiveref as R
    from piquasso.api.exceptions import NotImplementedCalculation, PiquassoException

    findings = []
    if dd == 0:
        return findings
    subsets = [M for k in range(1, dd + 1) for M in itertools.permutations(range(dd), k)]
    tag = ("postselected" if postsel else "not-postselected") + ("" if cls_in.startswith("symmetric") else "+" + cls_in)

    def judge(got, expected, M):
        keys = set(got) | set(expected)
        ctx.count("interface_values_compared", len(keys))
        ok = all(_close(got.get(k, 0.0), expected.get(k, 0.0)) and abs(complex(got.get(k, 0.0)).imag) <= ATOL for k in keys)
        if ok and lib_table is not None:  # (1) against the library's own table
            mt = R.marginal({v: x.real for v, x in lib_table.items()}, M)
            ok = all(abs(got.get(k, 0.0) - mt.get(k, 0.0)) <= 2 * (ATOL + RTOL) for k in set(got) | set(mt))
        if ok and any(complex(x).real < -NEG_TOL for x in got.values()):
            ok = False
        return ok

    def show(got, raised):
        if raised is not None:
            return "raised %s: %s" % (type(raised).__name__, str(raised)[:120])
        return {str(k): round(complex(v).real, 12) for k, v in sorted(got.items())}

    # ---- A: the state method ------------------------------------------------------------
    bad = []
    for M in subsets:
        Mabs = tuple(active[i] for i in M)
        try:
            got = state.get_marginal_fock_probabilities(Mabs)
            got = {tuple(int(x) for x in k): _num(v) for k, v in got.items()}
            raised = None
        except NotImplementedCalculation:
            ctx.count("unsupported_cells")
            ctx.count("unsupported_marginal")
            return findings
        except Exception as e:  # noqa
            got, raised = None, e
        ctx.count("marginal_checked")
        expected = R.marginal(ref, M)
        if got is not None and judge(got, expected, M):
            continue
        bad.append((list(Mabs), show(got, raised), {str(k): round(v, 12) for k, v in sorted(expected.items())}))
    if bad:
        findings.append((
            {"check": "C05", "sub": "marginal_vs_table", "site": SITE_MARGINAL, "input_class": tag},
            {"summary": "%d of %d ordered subsets of the remaining modes %s (post-selected %s) differ from the marginal of the table; first: original modes %s got %s expected %s"
             % (len(bad), len(subsets), active, model.post, bad[0][0], bad[0][1], bad[0][2]), "mismatches": bad[:4]}, "marg%d" % len(bad)))

    # ---- B: the public path ---------------------------------------------------------------
    bad_rel, bad_other = [], []
    for M in subsets:
        if len(M) == dd:
            continue  # measuring every remaining mode is not a marginal (C03's subject)
        Mabs = tuple(active[i] for i in M)
        prog2 = prog + [step("ParticleNumberMeasurement", Mabs)]
        ctx.count("programs_executed")
        ctx.count("measurement_programs_executed")
        got, raised = None, None
        try:
            config = pq.Config(cutoff=cfg_cutoff) if cfg_cutoff is not None else pq.Config()
            result = pq.PassiveSimulator(d=d, config=config).execute_instructions([_instruction(pq, st) for st in prog2], shots=None)
            got = {}
            for br in result.branches:
                key = tuple(int(x) for x in br.outcome)
                got[key] = got.get(key, 0.0) + _num(br.frequency)
        except NotImplementedCalculation:
            ctx.count("unsupported_cells")
            ctx.count("unsupported_measurement_marginal")
            break
        except Exception as e:  # noqa
            raised = e
        ctx.count("measurement_marginal_checked")
        expected = R.marginal(ref, M)
        if got is not None and judge(got, expected, M):
            continue
        # does the answer belong to the question "modes whose ORIGINAL label equals the RELATIVE index"?
        explained = False
        if postsel:
            if set(M) & set(model.post):
                explained = isinstance(raised, PiquassoException)
            elif got is not None:
                joint = {s: p for s, p in full.items() if all(s[m] == c for m, c in model.post.items())}
                absm = R.marginal(joint, M)
                explained = all(_close(got.get(k, 0.0), absm.get(k, 0.0)) for k in set(got) | set(absm))
        rec = (list(Mabs), list(M), show(got, raised), {str(k): round(v, 12) for k, v in sorted(expected.items())})
        (bad_rel if explained else bad_other).append(rec)
    if bad_rel:
        findings.append((
            {"check": "C05", "sub": "marginal_vs_table", "site": SITE_MEASUREMENT, "input_class": "postselected+relative-modes"},
            {"summary": "exact (shots=None) ParticleNumberMeasurement on %d of the ordered proper subsets of the remaining modes %s (post-selected %s) does not return the marginal of the "
             "table: the answer is the one for the modes whose ORIGINAL label equals the RELATIVE index; first: measured original modes %s (relative %s) got %s expected %s"
             % (len(bad_rel), active, model.post, bad_rel[0][0], bad_rel[0][1], bad_rel[0][2], bad_rel[0][3]),
             "mismatches": bad_rel[:4]}, "rel%d" % len(bad_rel)))
    if bad_other:
        findings.append((
            {"check": "C05", "sub": "marginal_vs_table", "site": SITE_MEASUREMENT, "input_class": tag + "+unexplained"},
            {"summary": "exact ParticleNumberMeasurement on %d ordered proper subsets differs from the marginal of the reference table; first: original modes %s got %s expected %s"
             % (len(bad_other), bad_other[0][0], bad_other[0][2], bad_other[0][3]), "mismatches": bad_other[:4]}, "other%d" % len(bad_other)))
    return findings
