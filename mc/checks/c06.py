"""C06 -- Fock-basis enumeration and index functions are mutually inverse.

Explicit-state enumeration: the state space is the truncated Fock basis itself, the
transition is the successor step of the enumeration order (total ascending, then
anti-lexicographic).  Every basis vector of every (d, cutoff) in the box is visited; in
each state the implementation's rank functions (scalar, vectorised, sub-space) are
validated against the big-integer reference ranking, and every successor step of the
implementation's enumeration is validated against the reference successor function.
"""

import itertools

LEVEL = "model_checking"


def _items(tier):
    if tier == "quick":
        D, C, FD = 5, 7, 8
    else:
        D, C, FD = 7, 9, 10
    items = []
    for d in range(1, D + 1):
        for c in range(1, C + 1):
            items.append(("bos", d, c))
    for d in range(1, FD + 1):
        items.append(("ferm", d))
    for boxes in range(1, 5):
        for particles in range(0, 5 if tier == "quick" else 6):
            items.append(("pbk", boxes, particles))
    for d in range(1, 4):
        for c in range(1, 5 if tier == "quick" else 6):
            items.append(("getitem", d, c))
    for d in range(1, 4 if tier == "quick" else 5):
        for c in range(1, 5 if tier == "quick" else 6):
            items.append(("indexlists", d, c))
            items.append(("postselbasis", d, c))
    for d in range(1, 9 if tier == "quick" else 13):
        items.append(("frontier", d))
    for d in range(1, 6 if tier == "quick" else 7):
        items.append(("findexlists", d))
    return items


def run(ctx, builddir):
    from mc import core

    items = _items(ctx.tier)
    if getattr(ctx, "only", None):
        items = [it for it in items if it[0] == ctx.only]
    ctx.rule = (
        "every (d, cutoff) in the box: full basis vs big-integer reference; a case = one basis vector "
        "(state) with its successor step (transition); distinct = distinct (kind, d, cutoff, vector) keys; "
        "non-trivial = every vector (each one exercises rank, vectorised rank, sub-space rank, successor)"
    )
    ctx.assume("reference = math.comb based ranking in mc/refmodel/fockref.py (independent of piquasso)")
    ctx.assume("int32 frontier: for each d the largest cutoff with dimension < 2**31, first/last/sector-boundary vectors only")
    core.pmap(ctx, "mc.checks.c06", "work", items, builddir)
    c = ctx.counters
    return {
        "states": c.get("states", 0),
        "transitions": c.get("transitions", 0),
        "traces_validated_against_impl": c.get("impl_checks", 0),
        "evaluations": c.get("impl_checks", 0),
        "explanation": "states = basis vectors enumerated (bosonic + fermionic); transitions = successor steps of the "
        "implementation's enumeration validated against the reference successor; traces_validated = individual "
        "implementation answers (rank / dim / key lookups / index-list entries) compared with the reference",
    }


def replay(ctx, case, signature):
    work(ctx, tuple(case["item"]))


def _viol(ctx, item, sub, detail, **sig):
    s = {"check": "C06", "kind": item[0], "sub": sub}
    s.update(sig)
    ctx.violation(s, {"item": list(item), "detail": detail}, "%s %s: %s" % (item, sub, detail))


def work(ctx, item):
    kind = item[0]
    globals()["_" + kind](ctx, item)


def _bos(ctx, item):
    import numpy as np
    from mc.refmodel import fockref as R
    from piquasso._math import fock as F, indices as I, combinatorics as Cb

    _, d, c = item
    ref = R.basis(d, c)
    basis = F.nb_get_fock_space_basis(d, c)
    ctx.count("impl_checks")
    if basis.shape != (len(ref), d):
        _viol(ctx, item, "basis_shape", "shape %s expected %s" % (basis.shape, (len(ref), d)))
        return
    if int(F.cutoff_fock_space_dim(c, d)) != R.dim(d, c):
        _viol(ctx, item, "cutoff_fock_space_dim", "%s != %s" % (F.cutoff_fock_space_dim(c, d), R.dim(d, c)))
    dims = F.cutoff_fock_space_dim_array(np.arange(c + 1), d)
    if [int(x) for x in dims] != [R.dim(d, k) for k in range(c + 1)]:
        _viol(ctx, item, "cutoff_fock_space_dim_array", "%s" % (dims,))
    ctx.count("impl_checks", 2)
    cached = F.get_fock_space_basis(d, c)
    if not np.array_equal(cached, basis):
        _viol(ctx, item, "cached_basis", "lru-cached basis differs from fresh one")
    bl = [tuple(int(x) for x in row) for row in basis]
    seen = set()
    bad_order = bad_succ = bad_rank = bad_sub = 0
    first_bad = None
    for i, v in enumerate(bl):
        ctx.count("states")
        ctx.note_distinct(("bos", d, c, v))
        seen.add(v)
        if v != ref[i]:
            bad_order += 1
            first_bad = first_bad or ("order", i, v, ref[i])
        if i + 1 < len(bl):
            ctx.count("transitions")
            if R.successor(v) != bl[i + 1]:
                bad_succ += 1
                first_bad = first_bad or ("successor", i, v, bl[i + 1], R.successor(v))
        r = int(I.get_index_in_fock_space(v))
        r2 = int(I.get_index_in_fock_space(np.array(v, dtype=np.int32)))
        ctx.count("impl_checks", 2)
        if r != R.rank(v) or r2 != R.rank(v) or r != i:
            bad_rank += 1
            first_bad = first_bad or ("rank", i, v, r, r2, R.rank(v))
        s = int(I.get_index_in_fock_subspace(np.array(v, dtype=np.int64)))
        ctx.count("impl_checks")
        if s != R.subspace_rank(v):
            bad_sub += 1
            first_bad = first_bad or ("subspace_rank", i, v, s, R.subspace_rank(v))
    if len(seen) != len(bl):
        _viol(ctx, item, "basis_duplicates", "%d vectors, %d distinct" % (len(bl), len(seen)))
    if bad_order:
        _viol(ctx, item, "basis_order", "%d positions differ from reference; first %s" % (bad_order, first_bad))
    if bad_succ:
        _viol(ctx, item, "successor", "%d successor steps differ; first %s" % (bad_succ, first_bad))
    if bad_rank:
        _viol(ctx, item, "get_index_in_fock_space", "%d ranks differ; first %s" % (bad_rank, first_bad))
    if bad_sub:
        _viol(ctx, item, "get_index_in_fock_subspace", "%d differ; first %s" % (bad_sub, first_bad))
    # vectorised
    for dt in (np.int32, np.int64):
        arr = np.array(ref, dtype=dt).reshape(len(ref), d)
        got = I.get_index_in_fock_space_array(arr)
        ctx.count("impl_checks", len(ref))
        if [int(x) for x in got] != list(range(len(ref))):
            _viol(ctx, item, "get_index_in_fock_space_array", "dtype %s: mismatch" % dt.__name__, dtype=dt.__name__)
        got = I.get_index_in_fock_subspace_array(arr)
        if [int(x) for x in got] != [R.subspace_rank(v) for v in ref]:
            _viol(ctx, item, "get_index_in_fock_subspace_array", "dtype %s: mismatch" % dt.__name__, dtype=dt.__name__)
    # 2-level batched shape
    if len(ref) >= 2:
        arr = np.array(ref, dtype=np.int64).reshape(len(ref), d)
        stacked = np.stack([arr, arr[::-1]])
        got = I.get_index_in_fock_space_array(stacked)
        if got.shape != (2, len(ref)) or [int(x) for x in got[1]] != list(range(len(ref)))[::-1]:
            _viol(ctx, item, "get_index_in_fock_space_array", "batched (2,n,d) input mismatch", dtype="batched")
    # sectors, partitions
    for n in range(c):
        ctx.count("impl_checks", 2)
        if int(F.symmetric_subspace_cardinality(d, n)) != R.sector_dim(d, n):
            _viol(ctx, item, "symmetric_subspace_cardinality", "n=%d" % n)
        p = Cb.partitions(d, n)
        if [tuple(int(x) for x in row) for row in p] != R.sector(d, n):
            _viol(ctx, item, "partitions", "n=%d differs from reference sector" % n)
    ctx.sample({"kind": "bos", "d": d, "cutoff": c, "basis_size": len(bl), "last_vector": list(bl[-1])})


def _ferm(ctx, item):
    import numpy as np
    from mc.refmodel import fockref as R
    from piquasso.fermionic import _utils as U

    _, d = item
    for cutoff in range(1, d + 2):
        ref = R.f_basis(d, cutoff)
        basis = U.get_fock_space_basis(d, cutoff)
        bl = [tuple(int(x) for x in row) for row in basis]
        ctx.count("impl_checks", 2)
        if int(U.get_cutoff_fock_space_dimension(d, cutoff)) != len(ref):
            _viol(ctx, item, "f_dim", "cutoff %d: %s != %s" % (cutoff, U.get_cutoff_fock_space_dimension(d, cutoff), len(ref)))
        if bl != ref:
            first = next((i for i, (a, b) in enumerate(zip(bl, ref)) if a != b), min(len(bl), len(ref)))
            _viol(ctx, item, "f_basis", "cutoff %d: differs from reference at %d (len %d vs %d)" % (cutoff, first, len(bl), len(ref)))
            continue
        if cutoff != d + 1:
            continue
        bad = None
        for i, v in enumerate(ref):
            ctx.count("states")
            ctx.note_distinct(("ferm", d, v))
            occ = np.array(v, dtype=np.int64)
            r = int(U.get_fock_space_index(occ))
            s = int(U.get_fock_subspace_index(occ))
            ctx.count("impl_checks", 2)
            if r != i or r != R.f_rank(v) or s != R.f_subspace_rank(v):
                bad = bad or ("rank", v, r, s, i)
            fq = np.array([k for k, x in enumerate(v) if x], dtype=np.int64)
            if int(U.get_fock_subspace_index_first_quantized(fq, d)) != R.f_subspace_rank(v):
                bad = bad or ("fq_rank", v)
            if i + 1 < len(ref):
                ctx.count("transitions")
                nxt = U.next_second_quantized(occ.copy())
                if tuple(int(x) for x in nxt) != ref[i + 1]:
                    bad = bad or ("next_second_quantized", v, tuple(int(x) for x in nxt), ref[i + 1])
                nfq = U.next_first_quantized(fq.copy(), d)
                exp = tuple(k for k, x in enumerate(ref[i + 1]) if x)
                if tuple(int(x) for x in nfq) != exp:
                    bad = bad or ("next_first_quantized", v, tuple(int(x) for x in nfq), exp)
        if bad:
            _viol(ctx, item, "f_index", "first mismatch %s" % (bad,))
    for k in range(d + 1):
        if int(U.get_fock_subspace_dimension(d, k)) != len(R.f_sector(d, k)):
            _viol(ctx, item, "f_sector_dim", "k=%d" % k)
    dims = U.cutoff_fock_space_dim_array(np.arange(d + 2), d)
    if [int(x) for x in dims] != [R.f_dim(d, k) for k in range(d + 2)]:
        _viol(ctx, item, "f_dim_array", "%s" % (dims,))
    b2f = U.binary_to_fock_indices(d)
    f2b = U.fock_to_binary_indices(d)
    ref = R.f_basis(d, d + 1)
    ctx.count("impl_checks", 2 * len(ref))
    exp_b2f = [int("".join(map(str, v)), 2) for v in ref]
    if [int(x) for x in b2f] != exp_b2f:
        _viol(ctx, item, "binary_to_fock_indices", "differs from reference")
    if [int(f2b[b]) for b in exp_b2f] != list(range(len(ref))) or sorted(int(x) for x in f2b) != list(range(len(ref))):
        _viol(ctx, item, "fock_to_binary_indices", "not the inverse permutation")
    ctx.sample({"kind": "ferm", "d": d, "basis_size": len(ref), "vector_5": list(ref[min(5, len(ref) - 1)])})


def _pbk(ctx, item):
    from mc.refmodel import fockref as R
    from piquasso._math import combinatorics as Cb

    _, boxes, particles = item
    full = R.sector(boxes, particles)
    n = 0
    for k in range(0, boxes + 1):
        for cb in itertools.combinations(range(boxes), k):
            for perm_cb in ([cb] if k < 2 else [cb, cb[::-1]]):
                for maxes in itertools.product(range(0, particles + 2), repeat=k):
                    for k_limit in range(0, particles + 2):
                        exp = [
                            v
                            for v in full
                            if all(v[m] <= mx for m, mx in zip(perm_cb, maxes))
                            and sum(mx - v[m] for m, mx in zip(perm_cb, maxes)) <= k_limit
                        ]
                        got = Cb.partitions_bounded_k(boxes, particles, list(perm_cb), list(maxes), k_limit)
                        n += 1
                        ctx.count("impl_checks")
                        gl = [tuple(int(x) for x in row) for row in got]
                        if gl != exp:
                            _viol(
                                ctx, item, "partitions_bounded_k",
                                "constrained=%s max=%s k_limit=%d got %s expected %s" % (perm_cb, maxes, k_limit, gl[:6], exp[:6]),
                            )
                            return
                        if exp and len(exp) != len(full):
                            ctx.note_distinct(("pbk", boxes, particles, perm_cb, maxes, k_limit))
    ctx.sample({"kind": "pbk", "boxes": boxes, "particles": particles, "constraint_sets": n})


class _Fail(Exception):
    pass


def _getitem(ctx, item):
    import numpy as np
    import piquasso as pq
    from mc.refmodel import fockref as R

    _, d, c = item
    ref = R.basis(d, c)
    state = pq.PureFockState(d=d, connector=pq.NumpyConnector(), config=pq.Config(cutoff=c))
    vec = np.arange(1, len(ref) + 1) * (1.0 + 0.5j)
    state.state_vector = vec.copy()
    lookup = {v: vec[i] for i, v in enumerate(ref)}
    bad = None
    for i, v in enumerate(ref):
        forms = [("tuple", tuple(v)), ("list", list(v)), ("ndarray", np.array(v)), ("ndarray32", np.array(v, dtype=np.int32))]
        if d == 1:
            forms.append(("int", v[0]))
        for name, key in forms:
            ctx.count("impl_checks")
            try:
                got = state[key]
            except Exception as e:  # a listed vector must be addressable
                bad = bad or (name, v, "raised %r" % e)
                continue
            if not np.all(got == vec[i]) or np.ndim(got) != 0:
                bad = bad or (name, v, repr(got), repr(vec[i]))
        ctx.count("states")
        ctx.note_distinct(("getitem", d, c, v))
    # 2-D keys
    if len(ref) > 1:
        arr = np.array(ref[::-1])
        ctx.count("impl_checks")
        got = state[arr]
        if not np.array_equal(got, vec[::-1]):
            bad = bad or ("2d", "all reversed")
    # slices
    slices = [slice(None), slice(1, None), slice(None, None, 2), slice(None, 2), slice(None, None, -1)]
    for pos in range(d):
        for fixed in itertools.product(range(c), repeat=d - 1):
            if sum(fixed) >= c:
                continue
            for sl in slices:
                key = list(fixed[:pos]) + [sl] + list(fixed[pos:])
                vals = list(range(c - sum(fixed)))[sl]
                exp = []
                for x in vals:
                    occ = tuple(fixed[:pos]) + (x,) + tuple(fixed[pos:])
                    exp.append(lookup[occ])
                ctx.count("impl_checks")
                try:
                    got = state[tuple(key)]
                except Exception as e:
                    bad = bad or ("slice", str(key), "raised %r" % e)
                    continue
                if not np.array_equal(np.asarray(got), np.asarray(exp)):
                    bad = bad or ("slice", str(key), repr(got), repr(exp))
    # out of range keys must raise, never alias another amplitude
    for v in R.sector(d, c):
        ctx.count("impl_checks")
        try:
            got = state[tuple(v)]
            bad = bad or ("beyond_cutoff", v, "returned %r" % (got,))
        except (ValueError, IndexError):
            pass
    if bad:
        _viol(ctx, item, "PureFockState.__getitem__", "first mismatch %s" % (bad,), form=bad[0])
    ctx.sample({"kind": "getitem", "d": d, "cutoff": c})


def _indexlists(ctx, item):
    import numpy as np
    from mc.refmodel import fockref as R
    from piquasso._simulators.fock import simulation_steps as S

    _, d, c = item
    bad = None
    # single-mode index matrices
    for mode in range(d):
        lst = S.nb_calculate_state_index_matrix_list(d, c, mode)
        aux = [m for m in range(d) if m != mode]
        if len(lst) != c:
            bad = bad or ("state_index_matrix_list_len", mode)
            continue
        for n in range(c):
            sec = R.sector(d - 1, n)
            M = lst[n]
            if M.shape != (c - n, len(sec)):
                bad = bad or ("state_index_matrix_shape", mode, n, M.shape)
                continue
            for i, auxocc in enumerate(sec):
                for j in range(c - n):
                    occ = [0] * d
                    for a, x in zip(aux, auxocc):
                        occ[a] = x
                    occ[mode] = j
                    ctx.count("impl_checks")
                    if int(M[j, i]) != R.rank(tuple(occ)):
                        bad = bad or ("state_index_matrix", mode, n, i, j)
    # multi-mode index lists: every ordered tuple of modes
    for k in range(1, d + 1):
        for modes in itertools.permutations(range(d), k):
            if d > 3 and k > 2 and list(modes) != sorted(modes) and modes[0] != max(modes):
                continue
            lst = S.nb_calculate_index_list_for_appling_interferometer(tuple(modes), d, c)
            aux = [m for m in range(d) if m not in modes]
            auxbasis = R.basis(d - k, c)
            for n in range(c):
                sec = R.sector(k, n)
                auxn = [a for a in auxbasis if sum(a) < c - n]
                M = lst[n]
                if M.shape != (len(sec), len(auxn)):
                    bad = bad or ("index_list_shape", modes, n, M.shape, (len(sec), len(auxn)))
                    continue
                for i2, sub in enumerate(sec):
                    for i1, a in enumerate(auxn):
                        occ = [0] * d
                        for m, x in zip(modes, sub):
                            occ[m] = x
                        for m, x in zip(aux, a):
                            occ[m] = x
                        ctx.count("impl_checks")
                        if int(M[i2, i1]) != R.rank(tuple(occ)):
                            bad = bad or ("index_list", modes, n, i2, i1, int(M[i2, i1]), R.rank(tuple(occ)))
            ctx.note_distinct(("indexlists", d, c, modes))
            # projection indices for every outcome on these modes
            for outcome in R.basis(k, c):
                got = S.get_projection_operator_indices(d, c, tuple(modes), np.array(outcome))
                newc = c - sum(outcome)
                exp = []
                for a in R.basis(d - k, newc):
                    occ = [0] * d
                    for m, x in zip(modes, outcome):
                        occ[m] = x
                    for m, x in zip(aux, a):
                        occ[m] = x
                    exp.append(R.rank(tuple(occ)))
                ctx.count("impl_checks")
                if [int(x) for x in got] != exp:
                    bad = bad or ("projection_indices", modes, outcome)
    if bad:
        _viol(ctx, item, bad[0], "first mismatch %s" % (bad,))
    ctx.sample({"kind": "indexlists", "d": d, "cutoff": c})


def _postselbasis(ctx, item):
    import numpy as np
    from mc.refmodel import fockref as R
    from piquasso._math import fock as F

    _, d, c = item
    full = R.basis(d, c)
    bad = None
    for k in range(0, d + 1):
        for modes in itertools.combinations(range(d), k):
            for photons in R.basis(k, c) if k else [()]:
                got = F.get_postselected_fock_basis(d, c, tuple(modes), tuple(photons))
                exp = [v for v in full if all(v[m] == p for m, p in zip(modes, photons))]
                ctx.count("impl_checks")
                gl = [tuple(int(x) for x in row) for row in np.asarray(got).reshape(-1, d)]
                if gl != exp:
                    bad = bad or (modes, photons, gl[:4], exp[:4])
                ctx.note_distinct(("postselbasis", d, c, modes, photons))
    if bad:
        _viol(ctx, item, "get_postselected_fock_basis", "first mismatch %s" % (bad,))


def _frontier(ctx, item):
    import numpy as np
    from mc.refmodel import fockref as R
    from piquasso._math import fock as F, indices as I

    _, d = item
    LIM = 2**31
    c = 1
    while R.dim(d, c + 1) < LIM and c < 200000:
        c += 1
    if d == 1:
        c = min(c, 100000)
    vectors = []
    for n in sorted({0, 1, c // 2, c - 2, c - 1} & set(range(c))):
        first = (n,) + (0,) * (d - 1)
        last = (0,) * (d - 1) + (n,)
        vectors += [first, last]
        if d >= 2:
            vectors.append((n // 2,) + (0,) * (d - 2) + (n - n // 2,))
            vectors.append(tuple([n // d] * (d - 1) + [n - (n // d) * (d - 1)]))
    vectors = sorted(set(vectors))
    bad = None
    ctx.count("impl_checks")
    if int(F.cutoff_fock_space_dim(c, d)) != R.dim(d, c):
        bad = ("cutoff_fock_space_dim", d, c, int(F.cutoff_fock_space_dim(c, d)), R.dim(d, c))
    arr_dims = F.cutoff_fock_space_dim_array(np.array([c, c - 1 if c > 1 else 1]), d)
    if int(arr_dims[0]) != R.dim(d, c):
        bad = bad or ("cutoff_fock_space_dim_array", d, c, int(arr_dims[0]), R.dim(d, c))
    for v in vectors:
        exp = R.rank(v)
        assert exp < LIM
        ctx.count("states")
        ctx.note_distinct(("frontier", d, v))
        got = int(I.get_index_in_fock_space(v))
        got_a = int(I.get_index_in_fock_space_array(np.array([v], dtype=np.int64))[0])
        got_a32 = int(I.get_index_in_fock_space_array(np.array([v], dtype=np.int32))[0])
        ctx.count("impl_checks", 3)
        if got != exp:
            bad = bad or ("get_index_in_fock_space", d, c, v, got, exp)
        if got_a != exp or got_a32 != exp:
            bad = bad or ("get_index_in_fock_space_array", d, c, v, got_a, got_a32, exp)
        sexp = R.subspace_rank(v)
        gs = int(I.get_index_in_fock_subspace(np.array(v, dtype=np.int64)))
        if gs != sexp:
            bad = bad or ("get_index_in_fock_subspace", d, c, v, gs, sexp)
    if bad:
        _viol(ctx, item, bad[0], "int32 frontier: %s" % (bad,), frontier=True)
    ctx.sample({"kind": "frontier", "d": d, "largest_cutoff_below_2^31": c, "vectors": len(vectors)})


def _findexlists(ctx, item):
    """fermionic index lists used to apply passive gates (connectors/connections.py): for every cutoff
    1..d+1 -- truncated cutoffs included -- and every mode window (plus ascending non-window subsets),
    entry [i2, i1] of the n-particle matrix must be the fermionic rank of the assembled occupation vector,
    and the matrix must list exactly the auxiliary configurations with fewer than cutoff - n particles."""
    import numpy as np
    from mc.refmodel import fockref as R
    from piquasso._simulators.connectors import connections as Cn

    _, d = item
    bad = None
    for cutoff in range(1, d + 2):
        dim = R.f_dim(d, cutoff)
        for k in range(1, d + 1):
            for modes in itertools.combinations(range(d), k):
                lst = Cn._nb_calculate_index_list_for_appling_interferometer(tuple(modes), d, cutoff)
                aux = [m for m in range(d) if m not in modes]
                auxbasis = R.f_basis(d - k, cutoff)
                if len(lst) != cutoff:
                    bad = bad or ("len", cutoff, modes, len(lst))
                    continue
                seen = set()
                for n in range(cutoff):
                    sec = R.f_sector(k, n) if n <= k else []
                    auxn = [a for a in auxbasis if sum(a) < cutoff - n]
                    M = np.asarray(lst[n])
                    ctx.count("impl_checks")
                    if M.shape != (len(sec), len(auxn)):
                        bad = bad or ("shape", cutoff, modes, n, tuple(M.shape), (len(sec), len(auxn)))
                        continue
                    for i2, sub in enumerate(sec):
                        for i1, a in enumerate(auxn):
                            occ = [0] * d
                            for m, x in zip(modes, sub):
                                occ[m] = x
                            for m, x in zip(aux, a):
                                occ[m] = x
                            ctx.count("impl_checks")
                            exp = R.f_rank(tuple(occ))
                            if int(M[i2, i1]) != exp or exp >= dim:
                                bad = bad or ("entry", cutoff, modes, n, i2, i1, int(M[i2, i1]), exp)
                            seen.add(int(M[i2, i1]))
                if not bad and seen != set(range(dim)):
                    bad = bad or ("not_a_bijection_onto_the_basis", cutoff, modes, len(seen), dim)
                ctx.note_distinct(("findexlists", d, cutoff, modes))
    if bad:
        _viol(ctx, item, "fermionic_index_list", "first mismatch %s" % (bad,), what=bad[0])
    ctx.sample({"kind": "findexlists", "d": d})
