"""C11 -- seeded runs are reproducible and independent of parallel scheduling.

Four bounded-exhaustive explorations, every execution on the REAL library (real random number
generators: this property is about seeds):

(i)   HISTORIES (``--only hist``).  The event sequence
          cfg = Config(seed_sequence=s, ...); sim = Simulator(d, config=cfg); r = sim.execute(program, shots); r.samples
      is interleaved at EVERY position (before, between and after the events) with every sequence of <= 2
      intruder events from mc/c11_engine.py:INTRUDERS (other Configs, other simulators' complete sampling runs,
      the process-global ``random`` / ``numpy.random`` state, as_code, validate, building another Program), for every
      sampling program of mc/c11_programs.py:HISTORY_PROGRAMS.  Oracle: ``Result.samples`` and the branches
      (outcome, frequency, post-measurement state) byte-identical to the intruder-free history; two freshly
      created simulators with the same seed agree.
(ii)  DASK (``--only dask``).  ``use_dask=True`` under a harness-owned dask scheduler (mc/c11_sched.py): every
      execution order of the per-shot tasks of every ``dask.compute`` call and every interleaving with <= 2
      preemptions at the calls on a SHARED random source.  Oracle: identical to ``use_dask=False``.
(iii) DIFFERENT SEEDS (``--only seeds``).  Seeds 1..8, 64 shots, measurements whose exact one-shot law has
      min-entropy >= 1 bit (closed form / mc/refmodel/bornlaw.py): all 28 pairs of sample sequences differ.
(iv)  THREADS / PARTITIONS (``--only native | tsan | numba | omp``).  The native permanent and its Laplace
      variant under every job count min(4*hw, idx_max) the interposed hardware_concurrency() can produce
      (hw = 0, 1..16, 17, 32, 64 -> job counts 4, 8, .., 64, 68, 128 and idx_max itself, on a catalogue with
      idx_max in {1, 2, 3, 4, 6, 8, 9, 18, 24, 32, 48, 60, 64, 75, 120, 128} plus a family of row vectors with
      idx_max = k for every k <= 64 except 31, 37, 41, 43, 47, 53, 59, 61, 62 -> every job count 1..64 but those),
      every team size the runtime may grant (1..jobs; quick: a
      subset) and every order in which the threads of the team run (all permutations for teams <= 4, ascending /
      descending / interleaved / rotations beyond) through the GOMP shim (mc/native_sched.py, sequentialised, under
      ASan+UBSan), a free-running ThreadSanitizer build of the same driver, the real pybind module under
      OMP_NUM_THREADS / OMP_THREAD_LIMIT in {1, 2, 16} (child processes), and the numba ``prange`` hafnians under
      numba.set_num_threads(1..16) (repeated calls, every distinct rounding is checked): equal across partitions /
      thread counts to 1e-12 relative and equal to the exact reference (mc/refmodel/kernels.py); seeded samples
      identical under every thread count.
"""

import itertools
import json

LEVEL = "model_checking"

PARTS = ("selftest", "hist", "dask", "seeds", "native", "tsan", "numba", "omp")

REL_PARTITION = 1e-12
REL_REFERENCE = 1e-9


# =======================================================================================
# work items


def _b2_limit(name, tier):
    """Largest shot count explored with <= 2 preemptions (above it: execution orders only).  The samplers that
    retry (post-selection) meet dozens of yield points per task."""
    heavy = name in ("passive_postselect_uniform_loss", "passive_distinguishable_postselect")
    if tier == "quick":
        return 2 if heavy else 3
    return 3 if heavy else 4


def _items(tier, builddir, vseed):
    from mc import c11_kernels as KN
    from mc import c11_programs as P

    items = [("selftest",)]
    hist_seeds = [3] if tier == "quick" else [3, 7]
    dask_seeds = [3] if tier == "quick" else [3, 7]
    max_shots = 4
    # heavy items first (the pool takes them in order)
    for seed in dask_seeds:
        for name in P.DASK_PROGRAMS:
            for shots in range(max_shots, 0, -1):
                bound = 2 if shots <= _b2_limit(name, tier) else 0
                items.append(("dask", name, seed, shots, bound))
    for seed in hist_seeds:
        for name in P.HISTORY_PROGRAMS:
            items.append(("hist", name, seed))
    items.append(("numba", builddir))
    items.append(("omp", builddir))
    cat = KN.perm_catalogue(vseed, tier)
    # the big cases alone, the small ones in groups
    group = []
    for ci, (name, kernel, mat, rows, cols) in enumerate(cat):
        if KN.idx_max(rows) >= 32:
            items.append(("native", builddir, [ci]))
        else:
            group.append(ci)
            if len(group) == 6:
                items.append(("native", builddir, group))
                group = []
    if group:
        items.append(("native", builddir, group))
    # the family rows -> idx_max = k for (almost) every k <= 64: the job count k itself
    nfam = len(KN.family_catalogue(vseed))
    chunk = 12 if tier == "quick" else 6
    for lo in range(0, nfam, chunk):
        items.append(("native", builddir, list(range(lo, min(nfam, lo + chunk))), True))
    items.append(("tsan", builddir))
    for name in P.ENTROPY_PROGRAMS:
        items.append(("seeds", name))
    return items


def run(ctx, builddir):
    from mc import core

    items = _items(ctx.tier, builddir, ctx.seed)
    only = getattr(ctx, "only", None)
    if only:
        part, _, prog = only.partition(":")
        items = [it for it in items if it[0] == part and (not prog or (len(it) > 1 and it[1] == prog))]
        if not items:
            raise core.HarnessError("--only %r selects nothing (parts: %s; 'hist:<program>', 'dask:<program>')" % (only, ", ".join(PARTS)))
    ctx.rule = (
        "hist: every placement of <= 2 intruder events (11 kinds, order inside a slot matters) into the 4 slots around "
        "[Config(seed), Simulator(config), execute, samples] for every program x seed; dask: every schedule (task order at "
        "compute start / task end, <= 2 preemptions at shared-generator calls) for every program x seed x shots <= 4; seeds: all "
        "pairs of seeds 1..8; native: every (catalogue case, job count, team size, thread order); numba: every (case, thread count 1..16). "
        "A case is distinct by its full description (program, seed, history | schedule | partition); non-trivial = it executes the "
        "sampler / kernel on the real implementation and is compared with the reference execution"
    )
    ctx.assume("real RNGs; the process-global random / numpy.random states are re-seeded and os.urandom is a counter at the start of every history, so every history is a deterministic function of its description")
    ctx.assume("different seeds: min-entropy >= 1 bit per shot of the exact one-shot law => two 64-shot sequences of an ideal generator coincide with probability <= 2^-64 (adjacent seeds share per-shot streams shifted by one shot: coincidence still needs 64 equal outcomes, <= 2^-63); numpy's PCG64 / Python's Mersenne twister are assumed to behave like ideal generators at that level")
    ctx.assume("partition / thread-count independence: |a-b| <= 1e-12 * S with S = max(|exact value|, sum of the absolute values of the addends of the defining formula (Glynn sum for the permanent, matchings of |A| for the hafnians; batch hafnians: largest entry of the batch)); equality with the exact reference: 1e-9 * S (C04 owns the accuracy question)")
    ctx.assume("seeded samples under different numba / OpenMP thread counts are required to be identical: a reduction-order rounding difference (<= 1e-12 relative) flips a categorical draw with probability ~1e-12 per draw; treated as impossible")
    ctx.assume("dask: the per-shot tasks interact only through Python-level shared objects; preemption points are the calls on the shared generators Config.rng / Config._random (proxied); tasks are otherwise atomic (the GIL-level interleavings of pure-Python task bodies that touch no shared object cannot change their results)")
    ctx.max_samples = 10**6
    core.pmap(ctx, "mc.checks.c11", "work", items, builddir)
    picked, seen = [], {}
    for s in ctx.samples:  # one or two written-out cases of every part
        k = s.get("part")
        if seen.get(k, 0) < (2 if k in ("hist", "dask") else 1):
            seen[k] = seen.get(k, 0) + 1
            picked.append(s)
    ctx.samples = picked[:10]
    c = ctx.counters
    states = c.get("histories", 0) + c.get("schedules", 0) + c.get("partitions", 0) + c.get("thread_configs", 0) + c.get("seed_runs", 0)
    transitions = c.get("events", 0) + c.get("sched_decisions", 0) + c.get("jobs_run", 0) + c.get("thread_configs", 0) + c.get("seed_pairs", 0)
    traces = c.get("compared", 0)
    return {
        "states": states,
        "transitions": transitions,
        "traces_validated_against_impl": traces,
        "explanation": "states = complete interleavings executed: histories (program, seed, placement of <= 2 intruders) + dask schedules "
        "(program, seed, shots, decision sequence) + native partitions (case, job count, team, thread order) + (kernel case, thread "
        "count) configurations + seeded 64-shot runs; transitions = events executed in them (main and intruder events of the histories; "
        "scheduling decisions of the dask schedules; OpenMP jobs run by the shim; thread-count switches; seed pairs compared); "
        "traces_validated = executions of the real implementation whose observation was compared byte for byte (samples, branches) or "
        "to 1e-12 / 1e-9 relative (kernels) with the reference execution / exact value",
        "histories": c.get("histories", 0),
        "dask_schedules": c.get("schedules", 0),
        "dask_task_orders": c.get("task_orders", 0),
        "dask_preempting_schedules": c.get("preempting_schedules", 0),
        "max_yield_points": c.get("max_yield_points", 0),
        "max_schedule_depth": c.get("max_schedule_depth", 0),
        "native_partitions": c.get("partitions", 0),
        "native_max_job_count": c.get("max_job_count", 0),
        "native_job_counts_reached": sorted(int(k.split("_")[1]) for k in c if k.startswith("jobcount_")),
        "native_thread_orders_not_applicable": c.get("native_order_mismatch", 0),
        "tsan_runs": c.get("tsan_runs", 0),
        "numba_thread_configs": c.get("numba_configs", 0),
        "omp_configs": c.get("omp_configs", 0),
        "seed_pairs": c.get("seed_pairs", 0),
        "unsupported_cells": c.get("unsupported_cells", 0),
        "seed_programs_below_one_bit": c.get("seed_programs_below_one_bit", 0),
        "intruder_events_that_raised": c.get("intruder_exceptions", 0),
        "mismatches_explained_by_a_single_intruder": c.get("explained_by_single", 0),
    }


def work(ctx, item):
    globals()["_w_" + item[0]](ctx, item)


def _cmax(ctx, key, value):
    # keys starting with max_ are merged with max() across workers; keep the same meaning inside one worker
    ctx.counters[key] = max(ctx.counters.get(key, 0), int(value))


def replay(ctx, case, signature):
    from mc import build

    part = case["part"]
    if part == "hist":
        _replay_hist(ctx, case)
    elif part == "same_seed":
        _w_hist(ctx, ("hist", case["program"], case["seed"]), only_baseline=True)
    elif part == "dask":
        _replay_dask(ctx, case)
    elif part == "seeds":
        _w_seeds(ctx, ("seeds", case["program"]))
    elif part == "native":
        _w_native(ctx, ("native", build.ensure_built(), case["cases"], case.get("family", False)), only_schedule=case.get("schedule"))
    elif part == "tsan":
        _w_tsan(ctx, ("tsan", build.ensure_built()))
    elif part == "numba":
        _w_numba(ctx, ("numba", build.ensure_built()))
    elif part == "omp":
        _w_omp(ctx, ("omp", build.ensure_built()))
    else:
        from mc import core

        raise core.HarnessError("unknown replay part %r" % (part,))


# =======================================================================================
# self-test of the schedule explorer


def _w_selftest(ctx, item):
    from mc import c11_sched as S

    S.self_test()
    ctx.count("selftests")


# =======================================================================================
# (i) histories


def _hist_case(spec, seed, shots, history, vseed):
    from mc import c11_engine as E

    return {
        "part": "hist",
        "program": spec.name,
        "sampler": spec.sampler,
        "seed": seed,
        "shots": shots,
        "vseed": vseed,
        "history": [[s, a] for s, a in history],
        "history_text": " ; ".join("%s@%s" % (a, E.SLOTS[s]) for s, a in history) or "(no intruder)",
    }


def _w_hist(ctx, item, only_baseline=False):
    from mc import core
    from mc import c11_engine as E
    from mc import c11_programs as P

    _, name, seed = item
    spec = P.make(name, ctx.seed)
    shots = spec.shots or 4

    def run(h):
        ctx.count("histories")
        ctx.count("events", 4 + len(h))
        ctx.count("compared")
        n0 = E.STATS["intruder_exceptions"]
        obs = E.run_history(spec, seed, shots, h, vseed=ctx.seed)
        ctx.count("intruder_exceptions", E.STATS["intruder_exceptions"] - n0)
        return obs

    base = run(())
    if "exception" in base:
        ctx.count("unsupported_cells")
        ctx.sample({"part": "hist", "program": name, "seed": seed, "baseline": E.short(base)})
        return
    # two freshly created simulators with the same seed
    again = run(())
    if again != base:
        r3, r4 = run(()), run(())
        if r3 == r4:
            raise core.HarnessError("HARNESS-NONDETERMINISM baseline of %s seed %d differed once and agreed afterwards" % (name, seed))
        ctx.violation(
            {"check": "C11", "sub": "same_seed_differs", "family": spec.family, "sampler": spec.sampler},
            {"part": "same_seed", "program": name, "seed": seed, "shots": shots, "first": E.short(base), "second": E.short(again)},
            "%s: two freshly created simulators with seed_sequence=%d return different results: %s vs %s" % (name, seed, E.short(base), E.short(again)),
        )
        return
    if only_baseline:
        return
    ctx.sample({"part": "hist", "program": name, "seed": seed, "shots": shots, "samples": E.short(base), "branches": len(base["branches"])})
    failing = {}  # (slot, intruder) -> observation
    nslots = len(E.SLOTS)
    for s in range(nslots):
        for a in E.INTRUDERS:
            h = ((s, a),)
            ctx.note_distinct(("hist", name, seed, h))
            obs = run(h)
            if obs != base:
                if run(h) != obs:
                    raise core.HarnessError("HARNESS-NONDETERMINISM history %r of %s seed %d" % (h, name, seed))
                failing[(s, a)] = obs
    by_intruder = {}
    for (s, a), obs in sorted(failing.items()):
        by_intruder.setdefault(a, []).append((s, obs))
    for a, lst in sorted(by_intruder.items()):
        s, obs = lst[0]
        case = _hist_case(spec, seed, shots, ((s, a),), ctx.seed)
        case["expected"] = E.short(base)
        case["observed"] = E.short(obs)
        case["failing_slots"] = [E.SLOTS[x] for x, _ in lst]
        ctx.violation(
            {"check": "C11", "sub": "history", "intruder": a, "family": spec.family},
            case,
            "%s, seed_sequence=%d, shots=%d: the event %s %s changes the result of the seeded run: %s instead of %s (slots where it matters: %s)"
            % (name, seed, shots, a, E.SLOTS[s].replace("_", " "), E.short(obs), E.short(base), ", ".join(case["failing_slots"])),
        )
    pair_reported = set()
    for s1 in range(nslots):
        for s2 in range(s1, nslots):
            for a in E.INTRUDERS:
                for b in E.INTRUDERS:
                    h = ((s1, a), (s2, b))
                    ctx.note_distinct(("hist", name, seed, h))
                    obs = run(h)
                    if obs == base:
                        continue
                    if (s1, a) in failing or (s2, b) in failing:
                        ctx.count("explained_by_single")
                        continue
                    key = tuple(sorted((a, b)))
                    if key in pair_reported:
                        continue
                    if run(h) != obs:
                        raise core.HarnessError("HARNESS-NONDETERMINISM history %r of %s seed %d" % (h, name, seed))
                    pair_reported.add(key)
                    case = _hist_case(spec, seed, shots, h, ctx.seed)
                    case["expected"] = E.short(base)
                    case["observed"] = E.short(obs)
                    ctx.violation(
                        {"check": "C11", "sub": "history", "intruder": "%s + %s" % key, "family": spec.family},
                        case,
                        "%s, seed_sequence=%d: only the PAIR of events %s changes the result: %s instead of %s" % (name, seed, case["history_text"], E.short(obs), E.short(base)),
                    )


def _replay_hist(ctx, case):
    from mc import c11_engine as E
    from mc import c11_programs as P

    spec = P.make(case["program"], case.get("vseed", 0))
    h = tuple((int(s), a) for s, a in case["history"])
    base = E.run_history(spec, case["seed"], case["shots"], (), vseed=case.get("vseed", 0))
    obs = E.run_history(spec, case["seed"], case["shots"], h, vseed=case.get("vseed", 0))
    print("  intruder-free history : %s" % E.short(base, 12))
    print("  history %-14s: %s" % (case.get("history_text", ""), E.short(obs, 12)))
    if obs != base:
        a = " + ".join(sorted(x for _, x in h)) if len(h) > 1 else h[0][1]
        ctx.violation({"check": "C11", "sub": "history", "intruder": a, "family": spec.family}, case, "history %s changes the seeded result: %s instead of %s" % (case.get("history_text"), E.short(obs), E.short(base)))


# =======================================================================================
# (ii) dask schedules


def _w_dask(ctx, item):
    from mc import core
    from mc import c11_engine as E
    from mc import c11_programs as P
    from mc import c11_sched as S

    _, name, seed, shots, bound = item
    spec = P.make(name, ctx.seed)
    base = E.run_history(spec, seed, shots, (), use_dask=False, vseed=ctx.seed)
    ctx.count("compared")
    if "exception" in base:
        ctx.count("unsupported_cells")
        return
    first_bad = {}
    nbad = 0
    labels = set()
    orders = set()
    n = 0
    tasks_seen = 0
    for s, obs in S.explore(lambda s: E.run_history(spec, seed, shots, (), use_dask=True, vseed=ctx.seed, sched=s), bound):
        n += 1
        ctx.count("schedules")
        ctx.count("sched_decisions", len(s.trace) + s.tasks)
        ctx.count("compared")
        _cmax(ctx, "max_yield_points", s.yields)
        _cmax(ctx, "max_schedule_depth", len(s.trace))
        tasks_seen = max(tasks_seen, s.tasks)
        labels |= s.yield_labels
        pre = s.preemptions()
        if pre == 0:
            orders.add(tuple(s.order))
        else:
            ctx.count("preempting_schedules")
        ctx.note_distinct(("dask", name, seed, shots, tuple(t[2] for t in s.trace)))
        if obs != base:
            nbad += 1
            kind = "atomic" if pre == 0 else "preempting"
            if kind not in first_bad:
                first_bad[kind] = (list(t[2] for t in s.trace), list(s.order), pre, obs)
    ctx.count("task_orders", len(orders))
    if tasks_seen == 0:
        ctx.count("dask_runs_without_tasks")
    if n <= 3:
        ctx.sample({"part": "dask", "program": name, "seed": seed, "shots": shots, "schedules": n, "task_orders": len(orders), "samples": E.short(base)})
    if not first_bad:
        return
    # the simplest witness: an execution order without preemption if there is one
    prefix, order, pre, obs = first_bad["atomic" if "atomic" in first_bad else "preempting"]
    s2 = S.Scheduler(prefix)
    if E.run_history(spec, seed, shots, (), use_dask=True, vseed=ctx.seed, sched=s2) != obs:
        raise core.HarnessError("HARNESS-NONDETERMINISM dask schedule %r of %s seed %d shots %d" % (prefix, name, seed, shots))
    shared = ",".join(sorted(labels)) or "none"
    case = {
        "part": "dask", "program": name, "sampler": spec.sampler, "seed": seed, "shots": shots, "vseed": ctx.seed, "schedule": prefix,
        "task_start_order": [list(x) for x in order], "preemptions": pre, "expected_use_dask_False": E.short(base, 8),
        "observed": E.short(obs, 8), "schedules_explored": n, "schedules_differing": nbad, "shared_source_called_in_tasks": shared,
    }
    ctx.violation(
        {"check": "C11", "sub": "dask_order", "sampler": spec.sampler, "shared_source": shared},
        case,
        "%s, seed_sequence=%d, shots=%d, use_dask=True: running the per-shot tasks in the order %s%s gives %s, use_dask=False gives %s "
        "(%d of %d explored schedules differ; shared random source called inside the tasks: %s)"
        % (name, seed, shots, [i for _, i in order], "" if pre == 0 else " with %d preemption(s)" % pre, E.short(obs, 8), E.short(base, 8), nbad, n, shared),
    )


def _replay_dask(ctx, case):
    from mc import c11_engine as E
    from mc import c11_programs as P
    from mc import c11_sched as S

    spec = P.make(case["program"], case.get("vseed", 0))
    base = E.run_history(spec, case["seed"], case["shots"], (), use_dask=False, vseed=case.get("vseed", 0))
    s = S.Scheduler(case["schedule"])
    obs = E.run_history(spec, case["seed"], case["shots"], (), use_dask=True, vseed=case.get("vseed", 0), sched=s)
    print("  use_dask=False                 : %s" % E.short(base, 12))
    print("  use_dask=True, task order %s: %s" % ([i for _, i in s.order], E.short(obs, 12)))
    if obs != base:
        shared = case.get("shared_source_called_in_tasks") or ",".join(sorted(s.yield_labels)) or "none"
        ctx.violation({"check": "C11", "sub": "dask_order", "sampler": spec.sampler, "shared_source": shared}, case, "schedule %r: %s instead of %s" % (case["schedule"], E.short(obs), E.short(base)))


# =======================================================================================
# (iii) different seeds


def _w_seeds(ctx, item):
    from mc import core
    from mc import c11_engine as E
    from mc import c11_programs as P

    _, name = item
    spec = P.make(name, ctx.seed)
    pmax = spec.entropy()
    if not pmax <= 0.5 + 1e-12:
        # the statement only covers measurements with >= 1 bit of min-entropy; a generic interferometer of this
        # VERIF_SEED may concentrate the law: not asserted, counted
        ctx.count("seed_programs_below_one_bit")
        return
    shots = 64
    seeds = list(range(1, 9))
    obs = {}
    for s in seeds:
        o = E.run_history(spec, s, shots, (), vseed=ctx.seed)
        ctx.count("seed_runs")
        ctx.count("compared")
        if "exception" in o:
            ctx.count("unsupported_cells")
            return
        if len(o["samples"]) != shots:
            raise core.HarnessError("%s: %d samples for %d shots" % (name, len(o["samples"]), shots))
        obs[s] = o["samples"]
        ctx.note_distinct(("seeds", name, s))
    for a, b in itertools.combinations(seeds, 2):
        ctx.count("seed_pairs")
        if obs[a] == obs[b]:
            again = E.run_history(spec, b, shots, (), vseed=ctx.seed)
            if again.get("samples") != obs[b]:
                raise core.HarnessError("HARNESS-NONDETERMINISM %s seed %d" % (name, b))
            ctx.violation(
                {"check": "C11", "sub": "different_seeds_same_samples", "sampler": spec.sampler},
                {"part": "seeds", "program": name, "seeds": [a, b], "shots": shots, "max_one_shot_probability": pmax, "samples": E.short({"samples": obs[a]}, 10)},
                "%s: seed_sequence=%d and seed_sequence=%d give the same 64-shot sample sequence %s although the exact one-shot law has max probability %.4g" % (name, a, b, E.short({"samples": obs[a]}, 10), pmax),
            )
            return
    ctx.sample({"part": "seeds", "program": name, "max_one_shot_probability": pmax, "seed_1_head": E.short({"samples": obs[1]}, 5), "seed_2_head": E.short({"samples": obs[2]}, 5)})


# =======================================================================================
# (iv) native permanent: forced job counts, team sizes, thread orders


def _partition_class(hw, jobs, team, im):
    if hw == 0:
        return "hardware_concurrency=0"
    if jobs == im:
        c = "jobs=idx_max"
    elif im % jobs:
        c = "idx_max%jobs!=0"
    else:
        c = "idx_max%jobs==0"
    if team is not None and team < jobs:
        c += ",team<jobs"
    return c


def _w_native(ctx, item, only_schedule=None):
    from mc import c11_kernels as KN
    from mc import native_sched as NS

    _, builddir, indices = item[:3]
    family = len(item) > 3 and bool(item[3])
    cat = KN.family_catalogue(ctx.seed) if family else KN.perm_catalogue(ctx.seed, ctx.tier)
    cases = []
    meta = []
    for ci in indices:
        name, kernel, mat, rows, cols = cat[ci]
        cm = KN.to_complex(mat)
        scheds = [(0, None, "asc")] + (KN.family_schedules(rows, ctx.tier) if family else KN.schedules(rows, ctx.tier))
        if only_schedule is not None:
            scheds = [(1, 1, "asc"), tuple(only_schedule)]
        for hw, team, order in scheds:
            cases.append({"matrix": cm, "rows": list(rows), "cols": list(cols), "hw": hw, "team": team, "thread_order": order, "laplace": kernel == "permanent_laplace"})
            meta.append((ci, hw, team, order))
    out = NS.run_schedules(cases, mode="asan", builddir=builddir, timeout=3000)
    per_case = {}
    for (ci, hw, team, order), r in zip(meta, out):
        per_case.setdefault(ci, []).append((hw, team, order, r))
    for ci, runs in per_case.items():
        name, kernel, mat, rows, cols = cat[ci]
        im = KN.idx_max(rows)
        refs, scales = KN.perm_reference(kernel, mat, rows, cols)
        baseline = None
        reported = set()
        jobs_seen = set()
        for hw, team, order, r in runs:
            ctx.count("partitions")
            ctx.count("compared")
            ctx.note_distinct(("native", name, hw, team, tuple(order) if not isinstance(order, str) else order))
            sched = [hw, team, order]

            def viol(what, detail, jobs=None, extra=None):
                cls = _partition_class(hw, jobs if jobs else max(1, min(4 * hw, im)), team, im)
                sig = {"check": "C11", "sub": "native_partition", "kernel": kernel, "what": what, "input_class": cls}
                if extra:
                    sig.update(extra)
                key = json.dumps(sig, sort_keys=True)
                if key in reported:
                    return
                reported.add(key)
                ctx.violation(
                    sig,
                    {"part": "native", "cases": [ci], "family": family, "case_name": name, "rows": list(rows), "cols": list(cols), "idx_max": im, "schedule": sched, "jobs": jobs, "detail": detail},
                    "%s(%s rows=%s cols=%s, Gray-code range %d) with hardware_concurrency()=%d -> %s jobs, team %s, thread order %s: %s"
                    % (kernel, name, list(rows), list(cols), im, hw, jobs, team, order if isinstance(order, str) or len(order) <= 8 else "%s..." % order[:8], detail),
                )

            if r["sanitizer"] is not None:
                rep = r["sanitizer"]
                viol("sanitizer_report", "%s %s at %s" % (rep.get("tool"), rep.get("kind"), rep.get("where")), r["jobs"], {"where": rep.get("where"), "kind": rep.get("kind")})
                continue
            if r["error"] is not None:
                if "ORDER-MISMATCH" in r["error"]:
                    # the kernel asked for another number of threads than the Python mirror of its job arithmetic
                    # predicted (the arithmetic changed): this thread order does not apply; counted, not judged
                    ctx.count("native_order_mismatch")
                    continue
                viol("kernel_error", r["error"][:200], r["jobs"])
                continue
            vals = r["value"] if isinstance(r["value"], list) else [r["value"]]
            jobs = r["jobs"]
            if hw > 0:
                jobs_seen.add(jobs)
                ctx.count("jobs_run", jobs)
                _cmax(ctx, "max_job_count", jobs)
                ctx.count("jobcount_%03d" % jobs)
            if len(vals) != len(refs):
                viol("wrong_length", "%d values, expected %d" % (len(vals), len(refs)), jobs)
                continue
            bad_ref = bad_part = None
            for l, (v, ref, sc) in enumerate(zip(vals, refs, scales)):
                if ref is None:
                    continue
                if not abs(v - ref) <= REL_REFERENCE * sc:
                    bad_ref = bad_ref or "entry %d: got %r, exact %r, |diff| %.3g > %.3g" % (l, v, ref, abs(v - ref), REL_REFERENCE * sc)
                if baseline is not None and not abs(v - baseline[l]) <= REL_PARTITION * sc:
                    bad_part = bad_part or "entry %d: got %r, with 1 thread / smallest job count %r, |diff| %.3g > %.3g" % (l, v, baseline[l], abs(v - baseline[l]), REL_PARTITION * sc)
            if bad_ref:
                viol("differs_from_reference", bad_ref, jobs)
            elif bad_part:
                viol("differs_across_partitions", bad_part, jobs)
            if baseline is None and hw > 0 and not bad_ref:
                baseline = vals
        if only_schedule is None and ci == max(indices, key=lambda i: (KN.idx_max(cat[i][3]), -i)):
            ctx.sample({"part": "native", "case": name, "kernel": kernel, "rows": list(rows), "cols": list(cols), "idx_max": im, "job_counts": sorted(jobs_seen), "partitions": len(runs)})


def _w_tsan(ctx, item):
    from mc import c11_kernels as KN

    _, builddir = item
    cat = KN.perm_catalogue(ctx.seed, ctx.tier)
    pick = [c for c in cat if KN.idx_max(c[3]) in ((9, 48, 128) if ctx.tier == "quick" else (3, 9, 48, 75, 128))]
    hws = (1, 2, 16) if ctx.tier == "quick" else (1, 2, 3, 4, 8, 16, 32)
    cases, meta = [], []
    for name, kernel, mat, rows, cols in pick:
        cm = KN.to_complex(mat)
        for hw in hws:
            for team in (None, 2, 3):
                for order in ("asc", "desc"):
                    cases.append({"matrix": cm, "rows": list(rows), "cols": list(cols), "hw": hw, "team": team, "thread_order": order, "laplace": kernel == "permanent_laplace"})
                    meta.append((name, kernel, mat, rows, cols, hw, team, order))
    out = KN.run_tsan_schedules(cases, builddir)
    reported = set()
    for (name, kernel, mat, rows, cols, hw, team, order), r in zip(meta, out):
        ctx.count("tsan_runs")
        ctx.count("thread_configs")
        ctx.count("compared")
        ctx.note_distinct(("tsan", name, hw, team, order))
        refs, scales = KN.perm_reference(kernel, mat, rows, cols)
        case = {"part": "tsan", "case_name": name, "rows": list(rows), "cols": list(cols), "hw": hw, "team": team, "order": order}
        if r["sanitizer"] is not None:
            rep = r["sanitizer"]
            sig = {"check": "C11", "sub": "native_tsan", "kernel": kernel, "kind": rep.get("kind"), "where": rep.get("where")}
            key = json.dumps(sig, sort_keys=True)
            if key not in reported:
                reported.add(key)
                case["report"] = (rep.get("text") or "")[-1500:]
                ctx.violation(sig, case, "%s(%s) free-running with %s threads (hardware_concurrency()=%d): ThreadSanitizer %s at %s" % (kernel, name, r["team"], hw, rep.get("kind"), rep.get("where")))
            continue
        if r["error"] is not None or r["value"] is None:
            sig = {"check": "C11", "sub": "native_tsan", "kernel": kernel, "kind": "kernel_error", "where": "none"}
            if json.dumps(sig, sort_keys=True) not in reported:
                reported.add(json.dumps(sig, sort_keys=True))
                ctx.violation(sig, case, "%s(%s) free-running: %s" % (kernel, name, r["error"]))
            continue
        vals = r["value"] if isinstance(r["value"], list) else [r["value"]]
        for l, (v, ref, sc) in enumerate(zip(vals, refs, scales)):
            if ref is not None and not abs(v - ref) <= REL_REFERENCE * sc:
                sig = {"check": "C11", "sub": "native_tsan", "kernel": kernel, "kind": "wrong_value_with_real_threads", "where": "none"}
                if json.dumps(sig, sort_keys=True) not in reported:
                    reported.add(json.dumps(sig, sort_keys=True))
                    ctx.violation(sig, case, "%s(%s) free-running with %s threads: entry %d = %r, exact %r" % (kernel, name, r["team"], l, v, ref))


# =======================================================================================
# (iv) numba thread counts


def _numba_compare(ctx, KN, cat, out):
    """-> list of (signature, case, message)"""
    bad = []
    threads = out["threads"]
    for case in cat:
        res = out["values"][case["name"]]
        ref, scale = KN.haf_reference(case)
        one = [KN.hex_to_complex(h) for h in res["1"][0]]
        if scale is None:
            scale = max(abs(x) for x in one) or 1.0
        for n in threads:
            ctx.count("numba_configs")
            ctx.count("thread_configs")
            ctx.count("compared")
            ctx.note_distinct(("numba", case["name"], n))
            ctx.count("numba_distinct_roundings", len(res[str(n)]))
            vals = None
            for hv in res[str(n)]:  # every distinct result of the repeated calls
                vals = [KN.hex_to_complex(h) for h in hv]
                hit = False
                for l, (v, v1) in enumerate(zip(vals, one)):
                    if not abs(v - v1) <= REL_PARTITION * scale:
                        bad.append((
                            {"check": "C11", "sub": "numba_threads", "function": case["kind"], "what": "differs_across_thread_counts"},
                            {"part": "numba", "case": case["name"], "threads": n, "entry": l, "value": repr(v), "value_1_thread": repr(v1), "scale": scale},
                            "%s(%s) with numba.set_num_threads(%d): entry %d = %r, with 1 thread %r (|diff| %.3g > %.3g)" % (case["kind"], case["name"], n, l, v, v1, abs(v - v1), REL_PARTITION * scale),
                        ))
                        hit = True
                        break
                if hit:
                    break
            if ref is not None and not abs(vals[0] - ref) <= REL_REFERENCE * scale:
                bad.append((
                    {"check": "C11", "sub": "numba_threads", "function": case["kind"], "what": "differs_from_reference"},
                    {"part": "numba", "case": case["name"], "threads": n, "value": repr(vals[0]), "exact": repr(ref), "scale": scale},
                    "%s(%s) with numba.set_num_threads(%d) = %r, exact %r" % (case["kind"], case["name"], n, vals[0], ref),
                ))
    for key, res in out["samples"].items():
        one = res["1"]
        for n, obs in sorted(res.items(), key=lambda kv: int(kv[0])):
            ctx.count("compared")
            ctx.count("thread_configs")
            if obs != one:
                bad.append((
                    {"check": "C11", "sub": "numba_threads", "function": "seeded_sampling", "what": "samples_differ_across_thread_counts"},
                    {"part": "numba", "run": key, "threads": int(n)},
                    "seeded run %s: samples with numba.set_num_threads(%s) differ from the 1-thread samples" % (key, n),
                ))
                break
    return bad


def _w_numba(ctx, item):
    from mc import core
    from mc import c11_kernels as KN

    _, builddir = item
    cat = KN.haf_catalogue(ctx.seed, ctx.tier)
    payload = {
        "vseed": ctx.seed,
        "threads": list(range(1, 17)),
        "reps": 10 if ctx.tier == "quick" else 40,
        "cases": cat,
        "sampling": [
            {"program": "gaussian_pnm", "seed": 3, "shots": 24, "threads": [1, 2, 5, 16]},
            {"program": "gaussian_threshold_hafnian", "seed": 4, "shots": 24, "threads": [1, 2, 16]},
            {"program": "gaussian_pnm_partial", "seed": 5, "shots": 16, "threads": [1, 3, 16]},
        ],
    }
    env = KN.child_env(NUMBA_NUM_THREADS=16, OMP_NUM_THREADS=16)
    out = KN.run_child("numba", payload, builddir, env)
    if out["threads"] != list(range(1, 17)):
        raise core.HarnessError("numba child could only use the thread counts %r" % (out["threads"],))
    bad = _numba_compare(ctx, KN, cat, out)
    if bad:
        # the verdict (not the rounding) must be reproducible
        class _Null:
            def count(self, *a, **k):
                pass

            def note_distinct(self, *a, **k):
                pass

        out2 = KN.run_child("numba", payload, builddir, env)
        bad2 = {b[0]["function"] for b in _numba_compare(_Null(), KN, cat, out2)}
        seen = set()
        for sig, case, msg in bad:
            key = json.dumps(sig, sort_keys=True)
            if key in seen:
                continue
            seen.add(key)
            if sig["function"] not in bad2:
                raise core.HarnessError("HARNESS-NONDETERMINISM numba verdict %s not reproduced by a second child process" % key)
            ctx.violation(sig, case, msg)
    ctx.sample({"part": "numba", "threading_layer": out.get("threading_layer"), "cases": len(cat), "thread_counts": out["threads"]})
    ctx.extra["numba_threading_layer"] = out.get("threading_layer")


# =======================================================================================
# (iv) OpenMP thread counts through the real pybind module


def _w_omp(ctx, item):
    from mc import c11_kernels as KN

    _, builddir = item
    cat = KN.perm_catalogue(ctx.seed, ctx.tier)
    payload = {
        "vseed": ctx.seed,
        "cases": [{"name": n, "kernel": k, "mat": m, "rows": list(r), "cols": list(c)} for n, k, m, r, c in cat],
        "sampling": [
            {"program": "passive_lossless_multi", "seed": 3, "shots": 8},
            {"program": "passive_nonuniform_loss", "seed": 4, "shots": 8},
            {"program": "passive_distinguishable", "seed": 5, "shots": 8},
        ],
    }
    settings = [("1", "1"), ("2", "2"), ("16", "16")]
    if ctx.tier != "quick":
        settings.append(("16", None))  # the kernel's own request: 4 * hardware_concurrency() threads
    results = []
    for nt, lim in settings:
        out = KN.run_child("omp", payload, builddir, KN.child_env(OMP_NUM_THREADS=nt, OMP_THREAD_LIMIT=lim, NUMBA_NUM_THREADS=1))
        results.append(out)
    base = results[0]
    reported = set()
    for (nt, lim), out in zip(settings, results):
        label = "OMP_NUM_THREADS=%s,OMP_THREAD_LIMIT=%s" % (nt, lim if lim is not None else "unset")
        ctx.count("omp_configs")
        for name, kernel, mat, rows, cols in cat:
            ctx.count("thread_configs")
            ctx.count("compared")
            ctx.note_distinct(("omp", name, label))
            refs, scales = KN.perm_reference(kernel, mat, rows, cols)
            vals = [KN.hex_to_complex(h) for h in out["values"][name]]
            vals1 = [KN.hex_to_complex(h) for h in base["values"][name]]
            for l, (v, v1, ref, sc) in enumerate(zip(vals, vals1, refs, scales)):
                if ref is None:
                    continue
                what = None
                if not abs(v - ref) <= REL_REFERENCE * sc:
                    what, detail = "differs_from_reference", "entry %d = %r, exact %r" % (l, v, ref)
                elif not abs(v - v1) <= REL_PARTITION * sc:
                    what, detail = "differs_across_thread_counts", "entry %d = %r, with one thread %r" % (l, v, v1)
                if what:
                    sig = {"check": "C11", "sub": "omp_threads", "kernel": kernel, "what": what, "setting": label}
                    key = json.dumps(sig, sort_keys=True)
                    if key not in reported:
                        reported.add(key)
                        ctx.violation(sig, {"part": "omp", "case_name": name, "rows": list(rows), "cols": list(cols), "setting": label, "detail": detail},
                                      "piquasso._math.permanent.%s(%s rows=%s cols=%s) under %s: %s" % (kernel, name, list(rows), list(cols), label, detail))
                    break
                if v == v1:
                    ctx.count("omp_bitwise_identical")
        for key, obs in out["samples"].items():
            ctx.count("compared")
            if obs != base["samples"][key]:
                sig = {"check": "C11", "sub": "omp_threads", "kernel": "seeded_sampling", "what": "samples_differ_across_thread_counts", "setting": label}
                k2 = json.dumps(sig, sort_keys=True)
                if k2 not in reported:
                    reported.add(k2)
                    ctx.violation(sig, {"part": "omp", "run": key, "setting": label}, "seeded run %s under %s: samples differ from the one-thread samples" % (key, label))
    ctx.sample({"part": "omp", "settings": ["OMP_NUM_THREADS=%s,OMP_THREAD_LIMIT=%s" % s for s in settings], "cases": len(cat)})
